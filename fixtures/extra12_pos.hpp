// Controls for analysis/rules/extra12.py (SHIFTNEG). Only parsed, never compiled into anything.
#pragma once
namespace fixture {
constexpr auto space_mask_bad(int ch) noexcept -> bool
{
    constexpr auto mask = 0x100003E00ULL;
    return ch <= ' ' and ((mask >> ch) & 1ULL) != 0ULL;
}

constexpr auto space_mask_good(int ch) noexcept -> bool
{
    constexpr auto mask = 0x100003E00ULL;
    return ch >= 0 and ch <= ' ' and ((mask >> ch) & 1ULL) != 0ULL;
}
} // namespace fixture
