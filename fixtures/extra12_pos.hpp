// Controls for analysis/rules/extra12.py (SHIFTNEG). Only parsed, never compiled into anything.
#pragma once
namespace fixture {
constexpr auto space_mask_bad(int ch) noexcept -> bool
{
    constexpr auto mask = 0x100003E00ULL;
    return ch <= ' ' and ((mask >> ch) & 1ULL) != 0ULL;
}

constexpr auto space_mask_good(int ch) noexcept -> bool
{
    constexpr auto mask = 0x100003E00ULL;
    return ch >= 0 and ch <= ' ' and ((mask >> ch) & 1ULL) != 0ULL;
}
} // namespace fixture

// CHARCAST controls (analysis/rules/extra10.py)
namespace fixture {
template <typename A, typename B> inline constexpr bool is_same_v = __is_same(A, B);
template <typename CharT>
struct traits_bad {
    using char_type = CharT;
    static constexpr auto eq(char_type a, char_type b) noexcept -> bool { return static_cast<unsigned char>(a) == static_cast<unsigned char>(b); }
};
template <typename CharT>
struct traits_good {
    using char_type = CharT;
    static constexpr auto lt(char_type a, char_type b) noexcept -> bool
    {
        if constexpr (is_same_v<char_type, char>) {
            return static_cast<unsigned char>(a) < static_cast<unsigned char>(b);
        } else {
            return a < b;
        }
    }
};
} // namespace fixture
