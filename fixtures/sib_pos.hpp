// positive control for rule SIB: `box::bad_get() &&` drops the fallback its siblings pass on; `box::good_get` differs only
// in move / const and delegation and must stay silent
#ifndef VERIF_FIXTURE_SIB_POS_HPP
#define VERIF_FIXTURE_SIB_POS_HPP
namespace fixture {

template <typename T>
constexpr auto move(T& t) -> T&& { return static_cast<T&&>(t); }

template <typename T>
struct box {
    constexpr auto good_get() & -> T& { return _v; }
    constexpr auto good_get() const& -> T const& { return _v; }
    constexpr auto good_get() && -> T&& { return fixture::move(_v); }
    constexpr auto good_get() const&& -> T const&& { return fixture::move(_v); }

    constexpr auto bad_get(T const& fallback) & -> T { return _has ? _v : fallback; }
    constexpr auto bad_get(T const& fallback) const& -> T { return _has ? _v : fallback; }
    constexpr auto bad_get(T const& fallback) && -> T { return _has ? fixture::move(_v) : T(); }

    constexpr auto ptr() const -> T const* { return &_v; }
    constexpr auto ptr() -> T* { return const_cast<T*>(static_cast<box const*>(this)->ptr()); }

    T _v;
    bool _has;
};

} // namespace fixture
#endif
