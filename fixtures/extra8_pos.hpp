// positive / negative controls for analysis/rules/extra8.py (SWAPSYM, GAPSHIFT, DISTGUARD): the expected count of reports on
// the library is zero, so each rule must report its positive control and prove its negative one on every run
#ifndef VERIF_FIXTURE_EXTRA8_POS_HPP
#define VERIF_FIXTURE_EXTRA8_POS_HPP
namespace fixture {

template <typename T> constexpr auto move(T& t) -> T&& { return static_cast<T&&>(t); }
template <typename It> constexpr auto move_backward(It f, It l, It d) -> It
{
    while (f != l) { *(--d) = static_cast<decltype(*l)&&>(*(--l)); }
    return d;
}

template <typename T>
struct seq {
    using iterator       = T*;
    using const_iterator = T const*;
    T buf[8];
    unsigned long n;

    constexpr auto begin() -> iterator { return buf; }
    constexpr auto end() -> iterator { return buf + n; }
    constexpr auto size() const -> unsigned long { return n; }
    constexpr auto back() -> T& { return buf[n - 1]; }
    constexpr auto emplace_back(T&& v) -> void { buf[n++] = static_cast<T&&>(v); }
    constexpr auto erase(iterator f, iterator l) -> void;
    constexpr auto move_insert(iterator p, iterator f, iterator l) -> void;

    // GAPSHIFT: the moved-from last element is shifted again
    constexpr auto insert_bad(const_iterator position, T&& x) -> iterator
    {
        auto* p = begin() + (position - begin());
        emplace_back(fixture::move(back()));
        fixture::move_backward(p, end() - 1, end());
        *p = static_cast<T&&>(x);
        return p;
    }

    constexpr auto insert_good(const_iterator position, T&& x) -> iterator
    {
        auto* p = begin() + (position - begin());
        emplace_back(fixture::move(back()));
        fixture::move_backward(p, end() - 2, end() - 1);
        *p = static_cast<T&&>(x);
        return p;
    }

    // SWAPSYM: the surplus goes to the front in one arm and to the back in the other
    struct bad_swap_tag { };
};

template <typename T>
struct swapper {
    seq<T> s;
    constexpr auto begin() { return s.begin(); }
    constexpr auto end() { return s.end(); }
    constexpr auto size() const { return s.size(); }
    constexpr auto erase(T* f, T* l) -> void;
    constexpr auto move_insert(T* p, T* f, T* l) -> void;

    constexpr auto swap(swapper& other) -> void
    {
        auto const common = size() < other.size() ? size() : other.size();
        if (size() > common) {
            other.move_insert(other.end(), begin() + common, end());
            erase(begin() + common, end());
        } else {
            move_insert(begin(), other.begin() + common, other.end());
            other.erase(other.begin() + common, other.end());
        }
    }
};

template <typename T>
struct good_swapper {
    seq<T> s;
    constexpr auto begin() { return s.begin(); }
    constexpr auto end() { return s.end(); }
    constexpr auto size() const { return s.size(); }
    constexpr auto erase(T* f, T* l) -> void;
    constexpr auto move_insert(T* p, T* f, T* l) -> void;

    constexpr auto swap(good_swapper& other) -> void
    {
        auto const common = size() < other.size() ? size() : other.size();
        if (size() > common) {
            other.move_insert(other.end(), begin() + common, end());
            erase(begin() + common, end());
        } else {
            move_insert(end(), other.begin() + common, other.end());
            other.erase(other.begin() + common, other.end());
        }
    }
};

// DISTGUARD: n - 1 elements left are not enough to compare n
template <typename It1, typename It2>
constexpr auto search_bad(It1 first, It1 last, It2 sFirst, It2 sLast) -> It1
{
    auto const tail = (sLast - sFirst) - 1;
    for (; last - first >= tail; ++first) {
        auto it  = first;
        auto sIt = sFirst;
        while (sIt != sLast and *it == *sIt) {
            ++it;
            ++sIt;
        }
        if (sIt == sLast) { return first; }
    }
    return last;
}

template <typename It1, typename It2>
constexpr auto search_good(It1 first, It1 last, It2 sFirst, It2 sLast) -> It1
{
    auto const len = sLast - sFirst;
    for (; last - first >= len; ++first) {
        auto it  = first;
        auto sIt = sFirst;
        while (sIt != sLast and *it == *sIt) {
            ++it;
            ++sIt;
        }
        if (sIt == sLast) { return first; }
    }
    return last;
}

// STALEREP: the group representative is never refreshed
template <typename It, typename Out, typename Pred>
constexpr auto unique_copy_bad(It first, It last, Out dest, Pred pred) -> Out
{
    if (first != last) {
        auto value = *first;
        *dest      = value;
        ++dest;
        while (++first != last) {
            if (not pred(value, *first)) {
                *dest = *first;
                ++dest;
            }
        }
    }
    return dest;
}

template <typename It, typename Out, typename Pred>
constexpr auto unique_copy_good(It first, It last, Out dest, Pred pred) -> Out
{
    if (first != last) {
        auto value = *first;
        *dest      = value;
        ++dest;
        while (++first != last) {
            if (not pred(value, *first)) {
                value = *first;
                *dest = value;
                ++dest;
            }
        }
    }
    return dest;
}

// PREVBOUND: `!=` against prev(last) without knowing that the range is non-empty
template <typename It> constexpr auto prev(It it) -> It { return --it; }
template <typename It, typename Comp>
constexpr auto exchange_bad(It first, It last, Comp comp) -> void
{
    auto const back = fixture::prev(last);
    for (auto i = first; i != back; ++i) {
        if (comp(*(i + 1), *i)) { auto t = *i; *i = *(i + 1); *(i + 1) = t; }
    }
}
template <typename It, typename Comp>
constexpr auto exchange_good(It first, It last, Comp comp) -> void
{
    if (first == last) { return; }
    auto const back = fixture::prev(last);
    for (auto i = first; i != back; ++i) {
        if (comp(*(i + 1), *i)) { auto t = *i; *i = *(i + 1); *(i + 1) = t; }
    }
}

} // namespace fixture
#endif
