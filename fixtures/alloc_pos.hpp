// positive control for EFFECT-noalloc: both the AST pass and the raw-lexer pass must report this file on every run
#ifndef VERIF_FIXTURE_ALLOC_POS_HPP
#define VERIF_FIXTURE_ALLOC_POS_HPP
namespace fixture {
template <typename T>
auto make(int n) -> T*
{
    return new T[static_cast<unsigned>(n)];
}
} // namespace fixture
#endif
