// positive / negative controls for the arithmetic typestate rules (analysis/rules/arith.py): the expected count of reports
// on the library is zero, so each rule must report its positive control and stay silent on its negative one on every run
#ifndef VERIF_FIXTURE_ARITH_POS_HPP
#define VERIF_FIXTURE_ARITH_POS_HPP
namespace fixture {

template <typename T> struct numeric_limits { static constexpr auto min() -> T { return T(); } };

template <typename It, typename T, typename Op> constexpr auto reduce(It f, It l, T init, Op op) -> T
{
    for (; f != l; ++f) { init = op(init, *f); }
    return init;
}
struct bit_or { template <typename A, typename B> constexpr auto operator()(A a, B b) const { return a | b; } };

// NEGMIN: overflow detected after it happened
template <typename Int> constexpr auto negate_then_test(Int value, bool& err) -> Int
{
    value = static_cast<Int>(-value);
    if (value < Int(0)) { err = true; }
    return value;
}

// NEGMIN: the minimum is compared after the negation
template <typename Int> constexpr auto negate_before_min_check(Int value, bool& err) -> Int
{
    value *= Int(-1);
    if (value == numeric_limits<Int>::min()) { err = true; }
    return value;
}

// NEGMIN negative control
template <typename Int> constexpr auto negate_after_min_check(Int value, bool& err) -> Int
{
    if (value == numeric_limits<Int>::min()) {
        err = true;
        return value;
    }
    value *= Int(-1);
    return value;
}

// SHRNEG: shift / mask as a fast path of a truncating division
template <typename Int> constexpr auto quot_by_shift(Int x, Int y, int log2y) -> Int
{
    if ((y & (y - 1)) == 0) { return x >> log2y; }
    return x / y;
}

template <typename Int> constexpr auto quot_by_shift_guarded(Int x, Int y, int log2y) -> Int
{
    if (x >= 0 && (y & (y - 1)) == 0) { return x >> log2y; }
    return x / y;
}

// ACCTYPE: the accumulator is an int although the words may be wider
template <typename Word> constexpr auto any_word_set(Word const* f, Word const* l) -> bool
{
    return reduce(f, l, 0, bit_or()) != 0;
}

template <typename Word> constexpr auto any_word_set_typed(Word const* f, Word const* l) -> bool
{
    return reduce(f, l, Word(0), bit_or()) != Word(0);
}

// TYPEDFUN: a functor fixed to T applied to a value declared with U
template <typename T> struct equal_to { constexpr auto operator()(T const& a, T const& b) const -> bool { return a == b; } };
template <typename T> struct box { T v; constexpr auto operator*() const -> T const& { return v; } };
template <typename T, typename U> constexpr auto same_value(box<T> const& l, box<U> const& r) -> bool
{
    return equal_to<T>{}(*l, *r);
}
template <typename T, typename U> constexpr auto same_value_plain(box<T> const& l, box<U> const& r) -> bool
{
    return *l == *r;
}

// PTRCOUNT: the terminator is stored at index `count` instead of behind the characters actually copied
template <typename Char> constexpr auto terminate_at_count(Char* dest, Char const* src, unsigned long count) -> Char*
{
    auto* tail = dest;
    for (unsigned long i = 0; i < count && src[i] != Char(0); ++i) { tail[i] = src[i]; }
    tail[count] = Char(0);
    return dest;
}
template <typename Char> constexpr auto terminate_behind_copy(Char* dest, Char const* src, unsigned long count) -> Char*
{
    auto* tail = dest;
    unsigned long i = 0;
    for (; i < count && src[i] != Char(0); ++i) { tail[i] = src[i]; }
    tail[i] = Char(0);
    return dest;
}

// LITMASK: the mask is an unsigned int although the word may be 64 bits wide
template <typename Word> constexpr auto narrow_mask(Word w, Word offset) -> bool { return (w & (1U << offset)) != 0U; }
template <typename Word> constexpr auto word_mask(Word w, Word offset) -> bool { return (w & (Word(1) << offset)) != Word(0); }

} // namespace fixture
#endif
