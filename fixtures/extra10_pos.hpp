// Controls for analysis/rules/extra10.py (MEMSHORT, SELFGUARD, TRAITREF, FIELDCAST). Never compiled into anything; only parsed.
#pragma once
namespace fixture {
using size_t = decltype(sizeof(0));
template <typename T> inline constexpr bool is_trivial_v = __is_trivial(T);
template <typename T> inline constexpr bool is_trivially_copyable_v = __is_trivially_copyable(T);
template <typename T> inline constexpr bool is_trivially_destructible_v = __is_trivially_destructible(T);
template <typename T> inline constexpr bool has_unique_object_representations_v = __has_unique_object_representations(T);
template <typename T> inline constexpr bool is_integral_v = __is_integral(T);
template <typename T> inline constexpr bool is_unsigned_v = __is_unsigned(T);
template <typename T, typename U> inline constexpr bool is_same_v = __is_same(T, U);
template <typename T> struct remove_reference { using type = T; };
template <typename T> struct remove_reference<T&> { using type = T; };
template <typename T> using remove_reference_t = typename remove_reference<T>::type;

// MEMSHORT -------------------------------------------------------------------------------------------------------------------
template <typename T>
constexpr auto equal_trivial(T const* a, T const* b, size_t n) -> bool
{
    if constexpr (is_trivial_v<T>) {
        if (not __builtin_is_constant_evaluated()) { return __builtin_memcmp(a, b, n * sizeof(T)) == 0; }
    }
    for (size_t i = 0; i != n; ++i) { if (not(a[i] == b[i])) { return false; } }
    return true;
}

template <typename T>
constexpr auto equal_unique(T const* a, T const* b, size_t n) -> bool
{
    if constexpr (has_unique_object_representations_v<T>) {
        if (not __builtin_is_constant_evaluated()) { return __builtin_memcmp(a, b, n * sizeof(T)) == 0; }
    }
    for (size_t i = 0; i != n; ++i) { if (not(a[i] == b[i])) { return false; } }
    return true;
}

template <typename T>
constexpr auto less_bytes(T const* a, T const* b, size_t n) -> bool
{
    if constexpr (is_integral_v<T> and sizeof(T) == 1) {
        if (not __builtin_is_constant_evaluated()) { return __builtin_memcmp(a, b, n) < 0; }
    }
    for (size_t i = 0; i != n; ++i) { if (a[i] < b[i]) { return true; } if (b[i] < a[i]) { return false; } }
    return false;
}

template <typename T>
constexpr auto less_unsigned_bytes(T const* a, T const* b, size_t n) -> bool
{
    if constexpr (is_unsigned_v<T> and sizeof(T) == 1) {
        if (not __builtin_is_constant_evaluated()) { return __builtin_memcmp(a, b, n) < 0; }
    }
    for (size_t i = 0; i != n; ++i) { if (a[i] < b[i]) { return true; } if (b[i] < a[i]) { return false; } }
    return false;
}

template <typename In, typename Out>
constexpr auto copy_same_size(In const* f, In const* l, Out* d) -> Out*
{
    if constexpr (is_trivially_copyable_v<In> and is_trivially_copyable_v<Out> and sizeof(In) == sizeof(Out)) {
        if (not __builtin_is_constant_evaluated()) { __builtin_memmove(d, f, static_cast<size_t>(l - f) * sizeof(In)); return d + (l - f); }
    }
    for (; f != l; ++f, ++d) { *d = *f; }
    return d;
}

template <typename In, typename Out>
constexpr auto copy_same_type(In const* f, In const* l, Out* d) -> Out*
{
    if constexpr (is_same_v<In, Out> and is_trivially_copyable_v<In>) {
        if (not __builtin_is_constant_evaluated()) { __builtin_memmove(d, f, static_cast<size_t>(l - f) * sizeof(In)); return d + (l - f); }
    }
    for (; f != l; ++f, ++d) { *d = *f; }
    return d;
}

// SELFGUARD ------------------------------------------------------------------------------------------------------------------
struct bits_skip {
    unsigned w{};
    constexpr auto operator^=(bits_skip const& other) noexcept -> bits_skip&
    {
        if (this != &other) { w ^= other.w; }
        return *this;
    }
};

struct bits_plain {
    unsigned w{};
    constexpr auto operator^=(bits_plain const& other) noexcept -> bits_plain&
    {
        w ^= other.w;
        return *this;
    }
};

// TRAITREF -------------------------------------------------------------------------------------------------------------------
template <typename T> constexpr auto destroy_one(T* p) -> void { p->~T(); }

template <typename It>
constexpr auto destroy_ref(It first, It last) -> It
{
    for (; first != last; ++first) {
        if constexpr (not is_trivially_destructible_v<decltype(*first)>) { destroy_one(&*first); }
    }
    return first;
}

template <typename It>
constexpr auto destroy_val(It first, It last) -> It
{
    for (; first != last; ++first) {
        if constexpr (not is_trivially_destructible_v<remove_reference_t<decltype(*first)>>) { destroy_one(&*first); }
    }
    return first;
}

// FIELDCAST ------------------------------------------------------------------------------------------------------------------
template <size_t Capacity>
struct sized {
    using internal_size_t = decltype(Capacity);
    constexpr auto set_size_narrow(size_t size) noexcept { return _size = static_cast<unsigned char>(size); }
    constexpr auto set_size_own(size_t size) noexcept { return _size = internal_size_t(size); }
    internal_size_t _size{};
};
} // namespace fixture
