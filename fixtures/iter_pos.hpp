// positive controls for the C06 cursor rules: each function below must be reported on every run (the rules' expected
// count on the library is zero, so a silent rule would pass vacuously)
#ifndef VERIF_FIXTURE_ITER_POS_HPP
#define VERIF_FIXTURE_ITER_POS_HPP
namespace fixture {

template <typename It> constexpr auto distance(It a, It b) { return b - a; }
template <typename It> constexpr auto next(It a, decltype(a - a) n = 1) { return a + n; }

// IT4: uses *src, then steps down, stops at first -> *first is never visited
template <typename BidiIt>
constexpr auto shift_down_scan(BidiIt first, BidiIt last, BidiIt dest) -> void
{
    auto src = last;
    --src;
    for (; src != first; --dest, (void)--src) {
        *dest = *src;
    }
}

// IT3: returns the cursor while it still designates the element just written
template <typename InputIt, typename OutputIt>
constexpr auto copy_two(InputIt first, OutputIt result) -> OutputIt
{
    *result = *first;
    *(++result) = *(++first);
    return result;
}

// IT4i: tests the index, uses it, then steps down: index 0 is never looked at
template <typename Char>
constexpr auto last_not_space(Char const* s, unsigned long n) -> unsigned long
{
    for (auto i = n - 1; i != 0; --i) {
        if (s[i] != Char(' ')) {
            return i;
        }
    }
    return static_cast<unsigned long>(-1);
}

// BISECT: after a successful probe the window length is reduced by step instead of step + 1: the window reaches past last
template <typename It, typename Pred>
constexpr auto bad_partition_point(It first, It last, Pred p) -> It
{
    auto count = distance(first, last);
    while (count > 0) {
        auto const step = count / 2;
        auto const mid  = next(first, step);
        if (p(*mid)) {
            first = next(mid);
            count -= step;
        } else {
            count = step;
        }
    }
    return first;
}

} // namespace fixture
#endif
