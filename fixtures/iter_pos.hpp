// positive controls for the C06 cursor rules: each function below must be reported on every run (the rules' expected
// count on the library is zero, so a silent rule would pass vacuously)
#ifndef VERIF_FIXTURE_ITER_POS_HPP
#define VERIF_FIXTURE_ITER_POS_HPP
namespace fixture {

// IT4: uses *src, then steps down, stops at first -> *first is never visited
template <typename BidiIt>
constexpr auto shift_down_scan(BidiIt first, BidiIt last, BidiIt dest) -> void
{
    auto src = last;
    --src;
    for (; src != first; --dest, (void)--src) {
        *dest = *src;
    }
}

// IT3: returns the cursor while it still designates the element just written
template <typename InputIt, typename OutputIt>
constexpr auto copy_two(InputIt first, OutputIt result) -> OutputIt
{
    *result = *first;
    *(++result) = *(++first);
    return result;
}

// IT4i: tests the index, uses it, then steps down: index 0 is never looked at
template <typename Char>
constexpr auto last_not_space(Char const* s, unsigned long n) -> unsigned long
{
    for (auto i = n - 1; i != 0; --i) {
        if (s[i] != Char(' ')) {
            return i;
        }
    }
    return static_cast<unsigned long>(-1);
}

} // namespace fixture
#endif
