"""W-TYPES for C07: the type-level API surface of etl::optional / etl::variant vs std::optional / std::variant."""
from . import wit

PROLOGUE = r"""
#include <optional>
#include <variant>
#include <type_traits>
#include <etl/optional.hpp>
#include <etl/variant.hpp>
#include <etl/expected.hpp>
namespace m {
struct NT { NT(); NT(int); NT(NT const&); NT(NT&&) noexcept; NT& operator=(NT const&); NT& operator=(NT&&) noexcept; ~NT(); };
struct MoveOnly { MoveOnly() = default; MoveOnly(MoveOnly&&) noexcept = default; MoveOnly& operator=(MoveOnly&&) noexcept = default; };
struct CopyOnly { CopyOnly() = default; CopyOnly(CopyOnly const&) = default; CopyOnly& operator=(CopyOnly const&) = default; };
struct Explicit { explicit Explicit(int) noexcept; };
struct Implicit { Implicit(int) noexcept; };
struct NoDefault { NoDefault(int) noexcept; };
template <class T> T&& dv() noexcept;
}
"""
T_ZOO = ["int", "long", "char const*", "m::NT", "m::MoveOnly", "m::CopyOnly", "m::Explicit", "m::Implicit", "double"]
U_ZOO = ["int", "int&", "int const&", "long", "char const*", "m::NT", "m::NT const&", "m::MoveOnly", "m::MoveOnly&", "double",
         "std::nullopt_t", "m::Implicit"]
TRAITS1 = ["is_trivially_copyable_v", "is_trivially_destructible_v", "is_copy_constructible_v", "is_move_constructible_v",
           "is_copy_assignable_v", "is_move_assignable_v", "is_default_constructible_v", "is_nothrow_move_constructible_v",
           "is_nothrow_default_constructible_v", "is_trivially_copy_constructible_v", "is_trivially_move_constructible_v"]
TRAITS2 = ["is_constructible_v", "is_convertible_v", "is_assignable_v", "is_nothrow_constructible_v"]
VARIANTS = ["int", "int, long", "int, m::NT", "m::NT, m::MoveOnly", "int, double, char const*", "m::NoDefault, int", "m::MoveOnly"]


def generate(quick):
    tus = [wit.TU("c07_%d" % i, PROLOGUE) for i in range(4)]
    k = 0
    tz = T_ZOO[:6] if quick else T_ZOO
    for t in tz:
        tu = tus[k % 4]
        k += 1
        eo, so = "etl::optional<%s>" % t, "std::optional<%s>" % t
        for tr in TRAITS1:
            tu.add("static_assert(std::%s<%s> == std::%s<%s>);" % (tr, eo, tr, so), "%s<optional<%s>>" % (tr, t))
        tu.add("static_assert(std::is_same_v<%s::value_type, %s::value_type>);" % (eo, so), "optional<%s>::value_type" % t)
        for q in ("&", "const&", "&&", "const&&"):
            tu.add("static_assert(std::is_same_v<decltype(*m::dv<%s %s>()), decltype(*m::dv<%s %s>())>);" % (eo, q, so, q), "*optional<%s> %s" % (t, q))
        tu.add("static_assert(std::is_same_v<decltype(m::dv<%s&>().operator->()), decltype(m::dv<%s&>().operator->())>);" % (eo, so), "optional<%s>::operator->" % t)
        tu.add("static_assert(std::is_same_v<decltype(m::dv<%s const&>().has_value()), bool> && noexcept(m::dv<%s const&>().has_value()));" % (eo, eo), "optional<%s>::has_value" % t)
        tu.add("static_assert(std::is_constructible_v<bool, %s> && !std::is_convertible_v<%s, bool>);" % (eo, eo), "optional<%s> explicit bool" % t)
        for u in U_ZOO:
            eu = u.replace("std::nullopt_t", "etl::nullopt_t")
            for tr in TRAITS2:
                if tr == "is_assignable_v":
                    tu.add("static_assert(std::%s<%s&, %s> == std::%s<%s&, %s>);" % (tr, eo, eu, tr, so, u), "%s<optional<%s>&, %s>" % (tr, t, u))
                else:
                    tu.add("static_assert(std::%s<%s, %s> == std::%s<%s, %s>);" % (
                        tr, eo if tr != "is_convertible_v" else eu, eu if tr != "is_convertible_v" else eo,
                        tr, so if tr != "is_convertible_v" else u, u if tr != "is_convertible_v" else so), "%s<optional<%s>, %s>" % (tr, t, u))
        for u in tz:
            tu.add("static_assert(std::is_constructible_v<%s, etl::optional<%s> const&> == std::is_constructible_v<%s, std::optional<%s> const&>);" % (eo, u, so, u),
                   "optional<%s> from optional<%s> const&" % (t, u))
            tu.add("static_assert(std::is_convertible_v<etl::optional<%s>&&, %s> == std::is_convertible_v<std::optional<%s>&&, %s>);" % (u, eo, u, so),
                   "optional<%s>&& convertible to optional<%s>" % (u, t))
    tu = tus[0]
    for v in VARIANTS:
        ev, sv = "etl::variant<%s>" % v, "std::variant<%s>" % v
        n = len(v.split(", "))
        tu.add("static_assert(etl::variant_size_v<%s> == std::variant_size_v<%s>);" % (ev, sv), "variant_size<%s>" % v)
        for i in range(n):
            tu.add("static_assert(std::is_same_v<etl::variant_alternative_t<%d, %s>, std::variant_alternative_t<%d, %s>>);" % (i, ev, i, sv),
                   "variant_alternative_t<%d, variant<%s>>" % (i, v))
            tu.add("static_assert(std::is_same_v<etl::variant_alternative_t<%d, %s const>, std::variant_alternative_t<%d, %s const>>);" % (i, ev, i, sv),
                   "variant_alternative_t<%d, variant<%s> const>" % (i, v))
            tu.add("static_assert(std::is_same_v<decltype(etl::get_if<%d>(m::dv<%s*>())), decltype(std::get_if<%d>(m::dv<%s*>()))>);" % (i, ev, i, sv),
                   "get_if<%d>(variant<%s>*)" % (i, v))
            tu.add("static_assert(std::is_same_v<decltype(etl::get_if<%d>(m::dv<%s const*>())), decltype(std::get_if<%d>(m::dv<%s const*>()))>);" % (i, ev, i, sv),
                   "get_if<%d>(variant<%s> const*)" % (i, v))
        for tr in TRAITS1:
            tu.add("static_assert(std::%s<%s> == std::%s<%s>);" % (tr, ev, tr, sv), "%s<variant<%s>>" % (tr, v))
        tu.add("static_assert(std::is_same_v<decltype(m::dv<%s const&>().index()), std::size_t>);" % ev, "variant<%s>::index()" % v)
        for u in ("int", "long", "double", "char const*", "m::NT", "m::MoveOnly"):
            tu.add("static_assert(std::is_constructible_v<%s, %s> == std::is_constructible_v<%s, %s>);" % (ev, u, sv, u), "variant<%s> from %s" % (v, u))
            tu.add("static_assert(std::is_assignable_v<%s&, %s> == std::is_assignable_v<%s&, %s>);" % (ev, u, sv, u), "variant<%s> = %s" % (v, u))
    tu.add("static_assert(std::is_same_v<decltype(etl::visit(m::dv<int (*)(int)>(), m::dv<etl::variant<int>&>())), int>);", "visit result type")
    tu.add("static_assert(std::is_empty_v<etl::monostate> && std::is_trivially_copyable_v<etl::monostate>);", "monostate")
    tu.add("static_assert(std::is_empty_v<etl::nullopt_t> && !std::is_default_constructible_v<etl::nullopt_t> == !std::is_default_constructible_v<std::nullopt_t>);", "nullopt_t")
    return tus, {}
