"""W-TYPES for C12: result types of duration / time_point arithmetic, common_type, casts and rounding == std::chrono."""
from . import wit

PROLOGUE = r"""
#include <chrono>
#include <ratio>
#include <type_traits>
#include <etl/chrono.hpp>
#include <etl/ratio.hpp>
#include <etl/type_traits.hpp>
namespace m {
struct Clk { };
template <class T> struct mirror { using type = T; };
template <class R, class P> struct mirror<etl::chrono::duration<R, P>> { using type = std::chrono::duration<R, std::ratio<P::num, P::den>>; };
template <class C, class D> struct mirror<etl::chrono::time_point<C, D>> { using type = std::chrono::time_point<C, typename mirror<D>::type>; };
template <class T> using mirror_t = typename mirror<std::remove_cvref_t<T>>::type;
template <class E, class S> inline constexpr bool same = std::is_same_v<mirror_t<E>, std::remove_cvref_t<S>> && (std::is_reference_v<E> == std::is_reference_v<S>);
template <class R, long long N, long long D> using ED = etl::chrono::duration<R, etl::ratio<N, D>>;
template <class R, long long N, long long D> using SD = std::chrono::duration<R, std::ratio<N, D>>;
template <class R, long long N, long long D> using ET = etl::chrono::time_point<Clk, ED<R, N, D>>;
template <class R, long long N, long long D> using ST = std::chrono::time_point<Clk, SD<R, N, D>>;
template <class T> T&& dv() noexcept;
#define W(name) \
    template <class To, class X> auto e_##name(X const& x) -> decltype(etl::chrono::name<To>(x)); \
    template <class To, class X> auto s_##name(X const& x) -> decltype(std::chrono::name<To>(x));
W(duration_cast) W(floor) W(ceil) W(round) W(time_point_cast)
#undef W
template <class X> auto e_abs(X const& x) -> decltype(etl::chrono::abs(x));
template <class X> auto s_abs(X const& x) -> decltype(std::chrono::abs(x));
}
"""

PERIODS_FULL = [(1, 1000000000), (1, 1000000), (1, 1000), (1, 1), (60, 1), (3600, 1), (86400, 1), (1, 3), (5, 7), (1001, 30000)]
PERIODS_QUICK = [(1, 1000), (1, 1), (60, 1), (1, 3), (5, 7)]
REPS_FULL = ["int", "long long", "float", "double"]
REPS_QUICK = ["int", "long long", "double"]


def d(kind, r, p):
    return "m::%s<%s, %d, %d>" % (kind, r, p[0], p[1])


def both(tu, fmt, et, st, label):
    """obligation: expression well-formed on both sides with mirrored result types, or ill-formed on both.
    fmt uses {t0} {t1} for the operand types and {p} for the e_/s_ wrapper prefix."""
    et = list(et) + ["void"] * (2 - len(et))
    st = list(st) + ["void"] * (2 - len(st))
    ee = fmt.format(t0="E0", t1="E1", p="e")
    se = fmt.format(t0="S0", t1="S1", p="s")
    code = ("static_assert([]<class E0, class E1, class S0, class S1>() { constexpr bool he = requires { %s; }; "
            "constexpr bool hs = requires { %s; }; if constexpr (he != hs) { return false; } else if constexpr (he) { "
            "return m::same<decltype(%s), decltype(%s)>; } else { return true; } }.template operator()<%s, %s, %s, %s>());"
            % (ee, se, ee, se, et[0], et[1], st[0], st[1]))
    tu.add(code, label)


def generate(quick):
    periods = PERIODS_QUICK if quick else PERIODS_FULL
    reps = REPS_QUICK if quick else REPS_FULL
    tus = []
    shards = 4 if quick else 8
    for s in range(shards):
        tus.append(wit.TU("c12_%d" % s, PROLOGUE))
    k = 0
    durs = [(r, p) for r in reps for p in periods]
    for (r1, p1) in durs:
        e1, s1 = d("ED", r1, p1), d("SD", r1, p1)
        tu = tus[k % shards]
        k += 1
        lab1 = "duration<%s,%d/%d>" % (r1, p1[0], p1[1])
        # member types, unary operations, scalar arithmetic
        tu.add("static_assert(std::is_same_v<%s::rep, %s::rep> && %s::period::num == %s::period::num && %s::period::den == %s::period::den);"
               % (e1, s1, e1, s1, e1, s1), lab1 + " rep/period")
        for sc in ("int", "long long", "double"):
            for op in ("*", "/", "%"):
                both(tu, "m::dv<{t0} const&>() %s m::dv<{t1} const&>()" % op, [e1, sc], [s1, sc], "%s %s %s" % (lab1, op, sc))
            both(tu, "m::dv<{t1} const&>() * m::dv<{t0} const&>()", [e1, sc], [s1, sc], "%s * %s" % (sc, lab1))
        for un in ("+", "-"):
            both(tu, un + "m::dv<{t0} const&>()", [e1], [s1], "unary%s %s" % (un, lab1))
        for inc in ("++m::dv<{t0}&>()", "m::dv<{t0}&>()++", "--m::dv<{t0}&>()", "m::dv<{t0}&>()--"):
            both(tu, inc, [e1], [s1], inc.replace("{t0}", lab1))
        both(tu, "m::{p}_abs(m::dv<{t0} const&>())", [e1], [s1], "abs(%s)" % lab1)
        both(tu, "m::dv<{t0} const&>().count()", [e1], [s1], "%s::count()" % lab1)
        for st in ("zero", "min", "max"):
            both(tu, "{t0}::%s()" % st, [e1], [s1], "%s::%s()" % (lab1, st))
        # time_point with the same duration
        et1, st1 = d("ET", r1, p1), d("ST", r1, p1)
        both(tu, "m::dv<{t0} const&>().time_since_epoch()", [et1], [st1], "time_point<%s>::time_since_epoch" % lab1)
        for (r2, p2) in durs:
            e2, s2 = d("ED", r2, p2), d("SD", r2, p2)
            lab2 = "duration<%s,%d/%d>" % (r2, p2[0], p2[1])
            pair = "%s , %s" % (lab1, lab2)
            tu.add("static_assert(m::same<etl::common_type_t<%s, %s>, std::common_type_t<%s, %s>>);" % (e1, e2, s1, s2), "common_type<%s>" % pair)
            for op in ("+", "-", "/", "%", "==", "!=", "<", "<=", ">", ">="):
                both(tu, "m::dv<{t0} const&>() %s m::dv<{t1} const&>()" % op, [e1, e2], [s1, s2], "%s %s %s" % (lab1, op, lab2))
            for op in ("+=", "-=", "%="):
                both(tu, "m::dv<{t0}&>() %s m::dv<{t1} const&>()" % op, [e1, e2], [s1, s2], "%s %s %s" % (lab1, op, lab2))
            for fn in ("duration_cast", "floor", "ceil", "round"):
                both(tu, "m::{p}_%s<{t1}>(m::dv<{t0} const&>())" % fn, [e1, e2], [s1, s2], "%s<%s>(%s)" % (fn, lab2, lab1))
            # implicit conversion / construction between durations (treat_as_floating_point and exactness rules)
            tu.add("static_assert(std::is_constructible_v<%s, %s const&> == std::is_constructible_v<%s, %s const&>);" % (e2, e1, s2, s1),
                   "constructible %s from %s" % (lab2, lab1))
            tu.add("static_assert(std::is_convertible_v<%s const&, %s> == std::is_convertible_v<%s const&, %s>);" % (e1, e2, s1, s2),
                   "convertible %s to %s" % (lab1, lab2))
            # time_point arithmetic
            et2, st2 = d("ET", r2, p2), d("ST", r2, p2)
            both(tu, "m::dv<{t0} const&>() + m::dv<{t1} const&>()", [et1, e2], [st1, s2], "time_point<%s> + %s" % (lab1, lab2))
            both(tu, "m::dv<{t1} const&>() + m::dv<{t0} const&>()", [et1, e2], [st1, s2], "%s + time_point<%s>" % (lab2, lab1))
            both(tu, "m::dv<{t0} const&>() - m::dv<{t1} const&>()", [et1, e2], [st1, s2], "time_point<%s> - %s" % (lab1, lab2))
            both(tu, "m::dv<{t0} const&>() - m::dv<{t1} const&>()", [et1, et2], [st1, st2], "time_point<%s> - time_point<%s>" % (lab1, lab2))
            for op in ("==", "<", ">="):
                both(tu, "m::dv<{t0} const&>() %s m::dv<{t1} const&>()" % op, [et1, et2], [st1, st2],
                     "time_point<%s> %s time_point<%s>" % (lab1, op, lab2))
            for fn in ("time_point_cast", "floor", "ceil", "round"):
                both(tu, "m::{p}_%s<{t1}>(m::dv<{t0} const&>())" % fn, [et1, e2], [st1, s2], "%s<%s>(time_point<%s>)" % (fn, lab2, lab1))
    # named durations
    tu = tus[0]
    for n in ("nanoseconds", "microseconds", "milliseconds", "seconds", "minutes", "hours", "days", "weeks", "months", "years"):
        tu.add("static_assert(etl::chrono::%s::period::num == std::chrono::%s::period::num && etl::chrono::%s::period::den == std::chrono::%s::period::den && "
               "std::is_signed_v<etl::chrono::%s::rep> && sizeof(etl::chrono::%s::rep) * 8 >= 16);" % (n, n, n, n, n, n), "alias chrono::" + n)
    for r in ("int", "double", "float", "long long"):
        tu.add("static_assert(etl::chrono::treat_as_floating_point_v<%s> == std::chrono::treat_as_floating_point_v<%s>);" % (r, r),
               "treat_as_floating_point_v<%s>" % r)
    return tus, {"periods": len(periods), "reps": len(reps)}
