"""W-TYPES / W-FAIL for C19: static-extent arithmetic of span (vs std::span) and of extents / layout mappings (closed forms)."""
from . import wit

PROLOGUE = r"""
#include <span>
#include <type_traits>
#include <etl/span.hpp>
#include <etl/array.hpp>
#include <etl/mdspan.hpp>
#include <etl/cstddef.hpp>
namespace m {
template <class T> T&& dv() noexcept;
template <class T> struct mirror { using type = T; };
template <class T, etl::size_t E> struct mirror<etl::span<T, E>> { using type = std::span<T, E>; };
struct base_el { int a; };
struct derived_el : base_el { int b; };
template <class E, class S> inline constexpr bool same = std::is_same_v<typename mirror<std::remove_cvref_t<E>>::type, std::remove_cvref_t<S>>;
}
"""
EXTS = [0, 1, 2, 3, 6, "dyn"]


def ext(e, lib):
    if e == "dyn":
        return "%s::dynamic_extent" % lib
    return str(e)


def generate(quick):
    tu = wit.TU("c19", PROLOGUE)
    fails = wit.TU("c19_fail", PROLOGUE)
    for e in EXTS:
        es, ss = "etl::span<int, %s>" % ext(e, "etl"), "std::span<int, %s>" % ext(e, "std")
        lab = "span<int,%s>" % e
        tu.add("static_assert(%s::extent == %s::extent && std::is_same_v<%s::element_type, %s::element_type> && std::is_same_v<%s::value_type, %s::value_type> && std::is_same_v<%s::size_type, %s::size_type>);"
               % (es, ss, es, ss, es, ss, es, ss), lab + " member types / extent")
        tu.add("static_assert(sizeof(%s) == sizeof(%s));" % (es, ss), lab + " size (static extent stores no length)")
        tu.add("static_assert(std::is_trivially_copyable_v<%s> && std::is_default_constructible_v<%s> == std::is_default_constructible_v<%s>);" % (es, es, ss), lab + " triviality/default-constructible")
        n = 6 if e == "dyn" else e
        for c in range(0, n + 1):
            tu.add("static_assert(m::same<decltype(m::dv<%s>().template first<%d>()), decltype(m::dv<%s>().template first<%d>())>);" % (es, c, ss, c), "%s.first<%d>() type" % (lab, c))
            tu.add("static_assert(m::same<decltype(m::dv<%s>().template last<%d>()), decltype(m::dv<%s>().template last<%d>())>);" % (es, c, ss, c), "%s.last<%d>() type" % (lab, c))
            tu.add("static_assert(m::same<decltype(m::dv<%s>().template subspan<%d>()), decltype(m::dv<%s>().template subspan<%d>())>);" % (es, c, ss, c), "%s.subspan<%d>() type" % (lab, c))
            for k in range(0, n - c + 1):
                tu.add("static_assert(m::same<decltype(m::dv<%s>().template subspan<%d, %d>()), decltype(m::dv<%s>().template subspan<%d, %d>())>);" % (es, c, k, ss, c, k), "%s.subspan<%d,%d>() type" % (lab, c, k))
        tu.add("static_assert(m::same<decltype(m::dv<%s>().first(1)), decltype(m::dv<%s>().first(1))> && m::same<decltype(m::dv<%s>().subspan(1, 1)), decltype(m::dv<%s>().subspan(1, 1))>);" % (es, ss, es, ss), lab + " run-time count forms are dynamic")
        if e != "dyn":
            for bad, what in (("first<%d>()" % (e + 1), "first<E+1>"), ("last<%d>()" % (e + 1), "last<E+1>"), ("subspan<%d>()" % (e + 1), "subspan<E+1>"),
                              ("subspan<%d, %d>()" % (0, e + 1), "subspan<0,E+1>")):
                fails.add("auto f_%d_%s = m::dv<%s>().template %s;" % (e, what.replace("<", "_").replace(">", "").replace("+", "p").replace(",", "_"), es, bad),
                          "%s.%s must not compile" % (lab, what), kind="must_fail")
        for e2 in EXTS:
            es2, ss2 = "etl::span<int, %s>" % ext(e2, "etl"), "std::span<int, %s>" % ext(e2, "std")
            tu.add("static_assert(std::is_constructible_v<%s, %s> == std::is_constructible_v<%s, %s>);" % (es, es2, ss, ss2), "span<%s> constructible from span<%s>" % (e, e2))
            tu.add("static_assert(std::is_convertible_v<%s, %s> == std::is_convertible_v<%s, %s>);" % (es2, es, ss2, ss), "span<%s> convertible to span<%s>" % (e2, e))
        tu.add("static_assert(std::is_same_v<decltype(etl::as_bytes(m::dv<%s>()))::element_type, etl::byte const> && decltype(etl::as_bytes(m::dv<%s>()))::extent == decltype(std::as_bytes(m::dv<%s>()))::extent);" % (es, es, ss),
               "as_bytes(%s) extent" % lab)
    tu.add("static_assert(std::is_same_v<decltype(etl::span{m::dv<int (&)[4]>()}), etl::span<int, 4>> && std::is_same_v<decltype(etl::span{m::dv<etl::array<int, 3>&>()}), etl::span<int, 3>>);", "span deduction guides")
    tu.add("static_assert(etl::dynamic_extent == std::dynamic_extent);", "dynamic_extent")
    # extents / mappings: closed forms of [mdspan.extents], [mdspan.layout]
    import itertools
    for rank in range(0, 4 if quick else 5):
        for pat in itertools.product([2, "d"], repeat=rank):
            targs = ", ".join("etl::dynamic_extent" if p == "d" else str(p) for p in pat)
            ex = "etl::extents<int%s%s>" % (", " if targs else "", targs)
            lab = "extents<%s>" % ",".join(str(p) for p in pat)
            nd = sum(1 for p in pat if p == "d")
            tu.add("static_assert(%s::rank() == %d && %s::rank_dynamic() == %d);" % (ex, rank, ex, nd), lab + " rank/rank_dynamic")
            for r, p in enumerate(pat):
                tu.add("static_assert(%s::static_extent(%d) == %s);" % (ex, r, "etl::dynamic_extent" if p == "d" else str(p)), lab + " static_extent(%d)" % r)
            tu.add("static_assert(std::is_same_v<%s::index_type, int> && sizeof(%s) == (%d == 0 ? 1 : %d * sizeof(int)));" % (ex, ex, nd, nd),
                   lab + " stores only the dynamic extents")
            for lay in ("layout_left", "layout_right"):
                mp = "etl::%s::mapping<%s>" % (lay, ex)
                tu.add("static_assert(%s::is_always_unique() && %s::is_always_exhaustive() && %s::is_always_strided() && std::is_same_v<%s::extents_type, %s> && std::is_same_v<%s::layout_type, etl::%s>);"
                       % (mp, mp, mp, mp, ex, mp, lay), "%s::mapping<%s> properties" % (lay, lab))
            tu.add("static_assert(etl::mdspan<float, %s>::rank() == %d && std::is_same_v<etl::mdspan<float, %s>::index_type, int> && std::is_same_v<etl::mdspan<float, %s>::layout_type, etl::layout_right>);"
                   % (ex, rank, ex, ex), "mdspan<float,%s> rank/index_type/default layout" % lab)
    # [mdspan.accessor.default]: default_accessor<To> converts from default_accessor<From> exactly when From(*)[] converts to
    # To(*)[] (a qualification conversion): a derived-to-base conversion would step through the elements with the wrong size
    ELS = ["int", "int const", "long", "unsigned", "m::base_el", "m::base_el const", "m::derived_el", "m::derived_el const", "char", "char const"]
    for fr in ELS:
        for to in ELS:
            tu.add("static_assert(std::is_constructible_v<etl::default_accessor<%s>, etl::default_accessor<%s>> == std::is_convertible_v<%s (*)[], %s (*)[]>);"
                   % (to, fr, fr, to), "default_accessor<%s> from default_accessor<%s>" % (to, fr))
            tu.add("static_assert(std::is_convertible_v<etl::default_accessor<%s>, etl::default_accessor<%s>> == std::is_convertible_v<%s (*)[], %s (*)[]>);"
                   % (fr, to, fr, to), "default_accessor<%s> converts to default_accessor<%s>" % (fr, to))
    return [tu, fails], {}
