"""W-TRAITS: etl traits / concepts / numeric_limits / ratio / cstdint == std, as compile-time obligations (C15)."""
import os

from . import wit
from analysis import db as D

PROLOGUE = r"""
#include <type_traits>
#include <concepts>
#include <limits>
#include <ratio>
#include <cstdint>
#include <cstddef>
#include <functional>
#include <etl/type_traits.hpp>
#include <etl/concepts.hpp>
#include <etl/limits.hpp>
#include <etl/ratio.hpp>
#include <etl/cstdint.hpp>
#include <etl/cstddef.hpp>
#include <etl/functional.hpp>

namespace z {
struct Empty { };
struct Pod { int a; double b; };
struct NonTrivial { NonTrivial(); NonTrivial(NonTrivial const&); NonTrivial& operator=(NonTrivial const&); ~NonTrivial(); int x; };
struct Throwing { Throwing() noexcept(false); Throwing(Throwing const&) noexcept(false); Throwing(Throwing&&) noexcept(false); Throwing& operator=(Throwing const&) noexcept(false); Throwing& operator=(Throwing&&) noexcept(false); ~Throwing() noexcept(false); };
struct NoThrow { NoThrow() noexcept; NoThrow(NoThrow const&) noexcept; NoThrow(NoThrow&&) noexcept; NoThrow& operator=(NoThrow const&) noexcept; NoThrow& operator=(NoThrow&&) noexcept; ~NoThrow() noexcept; };
struct MoveOnly { MoveOnly() = default; MoveOnly(MoveOnly&&) = default; MoveOnly& operator=(MoveOnly&&) = default; MoveOnly(MoveOnly const&) = delete; MoveOnly& operator=(MoveOnly const&) = delete; };
struct CopyOnly { CopyOnly() = default; CopyOnly(CopyOnly const&) = default; CopyOnly& operator=(CopyOnly const&) = default; CopyOnly(CopyOnly&&) = delete; CopyOnly& operator=(CopyOnly&&) = delete; };
struct NoDefault { NoDefault(int); };
struct DeletedDtor { ~DeletedDtor() = delete; };
struct ProtectedDtor { protected: ~ProtectedDtor(); };
struct PrivateCopy { PrivateCopy() = default; private: PrivateCopy(PrivateCopy const&); PrivateCopy& operator=(PrivateCopy const&); };
struct Abstract { virtual void f() = 0; };
struct Poly { virtual void f(); };
struct VirtDtor { virtual ~VirtDtor(); };
struct Final final { int x; };
struct Derived : Pod { };
struct PrivDerived : private Pod { };
struct Derived2 : Derived { };
struct VDerived : virtual Pod { };
struct Aggregate { int a; Pod p; int arr[3]; };
struct WithRef { int& r; };
struct WithConst { int const c = 1; };
struct ExplicitFromInt { explicit ExplicitFromInt(int); };
struct ImplicitFromInt { ImplicitFromInt(int); };
struct ConvToInt { operator int() const; };
struct ExplicitConvToInt { explicit operator int() const; };
struct AssignFromInt { AssignFromInt& operator=(int); };
struct Callable { int operator()(int) const; void operator()(double, double); };
struct NoexceptCallable { int operator()(int) const noexcept; };
struct Bits { int a : 3; int b : 5; };
struct Padded { char c; long long l; };
struct Eq { bool operator==(Eq const&) const; };
struct NoEq { };
struct Ord { bool operator==(Ord const&) const; bool operator<(Ord const&) const; bool operator>(Ord const&) const; bool operator<=(Ord const&) const; bool operator>=(Ord const&) const; };
union U { int i; float f; };
union UNonTrivial { NonTrivial n; int i; UNonTrivial(); ~UNonTrivial(); };
enum E { e0, e1 };
enum class SE { a, b };
enum class SE8 : unsigned char { a };
enum E64 : long long { big = 1LL << 40 };
using Fn = void();
using FnI = int(int, double);
using FnC = void() const;
using FnRef = void() &;
using FnRRef = int() &&;
using FnNoexcept = void() noexcept;
using FnVar = int(int, ...);
using FnPtr = void (*)();
using FnPtrNoexcept = int (*)(int) noexcept;
using MemObj = int Pod::*;
using MemFn = void (Poly::*)();
using MemFnC = int (Callable::*)(int) const;
using MemFnNoexcept = int (NoexceptCallable::*)(int) const noexcept;
using MemFnRef = void (Poly::*)() &;
struct SwapThrow { }; void swap(SwapThrow&, SwapThrow&) noexcept(false);
struct SwapDeleted { }; void swap(SwapDeleted&, SwapDeleted&) = delete;

template <template <class...> class Et, template <class...> class St, class... A>
inline constexpr bool agree_type = [] {
    constexpr bool he = requires { typename Et<A...>::type; };
    constexpr bool hs = requires { typename St<A...>::type; };
    if constexpr (he != hs) { return false; }
    else if constexpr (he) { return std::is_same_v<typename Et<A...>::type, typename St<A...>::type>; }
    else { return true; }
}();
template <template <class...> class Et, template <class...> class St, class... A>
inline constexpr bool agree_value = (Et<A...>::value == St<A...>::value)
    && std::is_same_v<std::remove_cv_t<decltype(Et<A...>::value)>, std::remove_cv_t<decltype(St<A...>::value)>>;
template <class A, class B>
inline constexpr bool same_value = [] {
    if constexpr (std::is_floating_point_v<B>) { return true; } else { return true; }
}();
template <class X> inline constexpr bool has_type = requires { typename X::type; };
constexpr bool feq(long double a, long double b) { return (a == b) || (a != a && b != b); }
} // namespace z
"""

# ----------------------------------------------------------------------------------------------- type zoo
BASE_OBJECT = [
    "bool", "char", "signed char", "unsigned char", "wchar_t", "char8_t", "char16_t", "char32_t", "short",
    "unsigned short", "int", "unsigned", "long", "unsigned long", "long long", "unsigned long long", "float", "double",
    "long double", "decltype(nullptr)", "int*", "int const*", "void*", "int**", "z::FnPtr", "z::FnPtrNoexcept",
    "z::MemObj", "z::MemFn", "z::MemFnC", "z::MemFnNoexcept", "z::MemFnRef", "z::E", "z::SE", "z::SE8", "z::E64",
    "z::Empty", "z::Pod", "z::NonTrivial", "z::Throwing", "z::NoThrow", "z::MoveOnly", "z::CopyOnly", "z::NoDefault",
    "z::DeletedDtor", "z::ProtectedDtor", "z::PrivateCopy", "z::Poly", "z::VirtDtor", "z::Final", "z::Derived",
    "z::PrivDerived", "z::VDerived", "z::Aggregate", "z::WithRef", "z::WithConst", "z::ExplicitFromInt",
    "z::ImplicitFromInt", "z::ConvToInt", "z::Callable", "z::Bits", "z::Padded", "z::U", "z::UNonTrivial",
    "z::Eq", "z::Ord", "z::SwapThrow", "z::SwapDeleted",
    "int[3]", "int[2][3]", "int const[3]", "z::Pod[2]", "z::NonTrivial[2]", "z::MoveOnly[2]", "char[1]",
]
ABSTRACT = ["z::Abstract"]
CV_SUBJECTS = ["int", "unsigned char", "double", "int*", "z::E", "z::SE", "z::Pod", "z::NonTrivial", "z::MoveOnly",
               "z::Empty", "int[3]", "z::MemObj", "z::U", "z::Poly", "long long", "char", "bool"]
REFS = ["int&", "int&&", "int const&", "int const&&", "z::Pod&", "z::Pod const&", "z::Pod&&", "z::NonTrivial&",
        "z::MoveOnly&&", "z::Abstract&", "z::Fn&", "z::Fn&&", "int (&)[3]", "int (&&)[3]", "int (&)[]", "int*&",
        "z::E&", "z::Callable&", "z::Callable const&", "double&", "z::MemObj&"]
FUNCS = ["z::Fn", "z::FnI", "z::FnC", "z::FnRef", "z::FnRRef", "z::FnNoexcept", "z::FnVar"]
ABOMINABLE = ("z::FnC", "z::FnRef", "z::FnRRef")
UNBOUNDED = ["int[]", "int const[]", "z::Pod[]", "int[][3]"]
VOIDS = ["void", "void const", "void volatile", "void const volatile"]


def cv(t, q):
    if "(*)" in t or t.endswith("*") or t.endswith("]"):
        # arrays / pointers: use an alias so that the qualifier applies to the whole type
        return "std::add_%s_t<%s>" % ({"const": "const", "volatile": "volatile", "const volatile": "cv"}[q], t)
    return t + " " + q


def zoo(quick):
    ts = []
    ts += BASE_OBJECT + ABSTRACT
    for t in CV_SUBJECTS:
        for q in ("const", "volatile", "const volatile"):
            ts.append(cv(t, q))
    ts += REFS + FUNCS + UNBOUNDED + VOIDS
    seen, out = set(), []
    for t in ts:
        if t not in seen:
            seen.add(t)
            out.append(t)
    if quick:
        # every kind of type stays represented; the cv matrix and the long tail of classes are thinned out
        keep = []
        for i, t in enumerate(out):
            if t in BASE_OBJECT[:20] and i % 3:
                continue
            if t.startswith("std::add_") and i % 2:
                continue
            keep.append(t)
        drop_cv = [t for t in keep if (" const" in t or " volatile" in t) and not t.startswith("void") and "&" not in t and "*" not in t and "[" not in t]
        keep = [t for t in keep if t not in drop_cv[::2]]
        return keep
    return out


def is_object(t):
    return t not in VOIDS and t not in FUNCS and "&" not in t and t not in UNBOUNDED


def complete_object(t):
    return is_object(t) and t not in ABSTRACT


# ----------------------------------------------------------------------------------------------- trait tables
# name -> filter on the zoo type (std-imposed preconditions)
ANY = lambda t: True                                           # noqa: E731
UNARY_PRED = {
    "is_void": ANY, "is_null_pointer": ANY, "is_integral": ANY, "is_floating_point": ANY, "is_array": ANY,
    "is_enum": ANY, "is_union": ANY, "is_class": ANY, "is_function": ANY, "is_pointer": ANY,
    "is_lvalue_reference": ANY, "is_rvalue_reference": ANY, "is_member_object_pointer": ANY,
    "is_member_function_pointer": ANY, "is_fundamental": ANY, "is_arithmetic": ANY, "is_scalar": ANY,
    "is_object": ANY, "is_compound": ANY, "is_reference": ANY, "is_member_pointer": ANY, "is_const": ANY,
    "is_volatile": ANY, "is_signed": ANY, "is_unsigned": ANY, "is_bounded_array": ANY, "is_unbounded_array": ANY,
    "is_trivial": lambda t: t not in UNBOUNDED or True, "is_trivially_copyable": ANY, "is_standard_layout": ANY,
    "is_empty": ANY, "is_polymorphic": ANY, "is_abstract": ANY, "is_final": ANY, "is_aggregate": ANY,
    "has_virtual_destructor": ANY, "has_unique_object_representations": ANY,
    "is_default_constructible": ANY, "is_copy_constructible": ANY, "is_move_constructible": ANY,
    "is_copy_assignable": ANY, "is_move_assignable": ANY, "is_destructible": ANY,
    "is_trivially_default_constructible": ANY, "is_trivially_copy_constructible": ANY,
    "is_trivially_move_constructible": ANY, "is_trivially_copy_assignable": ANY,
    "is_trivially_move_assignable": ANY, "is_trivially_destructible": ANY,
    "is_nothrow_default_constructible": ANY, "is_nothrow_copy_constructible": ANY,
    "is_nothrow_move_constructible": ANY, "is_nothrow_copy_assignable": ANY, "is_nothrow_move_assignable": ANY,
    "is_nothrow_destructible": ANY, "is_swappable": ANY, "is_nothrow_swappable": ANY,
}
UNARY_TRANS = {
    "add_const": ANY, "add_cv": ANY, "add_volatile": ANY, "add_lvalue_reference": ANY, "add_rvalue_reference": ANY,
    "add_pointer": ANY, "remove_const": ANY, "remove_cv": ANY, "remove_volatile": ANY, "remove_cvref": ANY,
    "remove_reference": ANY, "remove_pointer": ANY, "remove_extent": ANY, "remove_all_extents": ANY, "decay": ANY,
    "type_identity": ANY, "unwrap_reference": ANY,
}
INTEGRAL_FOR_MAKE = ["char", "signed char", "unsigned char", "wchar_t", "char8_t", "char16_t", "char32_t", "short",
                     "unsigned short", "int", "unsigned", "long", "unsigned long", "long long", "unsigned long long",
                     "z::E", "z::SE", "z::SE8", "z::E64", "int const", "unsigned char volatile",
                     "long long const volatile", "z::E const", "char const"]
ENUMS = ["z::E", "z::SE", "z::SE8", "z::E64", "z::E const", "z::SE volatile"]
UNARY_VALUE = {"rank": ANY}

PAIR_LEFT = ["int", "int const", "unsigned", "long long", "char", "bool", "float", "double", "int*", "int const*",
             "void*", "decltype(nullptr)", "z::E", "z::SE", "z::Pod", "z::Derived", "z::Derived2", "z::PrivDerived",
             "z::Pod*", "z::Derived*", "z::Pod&", "z::Derived&", "z::Pod const&", "z::Pod&&", "int&", "int const&",
             "int&&", "z::NonTrivial", "z::MoveOnly", "z::CopyOnly", "z::ExplicitFromInt", "z::ImplicitFromInt",
             "z::ConvToInt", "z::ExplicitConvToInt", "z::AssignFromInt", "z::Abstract", "void", "void const", "int[3]",
             "int[]", "z::Fn", "z::Fn*", "z::Fn&", "z::MemObj", "z::U", "z::Throwing", "z::NoThrow", "z::Empty",
             "z::Poly", "z::Callable", "short", "unsigned char", "long double"]


def pairs(quick):
    ls = PAIR_LEFT
    out = []
    for i, a in enumerate(ls):
        for j, b in enumerate(ls):
            if quick and (i * 7 + j * 3) % 11 not in (0, 1):
                continue
            out.append((a, b))
    return out


BINARY_PRED = ["is_same", "is_convertible", "is_nothrow_convertible", "is_assignable", "is_trivially_assignable",
               "is_nothrow_assignable", "is_constructible", "is_trivially_constructible", "is_nothrow_constructible",
               "is_swappable_with", "is_nothrow_swappable_with"]
BINARY_TRANS = ["common_type", "common_reference"]
CLASS_PAIRS = ["z::Pod", "z::Derived", "z::Derived2", "z::PrivDerived", "z::VDerived", "z::Empty", "z::Abstract",
               "z::Poly", "z::U", "int", "z::Pod const", "z::Derived volatile", "void", "z::Pod&", "z::Pod*", "z::Derived const",
               "z::Pod const volatile", "z::Derived2 const volatile"]

CONCEPT_UNARY = ["integral", "signed_integral", "unsigned_integral", "floating_point", "destructible",
                 "default_initializable", "move_constructible", "copy_constructible", "movable", "copyable",
                 "semiregular", "regular", "equality_comparable", "swappable"]
CONCEPT_BINARY = ["same_as", "derived_from", "convertible_to", "common_reference_with", "common_with",
                  "assignable_from", "constructible_from", "swappable_with"]

INVOKE_CASES = [
    ("z::Fn*", []), ("z::FnI*", ["int", "double"]), ("z::FnI*", ["int"]), ("z::FnI&", ["int", "float"]),
    ("z::Callable", ["int"]), ("z::Callable", ["double", "double"]), ("z::Callable", []),
    ("z::Callable const&", ["int"]), ("z::Callable const&", ["double", "double"]), ("z::NoexceptCallable", ["int"]),
    ("z::MemObj", ["z::Pod&"]), ("z::MemObj", ["z::Pod*"]), ("z::MemObj", ["z::Derived&"]), ("z::MemObj", ["int"]),
    ("z::MemFn", ["z::Poly&"]), ("z::MemFn", ["z::Poly*"]),
    ("z::MemFn", ["z::Poly const&"]), ("z::MemFnC", ["z::Callable const&", "int"]), ("z::MemFnC", ["z::Callable*", "int"]),
    ("z::MemFnC", ["z::Callable&"]), ("z::MemFnNoexcept", ["z::NoexceptCallable&", "int"]),
    ("z::MemFnRef", ["z::Poly&"]), ("z::MemFnRef", ["z::Poly&&"]), ("int", []), ("int", ["int"]),
    ("z::FnPtrNoexcept", ["int"]), ("z::FnPtrNoexcept", ["z::Pod"]), ("void", []), ("z::Pod", ["int"]),
]
INVOKE_R = ["void", "int", "void const", "long", "z::Pod", "z::ImplicitFromInt", "z::ExplicitFromInt", "int&", "int const&", "void volatile",
            "void const volatile"]

LIMIT_TYPES = ["bool", "char", "signed char", "unsigned char", "char8_t", "short", "unsigned short", "int",
               "unsigned", "long", "unsigned long", "long long", "unsigned long long", "float", "double",
               "long double", "int const", "double volatile", "unsigned char const volatile", "z::Pod", "int*"]
LIMIT_CONST = ["is_specialized", "is_signed", "is_integer", "is_exact", "has_infinity", "has_quiet_NaN",
               "has_signaling_NaN", "has_denorm_loss", "is_iec559", "is_bounded", "is_modulo", "digits", "digits10",
               "max_digits10", "radix", "min_exponent", "min_exponent10", "max_exponent", "max_exponent10"]
# traps / tinyness_before are implementation-defined properties of the target (libstdc++ on x86 reports traps = true for
# the integer types because division by zero traps); a freestanding library cannot be required to reproduce the host's
# answer, so no obligation is generated for them.
LIMIT_ENUM = ["has_denorm", "round_style"]
LIMIT_FUNCS = ["min", "lowest", "max", "epsilon", "round_error", "infinity", "quiet_NaN", "signaling_NaN", "denorm_min"]

RATIOS = [(1, 1), (1, 2), (2, 4), (-3, 6), (3, -6), (0, 5), (1, 1000), (1000, 1), (7, 3), (-7, 3), (1, 1000000000),
          (1001, 30000), (5, 7), (9223372036854775807, 1), (1, 9223372036854775807), (4294967296, 3),
          (-9223372036854775807, 2), (60, 1), (3600, 1), (86400, 1)]
RATIO_OPS = ["ratio_add", "ratio_subtract", "ratio_multiply", "ratio_divide"]
RATIO_CMP = ["ratio_equal", "ratio_not_equal", "ratio_less", "ratio_less_equal", "ratio_greater", "ratio_greater_equal"]
INT_ALIASES = ["int8_t", "int16_t", "int32_t", "int64_t", "uint8_t", "uint16_t", "uint32_t", "uint64_t",
               "int_least8_t", "int_least16_t", "int_least32_t", "int_least64_t", "uint_least8_t", "uint_least16_t",
               "uint_least32_t", "uint_least64_t", "intmax_t", "uintmax_t", "intptr_t",
               "uintptr_t", "size_t", "ptrdiff_t", "nullptr_t"]
# implementation-defined choices: only the properties the standard requires are obligations
FAST_ALIASES = [("int_fast8_t", 8, True), ("int_fast16_t", 16, True), ("int_fast32_t", 32, True), ("int_fast64_t", 64, True),
                ("uint_fast8_t", 8, False), ("uint_fast16_t", 16, False), ("uint_fast32_t", 32, False), ("uint_fast64_t", 64, False)]
# etl-only traits (no std counterpart in C++20/libstdc++ 12): listed in the evidence, no obligation
ETL_ONLY = {"always_false", "is_builtin_integer", "is_builtin_signed_integer", "is_builtin_unsigned_integer",
            "is_implicit_default_constructible", "is_reference_wrapper", "is_specialized", "smallest_size_t",
            "index_constant", "decl", "is_scoped_enum", "is_constant_evaluated", "declval", "basic_common_reference",
            "bool_constant", "integral_constant", "conjunction", "disjunction", "negation", "enable_if", "void_t",
            "conditional", "aligned_storage", "aligned_union", "alignment_of", "extent", "invoke_result", "is_invocable",
            "is_invocable_r", "is_base_of", "make_signed", "make_unsigned", "underlying_type", "rank"}


def present_traits():
    d = os.path.join(D.ROOT, "_type_traits")
    return sorted(f[:-4] for f in os.listdir(d) if f.endswith(".hpp"))


def present_concepts():
    d = os.path.join(D.ROOT, "_concepts")
    return sorted(f[:-4] for f in os.listdir(d) if f.endswith(".hpp"))


def generate(quick):
    """Returns (list of TUs, info dict)."""
    traits = set(present_traits())
    concepts = set(present_concepts())
    types = zoo(quick)
    tus = []
    info = {"traits_present": len(traits), "concepts_present": len(concepts), "zoo_types": len(types),
            "unpaired_traits": [], "missing_expected": []}
    paired = set()

    def new_tu(name):
        tu = wit.TU(name, PROLOGUE)
        tus.append(tu)
        return tu

    # -- unary predicates: sharded by trait
    names = sorted(UNARY_PRED)
    shards = 8 if not quick else 4
    for s in range(shards):
        tu = new_tu("c15_pred_%d" % s)
        for i, n in enumerate(names):
            if i % shards != s:
                continue
            if n not in traits:
                info["missing_expected"].append(n)
                continue
            paired.add(n)
            for t in types:
                if not UNARY_PRED[n](t):
                    continue
                tu.add("static_assert(etl::%s_v<%s> == std::%s_v<%s>);" % (n, t, n, t), "%s_v<%s>" % (n, t))
                if not quick:
                    tu.add("static_assert(z::agree_value<etl::%s, std::%s, %s>);" % (n, n, t), "%s<%s>::value" % (n, t))
    # -- unary transformations
    tu = new_tu("c15_trans")
    for n in sorted(UNARY_TRANS):
        if n not in traits:
            info["missing_expected"].append(n)
            continue
        paired.add(n)
        for t in types:
            tu.add("static_assert(std::is_same_v<etl::%s_t<%s>, std::%s_t<%s>>);" % (n, t, n, t), "%s_t<%s>" % (n, t))
            if not quick:
                tu.add("static_assert(z::agree_type<etl::%s, std::%s, %s>);" % (n, n, t), "%s<%s>::type" % (n, t))
    for n in ("make_signed", "make_unsigned"):
        if n in traits:
            paired.add(n)
            for t in INTEGRAL_FOR_MAKE:
                tu.add("static_assert(std::is_same_v<etl::%s_t<%s>, std::%s_t<%s>>);" % (n, t, n, t), "%s_t<%s>" % (n, t))
    if "underlying_type" in traits:
        paired.add("underlying_type")
        for t in ENUMS:
            tu.add("static_assert(std::is_same_v<etl::underlying_type_t<%s>, std::underlying_type_t<%s>>);" % (t, t),
                   "underlying_type_t<%s>" % t)
    # -- values
    tu = new_tu("c15_values")
    for t in types:
        if "rank" in traits:
            paired.add("rank")
            tu.add("static_assert(etl::rank_v<%s> == std::rank_v<%s>);" % (t, t), "rank_v<%s>" % t)
        if "extent" in traits:
            paired.add("extent")
            for n in (0, 1, 2):
                tu.add("static_assert(etl::extent_v<%s, %d> == std::extent_v<%s, %d>);" % (t, n, t, n),
                       "extent_v<%s, %d>" % (t, n))
        if "alignment_of" in traits and complete_object(t):
            paired.add("alignment_of")
            tu.add("static_assert(etl::alignment_of_v<%s> == std::alignment_of_v<%s>);" % (t, t), "alignment_of_v<%s>" % t)
    for n in ("conditional",):
        if n in traits:
            paired.add(n)
            for b in ("true", "false"):
                tu.add("static_assert(std::is_same_v<etl::conditional_t<%s, int, z::Pod&>, std::conditional_t<%s, int, z::Pod&>>);" % (b, b),
                       "conditional_t<%s,...>" % b)
    if "enable_if" in traits:
        paired.add("enable_if")
        tu.add("static_assert(std::is_same_v<etl::enable_if_t<true, z::Pod>, z::Pod>);", "enable_if_t<true>")
        tu.add("static_assert(!z::has_type<etl::enable_if<false, int>> && z::has_type<etl::enable_if<true, int>>);", "enable_if<false> has no type")
        tu.add("static_assert(std::is_same_v<etl::enable_if_t<true>, void>);", "enable_if_t<true> default")
    if "void_t" in traits:
        paired.add("void_t")
        tu.add("static_assert(std::is_same_v<etl::void_t<int, z::Pod&, void>, void>);", "void_t")
    for n, args in (("conjunction", ["std::true_type, std::true_type", "std::true_type, std::false_type", "", "std::false_type, z::Pod"]),
                    ("disjunction", ["std::false_type, std::false_type", "std::false_type, std::true_type", "", "std::true_type, z::Pod"])):
        if n in traits:
            paired.add(n)
            for a in args:
                tu.add("static_assert(etl::%s_v<%s> == std::%s_v<%s>);" % (n, a, n, a), "%s_v<%s>" % (n, a))
            # [meta.logical]: the specialisation *derives from* the selected trait (the first falsy / truthy one, else the last),
            # so members other than a bool `value` come through
            last = "std::integral_constant<int, 2>"
            stop = "std::false_type" if n == "conjunction" else "std::true_type"
            go = "std::true_type" if n == "conjunction" else "std::false_type"
            for a, sel in ((last, last), ("%s, %s" % (go, last), last),
                           ("%s, %s, std::rank<int[1][2][3]>" % (go, go), "std::rank<int[1][2][3]>")):
                tu.add("static_assert(std::is_base_of_v<%s, etl::%s<%s>> && etl::%s<%s>::value == std::%s<%s>::value);" % (sel, n, a, n, a, n, a),
                       "%s<%s> derives from its last trait" % (n, a))
            tu.add("static_assert(std::is_base_of_v<%s, etl::%s<%s, %s>>);" % (stop, n, stop, last), "%s<%s, ...> derives from the deciding trait" % (n, stop))
    if "negation" in traits:
        paired.add("negation")
        for a in ("std::true_type", "std::false_type", "etl::true_type", "std::is_void<int>"):
            tu.add("static_assert(etl::negation_v<%s> == std::negation_v<%s>);" % (a, a), "negation_v<%s>" % a)
    if "integral_constant" in traits:
        paired.add("integral_constant")
        paired.add("bool_constant")
        tu.add("static_assert(etl::integral_constant<int, 7>::value == 7 && std::is_same_v<etl::integral_constant<int, 7>::value_type, int>);", "integral_constant")
        tu.add("static_assert(etl::integral_constant<long, -3>{}() == -3 && static_cast<long>(etl::integral_constant<long, -3>{}) == -3);", "integral_constant call/conversion")
        tu.add("static_assert(etl::true_type::value && !etl::false_type::value && std::is_same_v<etl::bool_constant<true>, etl::true_type>);", "bool_constant")
    if "aligned_storage" in traits:
        paired.add("aligned_storage")
        for ln, al in ((1, 1), (3, 2), (8, 8), (17, 4), (64, 16), (5, 1)):
            tu.add("static_assert(sizeof(etl::aligned_storage_t<%d, %d>) >= %d && alignof(etl::aligned_storage_t<%d, %d>) == alignof(std::aligned_storage_t<%d, %d>) && sizeof(etl::aligned_storage_t<%d, %d>) == sizeof(std::aligned_storage_t<%d, %d>));"
                   % (ln, al, ln, ln, al, ln, al, ln, al, ln, al), "aligned_storage_t<%d,%d>" % (ln, al))
    if "aligned_union" in traits:
        paired.add("aligned_union")
        # ascending, descending and mixed orders of size / alignment: the maximum is over the whole list
        for ln, ts in ((1, "char, int"), (32, "char, double"), (0, "z::Pod, long double"), (3, "short"), (0, "char, double, int"),
                       (0, "double, char"), (0, "char[7], char[3]"), (0, "int, char[9], short"), (2, "long double, char, int"),
                       (0, "char, long long, short, char[5]")):
            tu.add("static_assert(sizeof(etl::aligned_union_t<%d, %s>) == sizeof(std::aligned_union_t<%d, %s>) && alignof(etl::aligned_union_t<%d, %s>) == alignof(std::aligned_union_t<%d, %s>));"
                   % (ln, ts, ln, ts, ln, ts, ln, ts), "aligned_union_t<%d,%s>" % (ln, ts))
    # -- binary predicates / transformations: sharded
    ps = pairs(quick)
    info["type_pairs"] = len(ps)
    bshards = 8 if not quick else 3
    for s in range(bshards):
        tu = new_tu("c15_bin_%d" % s)
        for i, (a, b) in enumerate(ps):
            if i % bshards != s:
                continue
            for n in BINARY_PRED:
                if n not in traits:
                    continue
                paired.add(n)
                tu.add("static_assert(etl::%s_v<%s, %s> == std::%s_v<%s, %s>);" % (n, a, b, n, a, b), "%s_v<%s, %s>" % (n, a, b))
            for n in BINARY_TRANS:
                if n not in traits:
                    continue
                paired.add(n)
                tu.add("static_assert(z::agree_type<etl::%s, std::%s, %s, %s>);" % (n, n, a, b), "%s<%s, %s>::type" % (n, a, b))
            for n in CONCEPT_BINARY:
                if n not in concepts:
                    continue
                tu.add("static_assert(etl::%s<%s, %s> == std::%s<%s, %s>);" % (n, a, b, n, a, b), "concept %s<%s, %s>" % (n, a, b))
    tu = new_tu("c15_misc")
    if "is_base_of" in traits:
        paired.add("is_base_of")
        for a in CLASS_PAIRS:
            for b in CLASS_PAIRS:
                tu.add("static_assert(etl::is_base_of_v<%s, %s> == std::is_base_of_v<%s, %s>);" % (a, b, a, b), "is_base_of_v<%s, %s>" % (a, b))
    if "derived_from" in concepts:
        # the class lattice with cv-qualified members: derived_from ignores cv-qualification of both operands
        for a in CLASS_PAIRS:
            for b in CLASS_PAIRS:
                tu.add("static_assert(etl::derived_from<%s, %s> == std::derived_from<%s, %s>);" % (a, b, a, b), "concept derived_from<%s, %s> (class lattice)" % (a, b))
    for n in ("common_type", "common_reference"):
        if n in traits:
            for args in ("int", "int, long, double", "int, z::Pod", "z::Derived*, z::Pod*, void*", "", "int&, int const&", "z::E, int", "char, short, unsigned"):
                tu.add("static_assert(z::agree_type<etl::%s, std::%s%s%s>);" % (n, n, ", " if args else "", args), "%s<%s>::type" % (n, args))
    # constructible with several arguments
    for n in ("is_constructible", "is_nothrow_constructible", "is_trivially_constructible"):
        if n in traits:
            for args in ("z::Pod", "z::Pod, int, double", "z::NoDefault", "z::NoDefault, int", "z::NoDefault, int, int", "int, int", "int&, int", "int const&, int", "int&&, int", "z::Aggregate, int", "int[3]", "int[3], int", "z::Abstract", "z::Fn", "void", "z::Pod&, z::Derived&", "z::Derived&, z::Pod&", "z::MoveOnly, z::MoveOnly const&", "z::MoveOnly, z::MoveOnly"):
                tu.add("static_assert(etl::%s_v<%s> == std::%s_v<%s>);" % (n, args, n, args), "%s_v<%s>" % (n, args))
    for f, args in INVOKE_CASES:
        al = ", ".join([f] + args)
        if "is_invocable" in traits:
            paired.add("is_invocable")
            tu.add("static_assert(etl::is_invocable_v<%s> == std::is_invocable_v<%s>);" % (al, al), "is_invocable_v<%s>" % al)
        if "invoke_result" in traits:
            paired.add("invoke_result")
            tu.add("static_assert(z::agree_type<etl::invoke_result, std::invoke_result, %s>);" % al, "invoke_result<%s>::type" % al)
        if "invocable" in concepts:
            tu.add("static_assert(etl::invocable<%s> == std::invocable<%s>);" % (al, al), "concept invocable<%s>" % al)
        if "is_invocable_r" in traits:
            paired.add("is_invocable_r")
            for r in INVOKE_R[: (4 if quick else len(INVOKE_R))]:
                tu.add("static_assert(etl::is_invocable_r_v<%s, %s> == std::is_invocable_r_v<%s, %s>);" % (r, al, r, al),
                       "is_invocable_r_v<%s, %s>" % (r, al))
    for n in CONCEPT_UNARY:
        if n not in concepts:
            continue
        for t in types:
            tu.add("static_assert(etl::%s<%s> == std::%s<%s>);" % (n, t, n, t), "concept %s<%s>" % (n, t))
    for n, cases in (("predicate", ["bool(*)(int), int", "z::Callable, int", "void(*)(int), int", "z::Pod, int", "bool(*)(int)"]),
                     ("relation", ["bool(*)(int, int), int, int", "bool(*)(int, long), int, long", "void(*)(int, int), int, int", "bool(*)(z::Pod, z::Pod), z::Pod, int"]),
                     ("equivalence_relation", ["bool(*)(int, int), int, int", "int, int, int"]),
                     ("strict_weak_order", ["bool(*)(int, int), int, int", "int, int, int"]),
                     ("regular_invocable", ["z::Callable, int", "z::Pod, int"]),
                     ("equality_comparable_with", ["int, long", "z::Eq, z::Eq", "z::Eq, int", "z::NoEq, z::NoEq", "int*, decltype(nullptr)"])):
        if n in concepts:
            for c in cases:
                tu.add("static_assert(etl::%s<%s> == std::%s<%s>);" % (n, c, n, c), "concept %s<%s>" % (n, c))
    # -- numeric_limits
    tu = new_tu("c15_limits")
    for t in LIMIT_TYPES:
        for m in LIMIT_CONST:
            tu.add("static_assert(etl::numeric_limits<%s>::%s == std::numeric_limits<%s>::%s);" % (t, m, t, m),
                   "numeric_limits<%s>::%s" % (t, m))
        for m in LIMIT_ENUM:
            tu.add("static_assert(static_cast<int>(etl::numeric_limits<%s>::%s) == static_cast<int>(std::numeric_limits<%s>::%s));" % (t, m, t, m),
                   "numeric_limits<%s>::%s" % (t, m))
        if t in ("z::Pod", "int*"):
            continue
        for m in LIMIT_FUNCS:
            tu.add("static_assert(z::feq(etl::numeric_limits<%s>::%s(), std::numeric_limits<%s>::%s()) && std::is_same_v<decltype(etl::numeric_limits<%s>::%s()), decltype(std::numeric_limits<%s>::%s())>);"
                   % (t, m, t, m, t, m, t, m), "numeric_limits<%s>::%s()" % (t, m))
    # -- ratio
    tu = new_tu("c15_ratio")
    rs = RATIOS if not quick else RATIOS[:12]
    for (n, dd) in rs:
        tu.add("static_assert(etl::ratio<%dLL, %dLL>::num == std::ratio<%dLL, %dLL>::num && etl::ratio<%dLL, %dLL>::den == std::ratio<%dLL, %dLL>::den);"
               % (n, dd, n, dd, n, dd, n, dd), "ratio<%d,%d> normalisation" % (n, dd))
    small = [r for r in rs if abs(r[0]) < 10**10 and abs(r[1]) < 10**10]
    for a in small:
        for b in small:
            ea = "etl::ratio<%dLL, %dLL>" % a
            eb = "etl::ratio<%dLL, %dLL>" % b
            sa = "std::ratio<%dLL, %dLL>" % a
            sb = "std::ratio<%dLL, %dLL>" % b
            for op in RATIO_OPS:
                if op == "ratio_divide" and b[0] == 0:
                    continue
                # overflow makes the std operation ill-formed: only grid points where std is well-formed are compared
                big = abs(a[0] * b[1]) + abs(b[0] * a[1]) + abs(a[1] * b[1]) + abs(a[0] * b[0])
                if big >= 2**62:
                    continue
                tu.add("static_assert(etl::%s<%s, %s>::num == std::%s<%s, %s>::num && etl::%s<%s, %s>::den == std::%s<%s, %s>::den);"
                       % (op, ea, eb, op, sa, sb, op, ea, eb, op, sa, sb), "%s<%d/%d, %d/%d>" % (op, a[0], a[1], b[0], b[1]))
            for op in RATIO_CMP:
                tu.add("static_assert(etl::%s_v<%s, %s> == std::%s_v<%s, %s>);" % (op, ea, eb, op, sa, sb),
                       "%s_v<%d/%d, %d/%d>" % (op, a[0], a[1], b[0], b[1]))
    # comparisons of ratios that differ by less than one part in 2^53 (exact in integers; equal once rounded to double); the
    # cross products fit intmax_t, so the integer comparison the standard describes is well-defined
    M = 2**63 - 1
    CLOSE = [((M - 1, 1), (M, 1)), ((-M, 1), (-(M - 1), 1)), ((1, M), (1, M - 1)), ((1000000006, 1000000007), (1000000007, 1000000008)),
             ((2147483646, 2147483647), (2147483647, 2147483648)), ((-2147483647, 2147483648), (-2147483646, 2147483647)),
             ((4503599627370497, 4503599627370496), (9007199254740993, 9007199254740992))]
    for a, b in CLOSE:
        for x, y in ((a, b), (b, a), (a, a)):
            ex, ey = "etl::ratio<%dLL, %dLL>" % x, "etl::ratio<%dLL, %dLL>" % y
            sx, sy = "std::ratio<%dLL, %dLL>" % x, "std::ratio<%dLL, %dLL>" % y
            for op in RATIO_CMP:
                tu.add("static_assert(etl::%s_v<%s, %s> == std::%s_v<%s, %s> && etl::%s<%s, %s>::value == std::%s<%s, %s>::value);" % (
                    op, ex, ey, op, sx, sy, op, ex, ey, op, sx, sy), "%s<%d/%d, %d/%d> (close pair)" % (op, x[0], x[1], y[0], y[1]))
    for al, (n, dd) in (("atto", (1, 10**18)), ("femto", (1, 10**15)), ("pico", (1, 10**12)), ("nano", (1, 10**9)),
                        ("micro", (1, 10**6)), ("milli", (1, 1000)), ("centi", (1, 100)), ("deci", (1, 10)),
                        ("deca", (10, 1)), ("hecto", (100, 1)), ("kilo", (1000, 1)), ("mega", (10**6, 1)),
                        ("giga", (10**9, 1)), ("tera", (10**12, 1)), ("peta", (10**15, 1)), ("exa", (10**18, 1))):
        tu.add("static_assert(etl::%s::num == std::%s::num && etl::%s::den == std::%s::den);" % (al, al, al, al), "ratio alias " + al)
    # -- integer aliases
    tu = new_tu("c15_ints")
    for a in INT_ALIASES:
        tu.add("static_assert(std::is_same_v<etl::%s, std::%s>);" % (a, a), "alias " + a)
    for a, bits, sg in FAST_ALIASES:
        tu.add("static_assert(std::is_integral_v<etl::%s> && sizeof(etl::%s) * 8 >= %d && std::is_signed_v<etl::%s> == %s);"
               % (a, a, bits, a, "true" if sg else "false"), "alias " + a)
    tu.add("static_assert(alignof(etl::max_align_t) >= alignof(long double) && alignof(etl::max_align_t) >= alignof(long long) && std::is_trivial_v<etl::max_align_t>);", "alias max_align_t")
    tu.add("static_assert(sizeof(etl::byte) == 1 && std::is_enum_v<etl::byte> && std::is_same_v<std::underlying_type_t<etl::byte>, unsigned char>);", "byte")
    for n in sorted(traits - paired):
        info["unpaired_traits"].append(n)
    info["paired_traits"] = len(paired)
    return tus, info
