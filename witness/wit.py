"""Type-level witness TUs: one obligation per source line, compiled (never run) by the build's compiler.

A positive obligation is a `static_assert(<type-level predicate>)`; a compile-fail witness is a declaration that
must produce at least one error attributed to its own line. Diagnostics are read from g++'s JSON format and
attributed to the obligation line they (or their instantiation back-trace) point to.
"""
import json
import os
import re
import subprocess
import sys
import concurrent.futures

sys.path.insert(0, os.path.dirname(os.path.dirname(os.path.abspath(__file__))))
from analysis import db as D   # noqa: E402


class TU:
    def __init__(self, name, prologue):
        self.name = name
        self.lines = prologue.rstrip("\n").split("\n")
        self.obl = {}          # line number (1-based) -> obligation dict

    def add(self, code, label, kind="assert", **meta):
        """code: a single-line declaration (static_assert(...); or a compile-fail witness)."""
        assert "\n" not in code
        self.lines.append(code)
        self.obl[len(self.lines)] = dict(code=code, label=label, kind=kind, **meta)

    def raw(self, code):
        for ln in code.rstrip("\n").split("\n"):
            self.lines.append(ln)

    def text(self):
        return "\n".join(self.lines) + "\n"


def _locs(diag, path, acc):
    for loc in diag.get("locations", []):
        for key in ("caret", "start", "finish"):
            c = loc.get(key)
            if c and c.get("file") == path:
                acc.append(c["line"])
    for ch in diag.get("children", []):
        _locs(ch, path, acc)


def compile_tu(tu, compiler="g++", std="c++20", extra_flags=(), timeout=600):
    """Returns (results, unattributed): results[line] = list of error messages for that obligation line."""
    d = D.scratch()
    path = os.path.join(d, tu.name + ".cpp")
    canary_line = len(tu.lines) + 1
    with open(path, "w") as f:
        # positive control: the last line must be diagnosed, otherwise the compiler stopped early (ICE, fatal error,
        # resource limit) and every obligation after that point would pass vacuously
        f.write(tu.text() + 'static_assert(sizeof(char) == 2, "tetl-verif-canary");\n')
    if compiler == "g++":
        cmd = ["g++", "-std=" + std, "-fsyntax-only", "-fmax-errors=0", "-fno-diagnostics-show-caret", "-w",
               "-fdiagnostics-plain-output", "-ftemplate-backtrace-limit=0", "-I" + D.INCLUDE] + list(extra_flags) + [path]
    else:
        cmd = ["clang++", "-std=" + std, "-fsyntax-only", "-ferror-limit=0", "-w", "-I" + D.INCLUDE] + list(extra_flags) + [path]
    try:
        env = dict(os.environ, LC_ALL="C", LANG="C")
        r = subprocess.run(cmd, capture_output=True, text=True, timeout=timeout, env=env)
    except subprocess.TimeoutExpired:
        raise D.AnalysisBroken("witness TU %s: compiler timed out" % tu.name)
    results = {}
    contexts = {}
    tu.contexts = contexts
    unattributed = []
    if compiler == "g++":
        import re
        ctx = []            # obligation lines named by the current instantiation context
        hdr = re.compile(r"^(.*?): (In instantiation of|In substitution of|In function|In member function|In constructor|"
                         r"In destructor|In lambda function|At global scope|In static member function|In copy constructor)")
        loc = re.compile(r"^(.*?):(\d+):(\d+): (.*)$")
        where = ""
        for ln in r.stderr.split("\n"):
            if hdr.match(ln) or ln.endswith("At global scope:"):
                ctx = []
                q = re.search(r"'(.*)'", ln)
                where = q.group(1) if q else ""
                continue
            m = loc.match(ln)
            if not m:
                continue
            f, line, rest = m.group(1), int(m.group(2)), m.group(4)
            if rest.startswith("error:") or rest.startswith("fatal error:"):
                msg = rest.split(":", 1)[1].strip()
                cand = list(ctx)
                if f == path and line in tu.obl:
                    cand.append(line)
                if cand:
                    results.setdefault(cand[-1], []).append(msg)
                    contexts.setdefault(cand[-1], []).append(where)
                else:
                    unattributed.append("%s:%d: %s" % (f, line, msg))
            elif f == path and line in tu.obl and ("required from" in rest or "required by" in rest or "in 'constexpr' expansion" in rest
                                                   or "in requirements" in rest or "required for" in rest):
                ctx.append(line)
    else:
        import re
        cur = None
        for ln in r.stderr.split("\n"):
            m = re.match(r"^(.*?):(\d+):(\d+): (fatal error|error|note): (.*)$", ln)
            if not m:
                continue
            f, line, kind, msg = m.group(1), int(m.group(2)), m.group(4), m.group(5)
            if kind != "note":
                cur = {"msg": msg, "lines": []}
                if f == path:
                    cur["lines"].append(line)
                cur_err = cur
                if f == path and line in tu.obl:
                    results.setdefault(line, []).append(msg)
                    cur["done"] = True
                else:
                    cur["done"] = False
                    unattributed.append(cur)
            elif cur is not None and not cur.get("done") and f == path and line in tu.obl:
                results.setdefault(line, []).append(cur["msg"])
                cur["done"] = True
        unattributed = ["%s" % u["msg"] for u in unattributed if isinstance(u, dict) and not u.get("done")]
    os.unlink(path)
    if not re.search(r":%d:\d+: error: static assertion failed: tetl-verif-canary" % canary_line, r.stderr) and \
            not re.search(r":%d:\d+: error: static_assert failed.*tetl-verif-canary" % canary_line, r.stderr):
        raise D.AnalysisBroken("witness TU %s: the canary on the last line was not diagnosed (compiler stopped early?): %s" % (
            tu.name, r.stderr[-300:]))
    unattributed = [u for u in unattributed if "tetl-verif-canary" not in str(u)]
    return results, unattributed


def compile_many(tus, compiler="g++", std="c++20", extra_flags=(), jobs=16):
    out = {}
    with concurrent.futures.ThreadPoolExecutor(max_workers=jobs) as ex:
        futs = {ex.submit(compile_tu, tu, compiler, std, extra_flags): tu for tu in tus}
        for fu in concurrent.futures.as_completed(futs):
            tu = futs[fu]
            out[tu.name] = fu.result()
    return out


def judge(chk, rule, tu, results, unattributed, fail_floor=None):
    """Feed the per-obligation outcome of one TU into the Check object."""
    n_ok = 0
    whole = getattr(tu, "whole", None)
    if whole:
        # a must-compile witness whose errors the compiler reports without a back-trace into this file (an inherited
        # constructor ends the trace inside the library): the TU holds this one obligation and any error is its failure
        errs = [e for v in results.values() for e in v] + [str(u) for u in unattributed]
        chk.obligation(rule, whole["label"], not errs, nontrivial=True)
        if errs:
            chk.violation(rule, whole["label"], "hard-error", "%s: %s" % (whole["code"], errs[0][:300]),
                          {"obligation": whole["code"], "errors": errs[:5], "tu": tu.name})
            return 0
        return 1
    for line, ob in sorted(tu.obl.items()):
        errs = results.get(line, [])
        if ob["kind"] == "assert":
            ok = not errs
            chk.obligation(rule, ob["label"], ok, nontrivial=True)
            if ok:
                n_ok += 1
            else:
                hard = any("static assertion failed" not in e for e in errs)
                chk.violation(rule, ob["label"], "hard-error" if hard else "disagree",
                              "%s: %s" % (ob["code"], errs[0][:300]),
                              {"obligation": ob["code"], "errors": errs[:5], "tu": tu.name})
        elif ob["kind"] == "must_fail":
            ok = bool(errs)
            chk.obligation(rule, ob["label"], ok, nontrivial=True)
            if ok:
                n_ok += 1
            else:
                chk.violation(rule, ob["label"], "compiles", "compile-fail witness compiles: " + ob["code"],
                              {"obligation": ob["code"], "tu": tu.name})
    if unattributed:
        # an error that cannot be attributed to an obligation: the TU itself is broken (prologue / header error)
        chk.analysis_broken("witness TU %s: %d compiler error(s) outside any obligation, first: %s" % (
            tu.name, len(unattributed), str(unattributed[0])[:400]))
    return n_ok
