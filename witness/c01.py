"""W-TYPES for C01: capacity is a compile-time constant; the size type can hold the capacity at the 255/256... boundaries."""
from . import wit

PROLOGUE = r"""
#include <limits>
#include <type_traits>
#include <vector>
#include <etl/vector.hpp>
#include <etl/inplace_vector.hpp>
#include <etl/stack.hpp>
#include <etl/type_traits.hpp>
#include <etl/limits.hpp>
namespace m {
struct NT { NT(); NT(NT const&); NT(NT&&) noexcept; NT& operator=(NT const&); NT& operator=(NT&&) noexcept; ~NT(); };
template <unsigned long long N> struct tag { };
}
"""
NS = [0, 1, 4, 254, 255, 256, 65535, 65536]
BOUND = [0, 1, 254, 255, 256, 257, 65534, 65535, 65536, 4294967295, 4294967296]


def generate(quick):
    tu = wit.TU("c01", PROLOGUE)
    for n in BOUND:
        tu.add("static_assert(std::numeric_limits<etl::smallest_size_t<%dULL>>::max() >= %dULL && std::is_unsigned_v<etl::smallest_size_t<%dULL>>);" % (n, n, n),
               "smallest_size_t<%d> can hold %d" % (n, n))
    for t in ("int", "m::NT"):
        for n in NS:
            tu.add("static_assert(std::is_same_v<m::tag<etl::inplace_vector<%s, %d>::capacity()>, m::tag<%d>> && etl::inplace_vector<%s, %d>::max_size() == %d);" % (t, n, n, t, n, n),
                   "inplace_vector<%s,%d>::capacity() is the static constant %d" % (t, n, n))
            tu.add("static_assert(sizeof(etl::inplace_vector<%s, %d>) >= %d * sizeof(%s));" % (t, n, n, t), "inplace_vector<%s,%d> holds its elements inline" % (t, n))
    for n in (0, 1, 4, 255, 256):
        tu.add("static_assert(etl::static_vector<int, %d>{}.capacity() == %d && etl::static_vector<int, %d>{}.max_size() == %d);" % (n, n, n, n),
               "static_vector<int,%d>{}.capacity() == %d" % (n, n))
        tu.add("static_assert(sizeof(etl::static_vector<int, %d>) >= %d * sizeof(int) && sizeof(etl::static_vector<m::NT, %d>) >= %d * sizeof(m::NT));" % (n, n, n, n),
               "static_vector<T,%d> holds its elements inline" % n)
    for t in ("int", "m::NT"):
        for member in ("value_type", "size_type", "difference_type", "reference", "const_reference", "pointer", "const_pointer"):
            tu.add("static_assert(std::is_same_v<etl::static_vector<%s, 4>::%s, std::vector<%s>::%s>);" % (t, member, t, member), "static_vector<%s,4>::%s" % (t, member))
            tu.add("static_assert(std::is_same_v<etl::inplace_vector<%s, 4>::%s, std::vector<%s>::%s>);" % (t, member, t, member), "inplace_vector<%s,4>::%s" % (t, member))
        tu.add("static_assert(std::is_copy_constructible_v<etl::static_vector<%s, 4>> && std::is_move_constructible_v<etl::static_vector<%s, 4>> && std::is_copy_assignable_v<etl::static_vector<%s, 4>>);" % (t, t, t),
               "static_vector<%s,4> copyable" % t)
    tu.add("static_assert(std::is_trivially_destructible_v<etl::static_vector<int, 4>>);", "static_vector<int,4> trivial storage")
    tu.add("static_assert(!std::is_trivially_destructible_v<etl::static_vector<m::NT, 4>>);", "static_vector<NT,4> non-trivial storage")
    tu.add("static_assert(std::is_same_v<decltype(etl::inplace_vector<int, 4>{}.try_push_back(1)), int*> && std::is_same_v<decltype(etl::inplace_vector<int, 0>{}.try_push_back(1)), int*>);", "try_push_back returns pointer")
    tu.add("static_assert(std::is_same_v<etl::stack<int, etl::static_vector<int, 4>>::container_type, etl::static_vector<int, 4>>);", "stack::container_type")
    return [tu], {}
