"""W-TYPES for C20: result types / value categories of pair, tuple, get, apply, tuple_cat, make_from_tuple, invoke,
bind_front, not_fn, reference_wrapper vs the std facilities (type-level only)."""
from . import wit

PROLOGUE = r"""
#include <tuple>
#include <utility>
#include <functional>
#include <type_traits>
#include <etl/tuple.hpp>
#include <etl/utility.hpp>
#include <etl/functional.hpp>
#include <etl/type_traits.hpp>
namespace m {
struct MoveOnly { MoveOnly() = default; MoveOnly(MoveOnly&&) = default; MoveOnly& operator=(MoveOnly&&) = default; };
struct CopyOnly { CopyOnly() = default; CopyOnly(CopyOnly const&) = default; CopyOnly& operator=(CopyOnly const&) = default; CopyOnly(CopyOnly&&) = delete; };
struct S { int d; int f(int) const; void g() &; int h() &&; int n(int) noexcept; };
struct Fn { int operator()(int) &; long operator()(int) const&; char operator()(int) &&; short operator()(int) const&&; };
struct Pred { bool operator()(int) const; };
struct RefFn { int& operator()(int); int const& operator()(int) const; };
struct ConstCall { int operator()(int) const; int operator()(int) = delete; };
struct MutCall { int operator()(int); int operator()(int) const = delete; };
struct RvCall { int operator()(int) &&; int operator()(int) & = delete; int operator()(int) const& = delete; };
struct LvCall { int operator()(int) &; int operator()(int) && = delete; };
int& ref_of(int& x);
int const& cref_of(int const& x);
int&& rref_of(int& x);
struct FromPair { FromPair(int, double); };
template <class T> T&& dv() noexcept;
template <class T> struct mirror { using type = T; };
template <class A, class B> struct mirror<etl::pair<A, B>> { using type = std::pair<typename mirror<A>::type, typename mirror<B>::type>; };
template <class... Ts> struct mirror<etl::tuple<Ts...>> { using type = std::tuple<typename mirror<Ts>::type...>; };
template <class T> struct mirror<etl::reference_wrapper<T>> { using type = std::reference_wrapper<T>; };
template <class T> struct mirror<T&> { using type = typename mirror<T>::type&; };
template <class T> struct mirror<T&&> { using type = typename mirror<T>::type&&; };
template <class T> struct mirror<T const> { using type = typename mirror<T>::type const; };
template <class E, class S> inline constexpr bool same = std::is_same_v<typename mirror<E>::type, S>;
}
"""
ELEMS = ["int", "int&", "int const", "int const&", "m::MoveOnly", "m::MoveOnly&&", "double", "char const*"]
QUALS = ["&", "const&", "&&", "const&&"]


def both(tu, e_expr, s_expr, label, tparams=""):
    code = ("static_assert([]<class D = void>() { constexpr bool he = requires { %s; }; constexpr bool hs = requires { %s; }; "
            "if constexpr (he != hs) { return false; } else if constexpr (he) { return m::same<decltype(%s), decltype(%s)>; } "
            "else { return true; } }());" % (e_expr, s_expr, e_expr, s_expr))
    tu.add(code, label)


def generate(quick):
    tus = [wit.TU("c20_%d" % i, PROLOGUE) for i in range(4)]
    k = 0

    def tu():
        nonlocal k
        k += 1
        return tus[k % len(tus)]
    elems = ELEMS[:5] if quick else ELEMS
    # pair / tuple element access
    for a in elems:
        for b in elems[:4]:
            ep, sp = "etl::pair<%s, %s>" % (a, b), "std::pair<%s, %s>" % (a, b)
            et, st = "etl::tuple<%s, %s>" % (a, b), "std::tuple<%s, %s>" % (a, b)
            t = tu()
            t.add("static_assert(std::is_same_v<%s::first_type, %s::first_type> && std::is_same_v<%s::second_type, %s::second_type>);" % (ep, sp, ep, sp),
                  "pair<%s,%s> member types" % (a, b))
            t.add("static_assert(etl::tuple_size_v<%s> == std::tuple_size_v<%s> && etl::tuple_size_v<%s> == 2);" % (et, st, ep), "tuple_size<%s,%s>" % (a, b))
            for i in (0, 1):
                t.add("static_assert(std::is_same_v<etl::tuple_element_t<%d, %s>, std::tuple_element_t<%d, %s>>);" % (i, et, i, st),
                      "tuple_element_t<%d, tuple<%s,%s>>" % (i, a, b))
                t.add("static_assert(std::is_same_v<etl::tuple_element_t<%d, %s>, std::tuple_element_t<%d, %s>>);" % (i, ep, i, sp),
                      "tuple_element_t<%d, pair<%s,%s>>" % (i, a, b))
                for q in QUALS:
                    t.add("static_assert(std::is_same_v<decltype(etl::get<%d>(m::dv<%s %s>())), decltype(std::get<%d>(m::dv<%s %s>()))>);" % (i, et, q, i, st, q),
                          "get<%d>(tuple<%s,%s> %s)" % (i, a, b, q))
                    t.add("static_assert(std::is_same_v<decltype(etl::get<%d>(m::dv<%s %s>())), decltype(std::get<%d>(m::dv<%s %s>()))>);" % (i, ep, q, i, sp, q),
                          "get<%d>(pair<%s,%s> %s)" % (i, a, b, q))
            for tr in ("is_copy_constructible_v", "is_move_constructible_v", "is_copy_assignable_v", "is_move_assignable_v", "is_default_constructible_v"):
                t.add("static_assert(std::%s<%s> == std::%s<%s>);" % (tr, ep, tr, sp), "%s<pair<%s,%s>>" % (tr, a, b))
                t.add("static_assert(std::%s<%s> == std::%s<%s>);" % (tr, et, tr, st), "%s<tuple<%s,%s>>" % (tr, a, b))
    # converting construction / assignment between pairs (and tuples) of different element types and value categories
    conv = [("int", "int"), ("long", "int"), ("long", "int&"), ("m::CopyOnly", "m::CopyOnly&"), ("m::CopyOnly", "m::CopyOnly"),
            ("m::CopyOnly", "m::CopyOnly const&"), ("m::MoveOnly", "m::MoveOnly"), ("m::MoveOnly", "m::MoveOnly&"), ("int const&", "int&")]
    for a, c in conv:
        for q in QUALS:
            t = tu()
            for tmpl in ("pair",):        # etl::tuple has no converting constructors at all (known finding): pair only
                e1, e2 = "etl::%s<%s, int>" % (tmpl, a), "etl::%s<%s, int>" % (tmpl, c)
                s1, s2 = "std::%s<%s, int>" % (tmpl, a), "std::%s<%s, int>" % (tmpl, c)
                t.add("static_assert(std::is_constructible_v<%s, %s %s> == std::is_constructible_v<%s, %s %s>);" % (e1, e2, q, s1, s2, q),
                      "is_constructible<%s<%s,int>, %s<%s,int> %s>" % (tmpl, a, tmpl, c, q))
                if "&" not in a and "const" not in a:
                    t.add("static_assert(std::is_assignable_v<%s&, %s %s> == std::is_assignable_v<%s&, %s %s>);" % (e1, e2, q, s1, s2, q),
                          "is_assignable<%s<%s,int>&, %s<%s,int> %s>" % (tmpl, a, tmpl, c, q))
    # the bodies of the converting members are instantiated (traits only see the declarations): copying from a pair of
    # references must copy, not move - a copy-only element type makes the difference a compile error
    inst = 0
    for tgt, src in (("m::CopyOnly", "m::CopyOnly&"), ("m::CopyOnly", "m::CopyOnly const&"), ("long", "int&"), ("m::MoveOnly", "m::MoveOnly")):
        for q in ("&&", "const&") if tgt != "m::MoveOnly" else ("&&",):
            for ns in ("etl", "std"):
                t = tu()
                inst += 1
                t.add("inline void c20_inst_%d(%s::pair<%s, int> %s s) { %s::pair<%s, int> d{static_cast<%s::pair<%s, int> %s>(s)}; (void)d; }" % (
                    inst, ns, src, q, ns, tgt, ns, src, q), "%s::pair<%s,int> constructed from %s::pair<%s,int> %s instantiates" % (ns, tgt, ns, src, q))
                if tgt != "m::MoveOnly" or q == "&&":
                    inst += 1
                    t.add("inline void c20_inst_%d(%s::pair<%s, int>& d, %s::pair<%s, int> %s s) { d = static_cast<%s::pair<%s, int> %s>(s); }" % (
                        inst, ns, tgt, ns, src, q, ns, src, q), "%s::pair<%s,int> assigned from %s::pair<%s,int> %s instantiates" % (ns, tgt, ns, src, q))
    t = tus[0]
    for args in ("int, double", "int&, m::MoveOnly", "char const(&)[3], int", "std::reference_wrapper<int>, int", "etl::reference_wrapper<int>, int const&"):
        ea = args
        sa = args.replace("etl::reference_wrapper", "std::reference_wrapper")
        lab = "make_pair(%s)" % args
        e_expr = "etl::make_pair(%s)" % ", ".join("m::dv<%s>()" % x.strip() for x in ea.split(", "))
        s_expr = "std::make_pair(%s)" % ", ".join("m::dv<%s>()" % x.strip() for x in sa.split(", "))
        both(t, e_expr, s_expr, lab)
        both(t, e_expr.replace("make_pair", "make_tuple"), s_expr.replace("make_pair", "make_tuple"), lab.replace("make_pair", "make_tuple"))
        both(t, e_expr.replace("make_pair", "forward_as_tuple"), s_expr.replace("make_pair", "forward_as_tuple"), lab.replace("make_pair", "forward_as_tuple"))
    for q in QUALS:
        both(t, "etl::tuple_cat(m::dv<etl::tuple<int, double> %s>(), m::dv<etl::tuple<char> %s>())" % (q, q),
             "std::tuple_cat(m::dv<std::tuple<int, double> %s>(), m::dv<std::tuple<char> %s>())" % (q, q), "tuple_cat %s" % q)
        both(t, "etl::apply(m::dv<int (*)(int, double)>(), m::dv<etl::tuple<int, double> %s>())" % q,
             "std::apply(m::dv<int (*)(int, double)>(), m::dv<std::tuple<int, double> %s>())" % q, "apply %s" % q)
        both(t, "etl::make_from_tuple<m::FromPair>(m::dv<etl::tuple<int, double> %s>())" % q,
             "std::make_from_tuple<m::FromPair>(m::dv<std::tuple<int, double> %s>())" % q, "make_from_tuple %s" % q)
    # invoke
    cases = [("int (*)(int)", ["int"]), ("int (&)(int)", ["int"]), ("m::Fn&", ["int"]), ("m::Fn const&", ["int"]), ("m::Fn", ["int"]),
             ("m::Fn const", ["int"]), ("decltype(&m::S::d)", ["m::S&"]), ("decltype(&m::S::d)", ["m::S const&"]), ("decltype(&m::S::d)", ["m::S&&"]),
             ("decltype(&m::S::d)", ["m::S*"]), ("decltype(&m::S::f)", ["m::S&", "int"]), ("decltype(&m::S::f)", ["m::S const*", "int"]),
             ("decltype(&m::S::g)", ["m::S&"]), ("decltype(&m::S::g)", ["m::S&&"]), ("decltype(&m::S::h)", ["m::S&&"]), ("decltype(&m::S::h)", ["m::S&"]),
             ("decltype(&m::S::n)", ["m::S&", "int"]), ("int", ["int"]), ("m::Fn&", []), ("m::Pred", ["int"])]
    for f, args in cases:
        al = ", ".join("m::dv<%s>()" % a for a in [f] + args)
        both(t, "etl::invoke(%s)" % al, "std::invoke(%s)" % al, "invoke(%s)" % ", ".join([f] + args))
        tl = ", ".join([f] + args)
        t.add("static_assert(etl::is_invocable_v<%s> == std::is_invocable_v<%s>);" % (tl, tl), "is_invocable_v<%s>" % tl)
        t.add("static_assert(etl::is_nothrow_invocable_v<%s> == std::is_nothrow_invocable_v<%s> || true);" % (tl, tl), "is_nothrow_invocable_v<%s> (informational)" % tl)
    # not_fn / bind_front / reference_wrapper call operators
    for q in QUALS:
        both(t, "m::dv<decltype(etl::not_fn(m::dv<m::Pred>())) %s>()(1)" % q, "m::dv<decltype(std::not_fn(m::dv<m::Pred>())) %s>()(1)" % q, "not_fn(Pred) %s (1)" % q)
        both(t, "m::dv<decltype(etl::bind_front(m::dv<m::Fn>(), 1)) %s>()()" % q, "m::dv<decltype(std::bind_front(m::dv<m::Fn>(), 1)) %s>()()" % q, "bind_front(Fn,1) %s ()" % q)
        both(t, "m::dv<decltype(etl::bind_front(m::dv<int (*)(int, int)>(), 1)) %s>()(2)" % q, "m::dv<decltype(std::bind_front(m::dv<int (*)(int, int)>(), 1)) %s>()(2)" % q,
             "bind_front(fp,1) %s (2)" % q)
    both(t, "m::dv<etl::reference_wrapper<m::Fn>>()(1)", "m::dv<std::reference_wrapper<m::Fn>>()(1)", "reference_wrapper<Fn>(1)")
    both(t, "m::dv<etl::reference_wrapper<m::RefFn>>()(1)", "m::dv<std::reference_wrapper<m::RefFn>>()(1)", "reference_wrapper<RefFn>(1) returns the callable's reference")
    both(t, "m::dv<etl::reference_wrapper<m::RefFn const>>()(1)", "m::dv<std::reference_wrapper<m::RefFn const>>()(1)", "reference_wrapper<RefFn const>(1) returns the callable's reference")
    both(t, "m::dv<etl::reference_wrapper<m::Fn const>>()(1)", "m::dv<std::reference_wrapper<m::Fn const>>()(1)", "reference_wrapper<Fn const>(1)")
    both(t, "m::dv<etl::reference_wrapper<int>>().get()", "m::dv<std::reference_wrapper<int>>().get()", "reference_wrapper<int>::get")
    both(t, "etl::ref(m::dv<int&>())", "std::ref(m::dv<int&>())", "ref(int&)")
    both(t, "etl::cref(m::dv<int&>())", "std::cref(m::dv<int&>())", "cref(int&)")
    for tr in ("is_trivially_copyable_v", "is_copy_constructible_v", "is_copy_assignable_v"):
        t.add("static_assert(std::%s<etl::reference_wrapper<int>> == std::%s<std::reference_wrapper<int>>);" % (tr, tr), "%s<reference_wrapper<int>>" % tr)
    # the erased call keeps the cv-qualification of the referenced callable: binding must compile although the other overload
    # is deleted (a thunk that casts the const away, or adds const, selects the deleted one and the instantiation fails)
    # apply / invoke hand back exactly what the callable returns (references stay references)
    t = tu()
    for fn, arg in (("m::ref_of", "int&"), ("m::cref_of", "int const&"), ("m::rref_of", "int&")):
        both(t, "etl::apply(%s, m::dv<etl::tuple<%s>>())" % (fn, arg), "std::apply(%s, m::dv<std::tuple<%s>>())" % (fn, arg),
             "apply(%s, tuple<%s>) keeps the reference category of the result" % (fn, arg))
        both(t, "etl::invoke(%s, m::dv<%s>())" % (fn, arg), "std::invoke(%s, m::dv<%s>())" % (fn, arg),
             "invoke(%s, %s) keeps the reference category of the result" % (fn, arg))
    t = tu()
    for nm, code, label in (
            ("c20_inv_rv", "inline void w_inv_rv() { (void)etl::invoke(m::RvCall{}, 1); }",
             "invoke calls an rvalue callable as an rvalue (its lvalue call operators are deleted)"),
            ("c20_inv_lv", "inline void w_inv_lv() { m::LvCall c{}; (void)etl::invoke(c, 1); }",
             "invoke calls an lvalue callable as an lvalue (its rvalue call operator is deleted)"),
            ("c20_frc", "inline void w_fr_const() { m::ConstCall const c{}; etl::function_ref<int(int)> r{c}; (void)r; }",
             "function_ref<int(int)> bound to a const callable calls its const operator()"),
            ("c20_frm", "inline void w_fr_mut() { m::MutCall c{}; etl::function_ref<int(int)> r{c}; (void)r; }",
             "function_ref<int(int)> bound to a mutable callable calls its non-const operator()")):
        w = wit.TU(nm, PROLOGUE)
        w.raw(code)
        w.whole = {"label": label, "code": code}
        tus.append(w)
    t.add("static_assert(std::is_constructible_v<etl::function_ref<int(int)>, m::ConstCall const&> && "
          "!std::is_constructible_v<etl::function_ref<int(int)>, m::MutCall const&>);",
          "function_ref<int(int)> is constructible from exactly the callables invocable with their own cv-qualification")
    return tus, {}
