"""W-INST: instantiation completeness - every non-template member of a public class template must compile when the
class is explicitly instantiated (`template struct X<args>;`) for a representative argument matrix."""
import re

from . import wit

PROLOGUE = r"""
#include <etl/string.hpp>
#include <etl/string_view.hpp>
#include <etl/vector.hpp>
#include <etl/inplace_vector.hpp>
#include <etl/set.hpp>
#include <etl/flat_set.hpp>
#include <etl/array.hpp>
#include <etl/span.hpp>
#include <etl/optional.hpp>
#include <etl/variant.hpp>
#include <etl/expected.hpp>
#include <etl/bitset.hpp>
#include <etl/stack.hpp>
#include <etl/functional.hpp>
#include <etl/utility.hpp>
#include <etl/tuple.hpp>
#include <etl/chrono.hpp>
#include <etl/mdspan.hpp>
#include <etl/complex.hpp>
namespace w {
struct NT { NT(); NT(int); NT(NT const&); NT(NT&&) noexcept; NT& operator=(NT const&); NT& operator=(NT&&) noexcept; ~NT(); friend bool operator>(NT const&, NT const&); friend bool operator!=(NT const&, NT const&);
            friend bool operator==(NT const&, NT const&); friend bool operator<(NT const&, NT const&); };
struct TransparentLess { using is_transparent = void; template <class A, class B> constexpr bool operator()(A const& a, B const& b) const { return a < b; } };
}
"""


def member_of(ctx):
    """short member identification from g++'s 'In instantiation of ...' text."""
    if not ctx:
        return "?"
    m = re.search(r"(?:[\w:<>, ]*::)?(~?\w+|operator[^\s(]+)\s*\(", ctx)
    if m:
        name = m.group(1)
        args = ctx[ctx.index(name) + len(name):]
        args = args.split(" [with")[0]
        return (name + args)[:160]
    return ctx[:160]


def run_matrix(chk, rule, name, insts, quick):
    """insts: list of (label, 'template struct ...;' code)"""
    tus = []
    shards = 4 if quick else 8
    for s in range(min(shards, max(1, len(insts)))):
        tus.append(wit.TU("%s_%d" % (name, s), PROLOGUE))
    for i, (label, code) in enumerate(insts):
        tus[i % len(tus)].add(code, label, kind="inst")
    res = wit.compile_many(tus, compiler="g++", jobs=16)
    for tu in tus:
        results, unattributed = res[tu.name]
        for line, ob in sorted(tu.obl.items()):
            errs = results.get(line, [])
            ctxs = tu.contexts.get(line, [])
            chk.obligation(rule, ob["label"], not errs, nontrivial=True)
            if errs:
                seen = set()
                for msg, cx in zip(errs, ctxs):
                    mem = member_of(cx)
                    mem = re.sub(r"\b(?:Char|char|wchar_t|char8_t|char16_t|char32_t)\b", "C", mem)
                    mem = re.sub(r"\d+", "N", mem)
                    key = mem
                    if key in seen:
                        continue
                    seen.add(key)
                    cls = ob["label"].split("<")[0]
                    chk.violation(rule, cls + " :: " + mem, "does-not-instantiate",
                                  "%s: member does not compile when instantiated: %s" % (ob["label"], msg[:200]),
                                  {"instantiation": ob["code"], "member_context": cx, "error": msg})
        if unattributed:
            chk.analysis_broken("W-INST TU %s: %d error(s) outside any instantiation, first: %s" % (
                tu.name, len(unattributed), str(unattributed[0])[:300]))
        chk.instance(rule + ":" + tu.name, len(tu.obl))
    return sum(len(t.obl) for t in tus)


def string_matrix(quick):
    chars = ["char", "wchar_t", "char8_t", "char16_t", "char32_t"]
    caps = [1, 7, 15, 16, 31, 255, 256] if not quick else [1, 15, 16, 256]
    out = []
    for c in chars:
        for n in caps:
            out.append(("basic_inplace_string<%s, %d>" % (c, n), "template struct etl::basic_inplace_string<%s, %d>;" % (c, n)))
        out.append(("basic_string_view<%s>" % c, "template struct etl::basic_string_view<%s>;" % c))
    return out


def set_matrix(quick):
    out = []
    for k in ("int", "w::NT"):
        for n in (1, 4) if quick else (1, 4, 255, 256):
            for cmp_ in ("etl::less<%s>" % k, "etl::greater<%s>" % k, "etl::less<>", "w::TransparentLess"):
                out.append(("static_set<%s, %d, %s>" % (k, n, cmp_), "template struct etl::static_set<%s, %d, %s>;" % (k, n, cmp_)))
        for cont in ("etl::static_vector<%s, 4>" % k, "etl::inplace_vector<%s, 4>" % k):
            for cmp_ in ("etl::less<%s>" % k, "etl::less<>"):
                out.append(("flat_set<%s, %s, %s>" % (k, cont, cmp_), "template struct etl::flat_set<%s, %s, %s>;" % (k, cont, cmp_)))
                out.append(("flat_multiset<%s, %s, %s>" % (k, cont, cmp_), "template struct etl::flat_multiset<%s, %s, %s>;" % (k, cont, cmp_)))
    return out


def vector_matrix(quick):
    out = []
    for t in ("int", "w::NT"):
        for n in (0, 1, 4, 255, 256):
            out.append(("static_vector<%s, %d>" % (t, n), "template struct etl::static_vector<%s, %d>;" % (t, n)))
            out.append(("inplace_vector<%s, %d>" % (t, n), "template struct etl::inplace_vector<%s, %d>;" % (t, n)))
        out.append(("stack<%s, static_vector>" % t, "template struct etl::stack<%s, etl::static_vector<%s, 4>>;" % (t, t)))
    return out
