// g++ -std=c++20 -I/repo/include demo.cpp -o demo && ./demo
// [expected.object.monadic]: and_then / or_else hand the stored value (or error) on with the value category of *this:
//   &  -> T&      const& -> T const&      && -> T&&      const&& -> T const&&
// (libstdc++ 12 has no monadic operations yet, so the expectation is the standard's wording, not a std:: run)
#include <etl/expected.hpp>
#include <etl/utility.hpp>
#include <cstdio>
struct V { int v; };
struct cat {
    auto operator()(V&) const -> etl::expected<int, int> { return etl::expected<int, int>{etl::in_place, 1}; }
    auto operator()(V const&) const -> etl::expected<int, int> { return etl::expected<int, int>{etl::in_place, 2}; }
    auto operator()(V&&) const -> etl::expected<int, int> { return etl::expected<int, int>{etl::in_place, 3}; }
    auto operator()(V const&&) const -> etl::expected<int, int> { return etl::expected<int, int>{etl::in_place, 4}; }
};
int main()
{
    etl::expected<V, int> e{etl::in_place, V{7}};
    etl::expected<V, int> const c{etl::in_place, V{7}};
    auto const a = *e.and_then(cat{});
    auto const b = *c.and_then(cat{});
    auto const d = *etl::move(e).and_then(cat{});
    auto const f = *etl::move(c).and_then(cat{});
    auto const got = a * 1000 + b * 100 + d * 10 + f;
    if (got != 1234) { std::printf("MISMATCH and_then value categories (&, const&, &&, const&&): standard=1234 etl=%04d\n", got); return 1; }
    std::puts("OK");
    return 0;
}
