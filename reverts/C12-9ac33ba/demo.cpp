// g++ -std=c++20 -I/repo/include /tmp/tp_demo.cpp -o /tmp/tp_demo && /tmp/tp_demo
#include <etl/chrono.hpp>
#include <chrono>
#include <cstdio>
struct clk { using duration = etl::chrono::milliseconds; };
int main()
{
    using namespace etl::chrono;
    auto const coarse = time_point<clk, seconds>{seconds{3}};
    time_point<clk, milliseconds> fine{coarse};      // [time.point.cons]: converting constructor
    auto const want = std::chrono::time_point<std::chrono::system_clock, std::chrono::milliseconds>{
        std::chrono::time_point<std::chrono::system_clock, std::chrono::seconds>{std::chrono::seconds{3}}}.time_since_epoch().count();
    if (fine.time_since_epoch().count() != want) { std::printf("MISMATCH %lld %lld\n", (long long)fine.time_since_epoch().count(), (long long)want); return 1; }
    std::puts("OK");
    return 0;
}
