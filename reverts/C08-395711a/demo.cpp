#include <etl/string_view.hpp>
#include <etl/string.hpp>
#include <string_view>
#include <string>
#include <cstdio>
int main() {
    char const a[] = {char(0x80), 0};
    char const b[] = {'a', 0};
    etl::string_view ea{a, 1}, eb{b, 1};
    std::string_view sa{a, 1}, sb{b, 1};
    std::printf("etl: a<b=%d a>b=%d a<=b=%d a>=b=%d compare=%d\n", ea < eb, ea > eb, ea <= eb, ea >= eb, ea.compare(eb));
    std::printf("std: a<b=%d a>b=%d a<=b=%d a>=b=%d compare=%d\n", sa < sb, sa > sb, sa <= sb, sa >= sb, sa.compare(sb) > 0 ? 1 : -1);
    etl::inplace_string<8> ia{a, 1}, ib{b, 1};
    std::string ta{a, 1}, tb{b, 1};
    std::printf("etl string: a<b=%d compare=%d ; std string: a<b=%d\n", ia < ib, ia.compare(ib), ta < tb);
    return 0;
}
