// etl::strncat reads src[count]: one element past a full, unterminated source field
#include <etl/cstring.hpp>
#include <cstdio>
constexpr auto probe() -> bool
{
    char dest[8] = {'a', 0};
    char const field[3] = {'x', 'y', 'z'};        // exactly count characters, no terminator (valid for strncat)
    etl::strncat(dest, field, 3);
    return dest[1] == 'x' and dest[3] == 'z' and dest[4] == 0;
}
#ifdef CONSTANT
static_assert(probe());      // fails to compile: "array subscript value '3' is outside the bounds of array 'field'"
#endif
int main()
{
    auto* field = new char[3]{'x', 'y', 'z'};
    char dest[8] = {'a', 0};
    etl::strncat(dest, field, 3);                 // AddressSanitizer: heap-buffer-overflow READ of size 1
    std::printf("%s\n", dest);
    delete[] field;
    return 0;
}
