#!/bin/bash
# tools/try.sh <seeded-or-refactor-name> <PROP> [dir]: apply the patch to /repo, run one check (evidence redirected), undo
cd /verif
n=$1; p=$2; dir=${3:-seeded}
git -C /repo apply /verif/$dir/$n/patch.diff || exit 2
d=$(mktemp -d)
TETL_VERIF_OUT=$d ./check $p > $d/out.txt 2>&1; rc=$?
grep -B1 "^VIOLATION\|^ANALYSIS-BROKEN" $d/out.txt | grep -v "^--" | cut -c1-${WIDTH:-320}
echo "[$n $p exit=$rc]"
rm -rf $d
git -C /repo checkout -- .
