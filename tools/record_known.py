#!/usr/bin/env python3
"""Manual triage helper (never run by a check): turn the reports of the last run of <PROP> into known-finding entries.
usage: record_known.py <PROP> <note> [--rule R] [--match substring]
Only to be used after each report has been replayed and confirmed as a genuine defect (DESIGN.md 7.4)."""
import collections
import glob
import json
import sys

prop, note = sys.argv[1], sys.argv[2]
rule_f = None
match = None
if "--rule" in sys.argv:
    rule_f = sys.argv[sys.argv.index("--rule") + 1]
if "--match" in sys.argv:
    match = sys.argv[sys.argv.index("--match") + 1]
p = "/verif/known_findings.json"
d = json.load(open(p))
groups = collections.defaultdict(list)
wit = {}
for f in sorted(glob.glob("/verif/reports/%s/*.json" % prop)):
    v = json.load(open(f))
    if rule_f and v["rule"] != rule_f:
        continue
    if match and match not in v["construct"] and match not in v["message"]:
        continue
    groups[(v["rule"], v["witness_class"])].append(v["construct"])
    wit[(v["rule"], v["witness_class"])] = v["message"][:300]
n = 0
for (rule, wc), labs in sorted(groups.items()):
    d["findings"].append({"status": "known", "property": prop, "rule": rule, "witness_class": wc, "note": note,
                          "example": wit[(rule, wc)], "constructs": sorted(set(labs))})
    n += len(set(labs))
json.dump(d, open(p, "w"), indent=1)
print("recorded", n)
