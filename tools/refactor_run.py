#!/usr/bin/env python3
"""Run the registered checks against every behaviour-preserving refactoring in /verif/refactors: every check must stay
silent (exit 0). Writes refactors/INDEX.md + refactors/results.json. Derived from seeded_run.py.

Original docstring of seeded_run.py:

For each /verif/seeded/<name>/patch.diff: `git -C /repo apply`, run every claimed check (quick tier; output redirected with
TETL_VERIF_OUT so that the evidence of the unchanged tree is not overwritten), `git -C /repo checkout -- .`.
usage: tools/seeded_run.py [name ...] [--own]     (--own: run only the check of the change's own property)
"""
import concurrent.futures
import json
import os
import re
import shutil
import subprocess
import sys
import tempfile

VERIF = os.path.dirname(os.path.dirname(os.path.abspath(__file__)))
# TETL_CORPUS_WT=<scratch worktree>: apply the patches there and analyse that tree (TETL_REPO) instead of /repo, so several
# shards (--shard=i/n, then --merge) can run side by side and /repo stays untouched (see tools/corpus_par.sh)
REPO = os.environ.get("TETL_CORPUS_WT", "/repo")
SEEDED = os.path.join(VERIF, "refactors")


def claimed():
    m = json.load(open(os.path.join(VERIF, "MANIFEST.json")))
    return sorted(c["property_id"] for c in m["checks"])


def run_check(pid, out):
    env = dict(os.environ, TETL_VERIF_OUT=out)
    if REPO != "/repo":
        env["TETL_REPO"] = REPO
    r = subprocess.run([os.path.join(VERIF, "check"), pid], capture_output=True, text=True, env=env, cwd=VERIF)
    lines = r.stdout.split("\n")
    viol = []
    for i, ln in enumerate(lines):
        if ln.startswith("VIOLATION "):
            viol.append(lines[i - 1].strip()[:400] if i else "")
    broken = [ln for ln in lines if ln.startswith("ANALYSIS-BROKEN")]
    return pid, r.returncode, viol, broken


def main():
    args = [a for a in sys.argv[1:] if not a.startswith("--")]
    own = "--own" in sys.argv
    names = args or sorted(d for d in os.listdir(SEEDED) if os.path.isfile(os.path.join(SEEDED, d, "patch.diff")))
    if subprocess.run(["git", "-C", REPO, "status", "--porcelain", "--untracked-files=no"], capture_output=True, text=True).stdout.strip():
        sys.exit("/repo working tree is not clean")
    resfile = os.path.join(SEEDED, "results.json")
    results = json.load(open(resfile)) if os.path.exists(resfile) else {}
    shard = [a for a in sys.argv[1:] if a.startswith("--shard=")]
    merge = "--merge" in sys.argv
    if shard:
        i, n = [int(x) for x in shard[0].split("=", 1)[1].split("/")]
        names = names[i::n]
        resfile = os.path.join(SEEDED, "results.shard%d.json" % i)
        results = {}
    if merge:
        names = []
        import glob
        for sf in sorted(glob.glob(os.path.join(SEEDED, "results.shard*.json"))):
            results.update(json.load(open(sf)))
            os.remove(sf)
    props = claimed()
    for name in names:
        d = os.path.join(SEEDED, name)
        meta = json.load(open(os.path.join(d, "meta.json")))
        out = tempfile.mkdtemp(prefix="tetl-refac-")
        try:
            if subprocess.run(["git", "-C", REPO, "apply", "--check", os.path.join(d, "patch.diff")], capture_output=True).returncode != 0:
                print("%-8s DOES-NOT-APPLY (re-base the patch onto /repo HEAD)" % name)
                continue
            subprocess.run(["git", "-C", REPO, "apply", os.path.join(d, "patch.diff")], check=True)
            todo = props
            with concurrent.futures.ThreadPoolExecutor(max_workers=8) as ex:
                rs = list(ex.map(lambda p: run_check(p, out), todo))
        finally:
            subprocess.run(["git", "-C", REPO, "checkout", "--", "."], check=True)
            shutil.rmtree(out, ignore_errors=True)
        caught = dict((p, v) for p, rc, v, b in rs if rc == 1)
        broken = dict((p, b) for p, rc, v, b in rs if rc not in (0, 1))
        results[name] = {"area": meta.get("area", ""), "summary": meta.get("summary", ""), "files": meta.get("files", []),
                         "alarms": caught, "analysis_broken": broken}
        print("%-8s alarms=%s broken=%s" % (name, sorted(caught), sorted(broken)))
        for p, v in caught.items():
            for x in v[:3]:
                print("      %s: %s" % (p, x[:220]))
    json.dump(results, open(resfile, "w"), indent=1, sort_keys=True)
    if shard:
        return
    with open(os.path.join(SEEDED, "INDEX.md"), "w") as f:
        f.write("# Behaviour-preserving refactorings (made by sub-agents) - every check must stay silent\n\n")
        f.write("Each patch applies to /repo HEAD, the 261 tests pass with it. `alarms` lists checks that exit 1 or 2 with the patch\n"
                "applied (a false alarm: the machinery is corrected, the patch stays here as a regression case).\n\n")
        f.write("| refactoring | what | alarms |\n|---|---|---|\n")
        for name in sorted(results):
            r = results[name]
            al = "; ".join("%s: %s" % (p, (v[0] if v else "").replace("|", "\\|")[:160]) for p, v in sorted(r["alarms"].items()))
            if r["analysis_broken"]:
                al += " ANALYSIS-BROKEN in " + ",".join(sorted(r["analysis_broken"]))
            f.write("| %s | %s | %s |\n" % (name, r["summary"].replace("|", "\\|")[:220], al or "none"))
        n = len(results)
        k = sum(1 for r in results.values() if not r["alarms"] and not r["analysis_broken"])
        f.write("\n%d refactorings; %d leave every check silent.\n" % (n, k))


if __name__ == "__main__":
    main()
