import json,sys,subprocess
prop,commit,what=sys.argv[1:4]
p='/verif/known_findings.json'
d=json.load(open(p))
d["findings"].append({"status":"fixed","property":prop,"commit":commit,"what":what,"text":"fixed: property=%s %s %s"%(prop,commit,what)})
json.dump(d,open(p,'w'),indent=1)
import os
rd='/verif/reverts/%s-%s'%(prop,commit)
os.makedirs(rd,exist_ok=True)
open(rd+'/patch.diff','w').write(subprocess.run(["git","-C","/repo","show",commit,"-R","--format="],capture_output=True,text=True).stdout)
json.dump({"property":prop,"summary":"revert of fix %s: %s"%(commit,what),"files":[],"applies":True},open(rd+'/meta.json','w'),indent=1)
