#!/bin/bash
# tools/try_wt.sh <name> <PROP> [dir]: like try.sh, but applies the patch to a scratch worktree (TETL_WT, default /tmp/wt/TRY)
# and runs the check with TETL_REPO pointing there, so /repo is not touched (usable while a corpus run is using /repo)
cd /verif
n=$1; p=$2; dir=${3:-seeded}; wt=${TETL_WT:-/tmp/wt/TRY}
[ -d $wt ] || git -C /repo worktree add -q --detach $wt HEAD || exit 2
git -C $wt checkout -q -- . ; git -C $wt apply /verif/$dir/$n/patch.diff || exit 2
d=$(mktemp -d)
TETL_REPO=$wt TETL_VERIF_OUT=$d ./check $p > $d/out.txt 2>&1; rc=$?
grep -B1 "^VIOLATION\|^ANALYSIS-BROKEN" $d/out.txt | grep -v "^--" | cut -c1-${WIDTH:-320}
echo "[$n $p exit=$rc]"
rm -rf $d
git -C $wt checkout -q -- .
