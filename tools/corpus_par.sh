#!/bin/bash
# tools/corpus_par.sh <refactors|seeded|reverts> [N=4] [--own]: run a corpus in N shards, each on its own scratch worktree of
# /repo's HEAD (under /tmp/wt/cr_<i>, removed afterwards); /repo itself is not touched. Results are merged into
# <corpus>/results.json and INDEX.md exactly as the sequential tools write them.
cd "$(dirname "$0")/.."
corpus=$1; n=${2:-4}; shift; shift
case $corpus in
  refactors) tool="tools/refactor_run.py"; extra="";;
  seeded)    tool="tools/seeded_run.py"; extra="";;
  reverts)   tool="tools/seeded_run.py"; extra="--dir=reverts";;
  *) echo "unknown corpus"; exit 2;;
esac
for i in $(seq 0 $((n-1))); do
  wt=/tmp/wt/cr_${corpus}_$i
  git -C /repo worktree remove --force $wt 2>/dev/null
  git -C /repo worktree add -q --detach $wt HEAD || exit 2
  ( TETL_CORPUS_WT=$wt python3 $tool $extra --shard=$i/$n "$@" ) &
done
wait
for i in $(seq 0 $((n-1))); do git -C /repo worktree remove --force /tmp/wt/cr_${corpus}_$i; done
python3 $tool $extra --merge "$@" | tail -3
echo done
