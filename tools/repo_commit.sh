#!/bin/sh
# usage: repo_commit.sh <commit message file>  -- builds /repo, runs the suite, commits only if both succeed
set -e
cd /repo
if ! cmake --build _build -j16 > /tmp/repo_build.log 2>&1; then
    echo "BUILD FAILED"; grep -E "error" /tmp/repo_build.log | head -5; exit 1
fi
if ! ctest --test-dir _build -j16 --timeout 900 > /tmp/repo_test.log 2>&1; then
    echo "TESTS FAILED"; tail -5 /tmp/repo_test.log; exit 1
fi
grep "tests passed" /tmp/repo_test.log
git commit -q -a -F "$1"
git log --oneline | head -1
