#!/bin/sh
# run every registered check (quick tier) in parallel; one summary line each
cd "$(dirname "$0")/.."
for p in $(python3 -c "import json;print(' '.join(c['property_id'] for c in json.load(open('MANIFEST.json'))['checks']))"); do
  ( ./check $p ${1:+--tier $1} >/tmp/chk_$p.log 2>&1; echo "$p exit=$? $(grep "^\[$p\]" /tmp/chk_$p.log | cut -c1-100)" ) &
done 2>/dev/null
wait
