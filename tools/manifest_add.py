#!/usr/bin/env python3
"""usage: manifest_add.py <ID> <engines comma> <technique> <level text> <design ref> <level note>  (replaces an existing entry)"""
import json, sys
pid, engines, technique, text, ref, note = sys.argv[1:7]
p = "/verif/MANIFEST.json"
m = json.load(open(p))
m["checks"] = [c for c in m["checks"] if c["property_id"] != pid]
m["checks"].append({
    "property_id": pid, "quick_cmd": "./check %s --tier quick" % pid, "thorough_cmd": "./check %s --tier thorough" % pid,
    "evidence_file": "evidence/%s.json" % pid, "replay_cmd_template": "./check %s --replay {path}" % pid,
    "engine": engines.replace(",", " + "), "technique": technique,
    "level_claimed": {"category": "other", "text": text, "design_ref": ref}, "level_note": note})
m["checks"].sort(key=lambda c: c["property_id"])
for e in m["engines"]:
    if e["name"] in engines.split(",") and pid not in e["serves_properties"]:
        e["serves_properties"].append(pid)
        e["serves_properties"].sort()
json.dump(m, open(p, "w"), indent=1)
print("ok", [c["property_id"] for c in m["checks"]])
