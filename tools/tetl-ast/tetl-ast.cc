// tetl-ast: libTooling extractor for the tetl static checks.
//
// Usage: tetl-ast <root-prefix> <out.jsonl> <source.cpp> -- <compiler flags>
//
// Emits one JSON object per line:
//   {"t":"func", ...}    every FunctionDecl with a body spelled under <root-prefix>
//   {"t":"record", ...}  every CXXRecordDecl definition under <root-prefix>
//   {"t":"var", ...}     namespace-scope / static member variables under <root-prefix>
//   {"t":"alias", ...}   namespace-scope alias (templates) under <root-prefix>
//   {"t":"skipped", ...} preprocessor ranges skipped under <root-prefix>
//   {"t":"macro", ...}   TETL_* macro definitions
//   {"t":"diag", ...}    error diagnostics
//   {"t":"summary", ...} counts
//
// Template *patterns* are visited, implicit instantiations are not.

#include "clang/AST/ASTConsumer.h"
#include "clang/AST/ASTContext.h"
#include "clang/AST/DeclCXX.h"
#include "clang/AST/DeclFriend.h"
#include "clang/AST/DeclTemplate.h"
#include "clang/AST/ExprCXX.h"
#include "clang/AST/ExprConcepts.h"
#include "clang/AST/RecursiveASTVisitor.h"
#include "clang/AST/StmtCXX.h"
#include "clang/Basic/Diagnostic.h"
#include "clang/Basic/SourceManager.h"
#include "clang/Frontend/CompilerInstance.h"
#include "clang/Frontend/FrontendAction.h"
#include "clang/Lex/Lexer.h"
#include "clang/Lex/MacroInfo.h"
#include "clang/Lex/PPCallbacks.h"
#include "clang/Lex/Preprocessor.h"
#include "clang/Tooling/CompilationDatabase.h"
#include "clang/Tooling/Tooling.h"
#include "llvm/Support/JSON.h"
#include "llvm/Support/raw_ostream.h"

#include <memory>
#include <string>
#include <vector>

using namespace clang;
namespace json = llvm::json;

static std::string gRoot;
static std::unique_ptr<llvm::raw_fd_ostream> gOut;
static unsigned gFuncs = 0, gRecords = 0, gVars = 0, gErrors = 0;

static void emit(json::Object o)
{
    json::Value v(std::move(o));
    *gOut << v << "\n";
}

namespace {

struct Ser {
    ASTContext& ctx;
    SourceManager& sm;
    PrintingPolicy pp;

    explicit Ser(ASTContext& c) : ctx(c), sm(c.getSourceManager()), pp(c.getLangOpts())
    {
        pp.adjustForCPlusPlus();
        pp.SuppressTagKeyword = true;
        pp.FullyQualifiedName = false;
        pp.PrintCanonicalTypes = false;
        pp.TerseOutput = true;
    }

    std::string fileOf(SourceLocation loc) const
    {
        if (loc.isInvalid()) { return ""; }
        auto l = sm.getExpansionLoc(loc);
        return sm.getFilename(l).str();
    }
    unsigned lineOf(SourceLocation loc) const
    {
        if (loc.isInvalid()) { return 0; }
        return sm.getExpansionLineNumber(loc);
    }
    bool inRoot(SourceLocation loc) const
    {
        auto f = fileOf(loc);
        if (f.empty()) { return false; }
        if (f.compare(0, gRoot.size(), gRoot) == 0) { return true; }
        // root may also be given as a path fragment (system headers are reached through non-normalised paths)
        return gRoot[0] != '/' && f.find(gRoot) != std::string::npos;
    }
    std::string relFile(SourceLocation loc) const
    {
        auto f = fileOf(loc);
        if (f.compare(0, gRoot.size(), gRoot) == 0) { return f.substr(gRoot.size()); }
        return f;
    }

    std::string text(SourceRange r, size_t limit = 240) const
    {
        if (r.isInvalid()) { return ""; }
        auto b = sm.getExpansionLoc(r.getBegin());
        auto e = sm.getExpansionRange(r.getEnd()).getEnd();
        auto cr = CharSourceRange::getTokenRange(b, e);
        bool invalid = false;
        auto s = Lexer::getSourceText(cr, sm, ctx.getLangOpts(), &invalid).str();
        if (invalid) { return ""; }
        std::string out;
        bool sp = false;
        for (char c : s) {
            if (c == '\n' || c == '\t' || c == ' ' || c == '\r' || c == '\\') {
                if (c == '\\') { continue; }
                sp = true;
                continue;
            }
            if (sp && !out.empty()) { out.push_back(' '); }
            sp = false;
            out.push_back(c);
            if (out.size() >= limit) { out += "..."; break; }
        }
        return out;
    }

    json::Value macros(SourceLocation loc) const
    {
        json::Array a;
        int guard = 0;
        while (loc.isMacroID() && guard++ < 16) {
            auto name = Lexer::getImmediateMacroName(loc, sm, ctx.getLangOpts());
            if (!name.empty()) {
                bool dup = !a.empty() && a.back().getAsString() && *a.back().getAsString() == name;
                if (!dup) { a.push_back(name.str()); }
            }
            if (sm.isMacroArgExpansion(loc)) {
                loc = sm.getImmediateExpansionRange(loc).getBegin();
            } else {
                loc = sm.getImmediateExpansionRange(loc).getBegin();
            }
        }
        return json::Value(std::move(a));
    }

    std::string ty(QualType t) const
    {
        if (t.isNull()) { return ""; }
        return t.getAsString(pp);
    }

    std::string qname(NamedDecl const* d) const
    {
        if (d == nullptr) { return ""; }
        std::string s;
        llvm::raw_string_ostream os(s);
        d->printQualifiedName(os, pp);
        return os.str();
    }

    std::string nnsText(NestedNameSpecifier const* q) const
    {
        if (q == nullptr) { return ""; }
        std::string s;
        llvm::raw_string_ostream os(s);
        q->print(os, pp);
        return os.str();
    }

    std::string declName(DeclarationName n) const { return n.getAsString(); }

    // ---------------------------------------------------------------- templates
    json::Value tparams(TemplateParameterList const* tpl) const
    {
        json::Array a;
        if (tpl == nullptr) { return json::Value(std::move(a)); }
        for (auto const* p : *tpl) {
            json::Object o;
            o["n"] = p->getNameAsString();
            if (auto const* t = dyn_cast<TemplateTypeParmDecl>(p)) {
                o["k"]    = "type";
                o["pack"] = t->isParameterPack();
                if (t->hasDefaultArgument()) { o["def"] = ty(t->getDefaultArgument()); }
                if (auto const* tc = t->getTypeConstraint()) {
                    if (auto const* ic = tc->getImmediatelyDeclaredConstraint()) { o["constraint"] = text(ic->getSourceRange()); }
                }
            } else if (auto const* nt = dyn_cast<NonTypeTemplateParmDecl>(p)) {
                o["k"]    = "nttp";
                o["ty"]   = ty(nt->getType());
                o["pack"] = nt->isParameterPack();
                if (nt->hasDefaultArgument()) { o["def"] = text(nt->getDefaultArgument()->getSourceRange()); }
            } else {
                o["k"] = "template";
            }
            a.push_back(std::move(o));
        }
        return json::Value(std::move(a));
    }

    std::string targs(ArrayRef<TemplateArgumentLoc> args) const
    {
        std::string s;
        llvm::raw_string_ostream os(s);
        bool first = true;
        for (auto const& a : args) {
            if (!first) { os << ", "; }
            first = false;
            a.getArgument().print(pp, os, true);
        }
        return os.str();
    }

    // ---------------------------------------------------------------- expressions
    json::Value exprOrNull(Expr const* e)
    {
        if (e == nullptr) { return nullptr; }
        return expr(e);
    }

    json::Value args(ArrayRef<Expr const*> as)
    {
        json::Array a;
        for (auto const* x : as) { a.push_back(exprOrNull(x)); }
        return json::Value(std::move(a));
    }

    template <typename It>
    json::Value argsRange(It b, It e)
    {
        json::Array a;
        for (; b != e; ++b) { a.push_back(exprOrNull(*b)); }
        return json::Value(std::move(a));
    }

    json::Value refTo(ValueDecl const* d)
    {
        json::Object o;
        o["k"] = "ref";
        o["n"] = d->getNameAsString();
        if (auto const* p = dyn_cast<ParmVarDecl>(d)) {
            o["d"]  = "param";
            o["i"]  = p->getFunctionScopeIndex();
            o["sd"] = p->getFunctionScopeDepth();
            o["ty"] = ty(p->getType());
        } else if (auto const* v = dyn_cast<VarDecl>(d)) {
            if (v->isLocalVarDecl()) {
                o["d"]  = "local";
                o["ty"] = ty(v->getType());
            } else {
                o["d"]  = "var";
                o["q"]  = qname(v);
                o["ty"] = ty(v->getType());
            }
        } else if (isa<NonTypeTemplateParmDecl>(d)) {
            o["d"]  = "nttp";
            o["ty"] = ty(d->getType());
        } else if (auto const* f = dyn_cast<FunctionDecl>(d)) {
            o["d"] = "func";
            o["q"] = qname(f);
        } else if (isa<EnumConstantDecl>(d)) {
            o["d"] = "enum";
            o["q"] = qname(d);
        } else if (isa<FieldDecl>(d)) {
            o["d"] = "field";
            o["q"] = qname(d);
        } else if (isa<BindingDecl>(d)) {
            o["d"] = "binding";
        } else {
            o["d"] = d->getDeclKindName();
            o["q"] = qname(d);
        }
        return json::Value(std::move(o));
    }

    static char const* castKindName(Expr const* e)
    {
        if (isa<CXXStaticCastExpr>(e)) { return "static"; }
        if (isa<CXXReinterpretCastExpr>(e)) { return "reinterpret"; }
        if (isa<CXXConstCastExpr>(e)) { return "const"; }
        if (isa<CXXDynamicCastExpr>(e)) { return "dynamic"; }
        if (isa<CXXFunctionalCastExpr>(e)) { return "functional"; }
        if (isa<CStyleCastExpr>(e)) { return "cstyle"; }
        if (isa<BuiltinBitCastExpr>(e)) { return "bitcast"; }
        return "other";
    }

    json::Value implicitThis()
    {
        json::Object o;
        o["k"]        = "this";
        o["implicit"] = true;
        return json::Value(std::move(o));
    }

    json::Value lambda(LambdaExpr const* le)
    {
        json::Object o;
        o["k"] = "lambda";
        json::Array caps;
        for (auto const& c : le->captures()) {
            json::Object co;
            if (c.capturesThis()) {
                co["n"] = "this";
            } else if (c.capturesVariable()) {
                co["n"] = c.getCapturedVar()->getNameAsString();
            }
            co["byref"] = c.getCaptureKind() == LCK_ByRef;
            caps.push_back(std::move(co));
        }
        o["captures"] = std::move(caps);
        o["default"]  = le->getCaptureDefault() == LCD_ByRef ? "&" : (le->getCaptureDefault() == LCD_ByCopy ? "=" : "");
        if (auto const* m = le->getCallOperator()) {
            o["params"] = params(m);
            o["ret"]    = ty(m->getReturnType());
        }
        if (auto const* tpl = le->getTemplateParameterList()) { o["tparams"] = tparams(tpl); }
        o["body"] = stmt(le->getBody());
        o["line"] = lineOf(le->getBeginLoc());
        return json::Value(std::move(o));
    }

    json::Value expr(Expr const* e)
    {
        if (e == nullptr) { return nullptr; }
        // transparent wrappers
        if (auto const* x = dyn_cast<ParenExpr>(e)) { return expr(x->getSubExpr()); }
        if (auto const* x = dyn_cast<ImplicitCastExpr>(e)) { return expr(x->getSubExpr()); }
        if (auto const* x = dyn_cast<ExprWithCleanups>(e)) { return expr(x->getSubExpr()); }
        if (auto const* x = dyn_cast<MaterializeTemporaryExpr>(e)) { return expr(x->getSubExpr()); }
        if (auto const* x = dyn_cast<CXXBindTemporaryExpr>(e)) { return expr(x->getSubExpr()); }
        if (auto const* x = dyn_cast<ConstantExpr>(e)) { return expr(x->getSubExpr()); }
        if (auto const* x = dyn_cast<SubstNonTypeTemplateParmExpr>(e)) { return expr(x->getReplacement()); }
        if (auto const* x = dyn_cast<CXXDefaultInitExpr>(e)) { return expr(x->getExpr()); }

        json::Object o;
        if (auto const* x = dyn_cast<DeclRefExpr>(e)) {
            auto v = refTo(x->getDecl());
            if (x->hasExplicitTemplateArgs()) {
                v.getAsObject()->try_emplace("targs", targs(x->template_arguments()));
            }
            if (x->hasQualifier()) { v.getAsObject()->try_emplace("qual", nnsText(x->getQualifier())); }
            return v;
        }
        if (auto const* x = dyn_cast<MemberExpr>(e)) {
            o["k"] = "mem";
            o["n"] = x->getMemberDecl()->getNameAsString();
            o["b"] = x->isImplicitAccess() ? implicitThis() : expr(x->getBase());
            o["arrow"] = x->isArrow();
            o["dk"]    = isa<FieldDecl>(x->getMemberDecl()) ? "field" : (isa<CXXMethodDecl>(x->getMemberDecl()) ? "method" : "other");
            o["q"]     = qname(x->getMemberDecl());
            if (x->hasQualifier()) { o["qual"] = nnsText(x->getQualifier()); }
            if (x->hasExplicitTemplateArgs()) { o["targs"] = targs(x->template_arguments()); }
            return json::Value(std::move(o));
        }
        if (auto const* x = dyn_cast<CXXDependentScopeMemberExpr>(e)) {
            o["k"]     = "mem";
            o["n"]     = declName(x->getMember());
            o["b"]     = x->isImplicitAccess() ? implicitThis() : expr(x->getBase());
            o["arrow"] = x->isArrow();
            o["dep"]   = true;
            if (x->getQualifier() != nullptr) { o["qual"] = nnsText(x->getQualifier()); }
            if (x->hasExplicitTemplateArgs()) { o["targs"] = targs(x->template_arguments()); }
            return json::Value(std::move(o));
        }
        if (auto const* x = dyn_cast<UnresolvedMemberExpr>(e)) {
            o["k"]     = "mem";
            o["n"]     = declName(x->getMemberName());
            o["b"]     = x->isImplicitAccess() ? implicitThis() : expr(x->getBase());
            o["arrow"] = x->isArrow();
            o["unres"] = true;
            if (x->getQualifier() != nullptr) { o["qual"] = nnsText(x->getQualifier()); }
            json::Array c;
            for (auto const* d : x->decls()) { c.push_back(qname(d)); }
            o["cands"] = std::move(c);
            if (x->hasExplicitTemplateArgs()) { o["targs"] = targs(x->template_arguments()); }
            return json::Value(std::move(o));
        }
        if (auto const* x = dyn_cast<UnresolvedLookupExpr>(e)) {
            o["k"] = "ref";
            o["n"] = declName(x->getName());
            o["d"] = "unresolved";
            if (x->getQualifier() != nullptr) { o["qual"] = nnsText(x->getQualifier()); }
            json::Array c;
            int n = 0;
            for (auto const* d : x->decls()) {
                if (n++ >= 12) { break; }
                c.push_back(qname(d));
            }
            o["cands"] = std::move(c);
            o["adl"]   = x->requiresADL();
            if (x->hasExplicitTemplateArgs()) { o["targs"] = targs(x->template_arguments()); }
            return json::Value(std::move(o));
        }
        if (auto const* x = dyn_cast<DependentScopeDeclRefExpr>(e)) {
            o["k"]    = "ref";
            o["n"]    = declName(x->getDeclName());
            o["d"]    = "depscope";
            o["qual"] = nnsText(x->getQualifier());
            if (x->hasExplicitTemplateArgs()) { o["targs"] = targs(x->template_arguments()); }
            return json::Value(std::move(o));
        }
        if (auto const* x = dyn_cast<CXXOperatorCallExpr>(e)) {
            auto op   = x->getOperator();
            auto spel = std::string(getOperatorSpelling(op));
            std::string q;
            if (auto const* cd = x->getDirectCallee()) { q = qname(cd); }
            unsigned n = x->getNumArgs();
            if (op == OO_Call) {
                o["k"] = "call";
                o["f"] = expr(x->getArg(0));
                json::Array a;
                for (unsigned i = 1; i < n; ++i) { a.push_back(expr(x->getArg(i))); }
                o["a"]    = std::move(a);
                o["ovl"]  = q;
                o["opcall"] = true;
                return json::Value(std::move(o));
            }
            if (op == OO_Subscript && n == 2) {
                o["k"]   = "idx";
                o["b"]   = expr(x->getArg(0));
                o["i"]   = expr(x->getArg(1));
                o["ovl"] = q;
                return json::Value(std::move(o));
            }
            if (op == OO_Arrow) {
                o["k"]   = "un";
                o["op"]  = "->";
                o["e"]   = expr(x->getArg(0));
                o["ovl"] = q;
                return json::Value(std::move(o));
            }
            if (n == 1 || ((op == OO_PlusPlus || op == OO_MinusMinus) && n == 2)) {
                o["k"]   = "un";
                o["op"]  = spel;
                o["e"]   = expr(x->getArg(0));
                o["ovl"] = q;
                if (n == 2) { o["postfix"] = true; }
                return json::Value(std::move(o));
            }
            if (n == 2) {
                o["k"]   = "bin";
                o["op"]  = spel;
                o["l"]   = expr(x->getArg(0));
                o["r"]   = expr(x->getArg(1));
                o["ovl"] = q;
                return json::Value(std::move(o));
            }
        }
        if (auto const* x = dyn_cast<CallExpr>(e)) {
            o["k"] = "call";
            o["f"] = expr(x->getCallee());
            o["a"] = argsRange(x->arg_begin(), x->arg_end());
            if (auto const* cd = x->getDirectCallee()) { o["q"] = qname(cd); }
            return json::Value(std::move(o));
        }
        if (auto const* x = dyn_cast<BinaryOperator>(e)) {
            o["k"]  = "bin";
            o["op"] = x->getOpcodeStr().str();
            o["l"]  = expr(x->getLHS());
            o["r"]  = expr(x->getRHS());
            return json::Value(std::move(o));
        }
        if (auto const* x = dyn_cast<CXXRewrittenBinaryOperator>(e)) {
            auto d  = x->getDecomposedForm();
            o["k"]  = "bin";
            o["op"] = BinaryOperator::getOpcodeStr(d.Opcode).str();
            o["l"]  = expr(d.LHS);
            o["r"]  = expr(d.RHS);
            o["rewritten"] = true;
            return json::Value(std::move(o));
        }
        if (auto const* x = dyn_cast<UnaryOperator>(e)) {
            o["k"]  = "un";
            o["op"] = UnaryOperator::getOpcodeStr(x->getOpcode()).str();
            o["e"]  = expr(x->getSubExpr());
            if (x->isPostfix()) { o["postfix"] = true; }
            return json::Value(std::move(o));
        }
        if (auto const* x = dyn_cast<ConditionalOperator>(e)) {
            o["k"] = "cond";
            o["c"] = expr(x->getCond());
            o["t"] = expr(x->getTrueExpr());
            o["f"] = expr(x->getFalseExpr());
            return json::Value(std::move(o));
        }
        if (auto const* x = dyn_cast<ArraySubscriptExpr>(e)) {
            o["k"] = "idx";
            // syntactic order: getBase()/getIdx() guess from the types and swap the operands of a dependent `a[i]`
            o["b"] = expr(x->getLHS());
            o["i"] = expr(x->getRHS());
            return json::Value(std::move(o));
        }
        if (auto const* x = dyn_cast<IntegerLiteral>(e)) {
            o["k"] = "int";
            llvm::SmallString<32> s;
            x->getValue().toStringUnsigned(s);
            o["v"]  = s.str().str();
            o["ty"] = ty(x->getType());
            auto loc = x->getLocation();
            if (loc.isMacroID()) { o["m"] = macros(loc); }
            return json::Value(std::move(o));
        }
        if (auto const* x = dyn_cast<CXXBoolLiteralExpr>(e)) {
            o["k"] = "bool";
            o["v"] = x->getValue();
            return json::Value(std::move(o));
        }
        if (auto const* x = dyn_cast<CharacterLiteral>(e)) {
            o["k"]  = "char";
            o["v"]  = static_cast<int64_t>(x->getValue());
            o["ty"] = ty(x->getType());
            return json::Value(std::move(o));
        }
        if (auto const* x = dyn_cast<FloatingLiteral>(e)) {
            o["k"] = "float";
            llvm::SmallString<32> s;
            x->getValue().toString(s);
            o["v"]  = s.str().str();
            o["ty"] = ty(x->getType());
            return json::Value(std::move(o));
        }
        if (auto const* x = dyn_cast<clang::StringLiteral>(e)) {
            o["k"] = "str";
            if (x->getCharByteWidth() == 1) {
                o["v"] = x->getString().str();
            } else {
                o["v"] = "<wide>";
            }
            auto loc = x->getBeginLoc();
            if (loc.isMacroID()) { o["m"] = macros(loc); }
            return json::Value(std::move(o));
        }
        if (isa<CXXNullPtrLiteralExpr>(e) || isa<GNUNullExpr>(e)) {
            o["k"] = "nullptr";
            return json::Value(std::move(o));
        }
        if (auto const* x = dyn_cast<PredefinedExpr>(e)) {
            o["k"] = "predefined";
            o["n"] = PredefinedExpr::getIdentKindName(x->getIdentKind()).str();
            return json::Value(std::move(o));
        }
        if (auto const* x = dyn_cast<SourceLocExpr>(e)) {
            o["k"] = "sourceloc";
            o["n"] = x->getBuiltinStr().str();
            if (x->getBeginLoc().isMacroID()) { o["m"] = macros(x->getBeginLoc()); }
            return json::Value(std::move(o));
        }
        if (auto const* x = dyn_cast<ExplicitCastExpr>(e)) {
            o["k"]  = "cast";
            o["ck"] = castKindName(x);
            o["ty"] = ty(x->getTypeAsWritten());
            o["e"]  = expr(x->getSubExpr());
            if (auto const* fc = dyn_cast<CXXFunctionalCastExpr>(x)) { o["list"] = fc->isListInitialization(); }
            return json::Value(std::move(o));
        }
        if (auto const* x = dyn_cast<CXXTemporaryObjectExpr>(e)) {
            o["k"]    = "construct";
            o["ty"]   = ty(x->getType());
            o["a"]    = argsRange(x->arg_begin(), x->arg_end());
            o["list"] = x->isListInitialization();
            o["temp"] = true;
            return json::Value(std::move(o));
        }
        if (auto const* x = dyn_cast<CXXConstructExpr>(e)) {
            // implicit conversions / copy construction of one argument: keep the argument visible
            o["k"]    = "construct";
            o["ty"]   = ty(x->getType());
            o["a"]    = argsRange(x->arg_begin(), x->arg_end());
            o["list"] = x->isListInitialization();
            if (auto const* cd = x->getConstructor()) {
                o["q"] = qname(cd);
                if (cd->isCopyOrMoveConstructor()) { o["copymove"] = true; }
            }
            return json::Value(std::move(o));
        }
        if (auto const* x = dyn_cast<CXXUnresolvedConstructExpr>(e)) {
            o["k"]    = "construct";
            o["ty"]   = ty(x->getTypeAsWritten());
            o["a"]    = argsRange(x->arg_begin(), x->arg_end());
            o["list"] = x->isListInitialization();
            o["dep"]  = true;
            return json::Value(std::move(o));
        }
        if (auto const* x = dyn_cast<CXXScalarValueInitExpr>(e)) {
            o["k"]  = "construct";
            o["ty"] = ty(x->getType());
            o["a"]  = json::Array{};
            return json::Value(std::move(o));
        }
        if (auto const* x = dyn_cast<InitListExpr>(e)) {
            auto const* syn = x->isSemanticForm() && x->getSyntacticForm() != nullptr ? x->getSyntacticForm() : x;
            o["k"] = "initlist";
            json::Array a;
            for (auto const* i : syn->inits()) { a.push_back(exprOrNull(i)); }
            o["a"] = std::move(a);
            return json::Value(std::move(o));
        }
        if (auto const* x = dyn_cast<DesignatedInitExpr>(e)) {
            o["k"] = "desig";
            std::string n;
            for (auto const& d : x->designators()) {
                if (d.isFieldDesignator() && d.getFieldName() != nullptr) { n += d.getFieldName()->getName().str(); }
            }
            o["n"] = n;
            o["e"] = exprOrNull(x->getInit());
            return json::Value(std::move(o));
        }
        if (auto const* x = dyn_cast<ParenListExpr>(e)) {
            o["k"] = "parenlist";
            json::Array a;
            for (unsigned i = 0; i < x->getNumExprs(); ++i) { a.push_back(exprOrNull(x->getExpr(i))); }
            o["a"] = std::move(a);
            return json::Value(std::move(o));
        }
        if (auto const* x = dyn_cast<CXXThisExpr>(e)) {
            o["k"] = "this";
            if (x->isImplicit()) { o["implicit"] = true; }
            return json::Value(std::move(o));
        }
        if (auto const* x = dyn_cast<CXXNewExpr>(e)) {
            o["k"] = "new";
            json::Array pl;
            for (unsigned i = 0; i < x->getNumPlacementArgs(); ++i) { pl.push_back(exprOrNull(x->getPlacementArg(i))); }
            o["placement"] = std::move(pl);
            o["ty"]        = ty(x->getAllocatedType());
            o["array"]     = x->isArray();
            o["global"]    = x->isGlobalNew();
            o["init"]      = exprOrNull(x->getInitializer());
            return json::Value(std::move(o));
        }
        if (auto const* x = dyn_cast<CXXDeleteExpr>(e)) {
            o["k"]     = "delete";
            o["e"]     = exprOrNull(x->getArgument());
            o["array"] = x->isArrayForm();
            return json::Value(std::move(o));
        }
        if (auto const* x = dyn_cast<CXXPseudoDestructorExpr>(e)) {
            o["k"]     = "mem";
            o["n"]     = "~" + ty(x->getDestroyedType());
            o["b"]     = exprOrNull(x->getBase());
            o["arrow"] = x->isArrow();
            o["pseudo"] = true;
            return json::Value(std::move(o));
        }
        if (auto const* x = dyn_cast<LambdaExpr>(e)) { return lambda(x); }
        if (auto const* x = dyn_cast<PackExpansionExpr>(e)) {
            o["k"] = "pack";
            o["e"] = expr(x->getPattern());
            return json::Value(std::move(o));
        }
        if (auto const* x = dyn_cast<CXXFoldExpr>(e)) {
            o["k"]  = "fold";
            o["op"] = BinaryOperator::getOpcodeStr(x->getOperator()).str();
            o["l"]  = exprOrNull(x->getLHS());
            o["r"]  = exprOrNull(x->getRHS());
            o["rightfold"] = x->isRightFold();
            return json::Value(std::move(o));
        }
        if (auto const* x = dyn_cast<SizeOfPackExpr>(e)) {
            o["k"] = "sizeofpack";
            o["n"] = x->getPack()->getNameAsString();
            return json::Value(std::move(o));
        }
        if (auto const* x = dyn_cast<UnaryExprOrTypeTraitExpr>(e)) {
            o["k"]    = "sizeof";
            o["kind"] = x->getKind() == UETT_SizeOf ? "sizeof" : (x->getKind() == UETT_AlignOf ? "alignof" : "other");
            if (x->isArgumentType()) {
                o["ty"] = ty(x->getArgumentType());
            } else {
                o["e"] = expr(x->getArgumentExpr());
            }
            return json::Value(std::move(o));
        }
        if (isa<TypeTraitExpr>(e) || isa<CXXNoexceptExpr>(e) || isa<RequiresExpr>(e) || isa<ConceptSpecializationExpr>(e)
            || isa<ArrayTypeTraitExpr>(e) || isa<ExpressionTraitExpr>(e)) {
            o["k"]    = "typetrait";
            o["text"] = text(e->getSourceRange());
            return json::Value(std::move(o));
        }
        if (isa<CXXDefaultArgExpr>(e)) {
            o["k"] = "defaultarg";
            return json::Value(std::move(o));
        }
        if (auto const* x = dyn_cast<CXXTypeidExpr>(e)) {
            (void)x;
            o["k"] = "typeid";
            return json::Value(std::move(o));
        }
        if (auto const* x = dyn_cast<CXXThrowExpr>(e)) {
            o["k"] = "throw";
            o["e"] = exprOrNull(x->getSubExpr());
            return json::Value(std::move(o));
        }
        if (auto const* x = dyn_cast<OpaqueValueExpr>(e)) {
            if (x->getSourceExpr() != nullptr) { return expr(x->getSourceExpr()); }
        }
        if (auto const* x = dyn_cast<RecoveryExpr>(e)) {
            o["k"] = "recovery";
            json::Array a;
            for (auto const* c : x->subExpressions()) { a.push_back(exprOrNull(c)); }
            o["a"]    = std::move(a);
            o["text"] = text(e->getSourceRange());
            return json::Value(std::move(o));
        }
        if (auto const* x = dyn_cast<StmtExpr>(e)) {
            o["k"]    = "stmtexpr";
            o["body"] = stmt(x->getSubStmt());
            return json::Value(std::move(o));
        }
        // fallback
        o["k"]   = "other";
        o["cls"] = e->getStmtClassName();
        json::Array ch;
        for (auto const* c : e->children()) {
            if (auto const* ce = dyn_cast_or_null<Expr>(c)) {
                ch.push_back(expr(ce));
            } else if (c != nullptr) {
                ch.push_back(stmt(c));
            }
        }
        o["ch"]   = std::move(ch);
        o["text"] = text(e->getSourceRange());
        return json::Value(std::move(o));
    }

    // ---------------------------------------------------------------- statements
    json::Value varDecl(VarDecl const* v)
    {
        json::Object o;
        o["n"]      = v->getNameAsString();
        o["ty"]     = ty(v->getType());
        o["const"]  = v->getType().isConstQualified() || v->isConstexpr();
        o["static"] = v->isStaticLocal();
        o["ref"]    = v->getType()->isReferenceType();
        if (v->hasInit()) {
            o["init"]  = expr(v->getInit());
            o["style"] = v->getInitStyle() == VarDecl::CInit ? "c" : (v->getInitStyle() == VarDecl::CallInit ? "call" : "list");
        }
        return json::Value(std::move(o));
    }

    json::Value stmtOrNull(Stmt const* s)
    {
        if (s == nullptr) { return nullptr; }
        return stmt(s);
    }

    void locInfo(json::Object& o, Stmt const* s)
    {
        auto b = s->getBeginLoc();
        o["line"] = lineOf(b);
        if (b.isMacroID()) { o["m"] = macros(b); }
    }

    json::Value stmt(Stmt const* s)
    {
        if (s == nullptr) { return nullptr; }
        if (auto const* a = dyn_cast<AttributedStmt>(s)) { return stmt(a->getSubStmt()); }
        json::Object o;
        if (auto const* x = dyn_cast<CompoundStmt>(s)) {
            o["k"] = "seq";
            json::Array a;
            for (auto const* c : x->body()) { a.push_back(stmt(c)); }
            o["s"] = std::move(a);
            locInfo(o, s);
            return json::Value(std::move(o));
        }
        if (auto const* x = dyn_cast<IfStmt>(s)) {
            o["k"] = "if";
            if (x->isConsteval()) {
                o["consteval"] = true;
                o["negated"]   = x->isNegatedConsteval();
            } else {
                o["c"]   = exprOrNull(x->getCond());
                o["src"] = x->getCond() != nullptr ? text(x->getCond()->getSourceRange()) : "";
            }
            o["constexpr"] = x->isConstexpr();
            o["then"]      = stmtOrNull(x->getThen());
            o["else"]      = stmtOrNull(x->getElse());
            if (x->getInit() != nullptr) { o["init"] = stmt(x->getInit()); }
            if (x->getConditionVariable() != nullptr) { o["var"] = varDecl(x->getConditionVariable()); }
            locInfo(o, s);
            return json::Value(std::move(o));
        }
        if (auto const* x = dyn_cast<ForStmt>(s)) {
            o["k"]    = "for";
            o["init"] = stmtOrNull(x->getInit());
            o["c"]    = exprOrNull(x->getCond());
            o["inc"]  = exprOrNull(x->getInc());
            o["body"] = stmtOrNull(x->getBody());
            locInfo(o, s);
            return json::Value(std::move(o));
        }
        if (auto const* x = dyn_cast<WhileStmt>(s)) {
            o["k"]    = "while";
            o["c"]    = exprOrNull(x->getCond());
            o["body"] = stmtOrNull(x->getBody());
            locInfo(o, s);
            return json::Value(std::move(o));
        }
        if (auto const* x = dyn_cast<DoStmt>(s)) {
            o["k"]    = "do";
            o["c"]    = exprOrNull(x->getCond());
            o["body"] = stmtOrNull(x->getBody());
            locInfo(o, s);
            return json::Value(std::move(o));
        }
        if (auto const* x = dyn_cast<CXXForRangeStmt>(s)) {
            o["k"]     = "rangefor";
            o["var"]   = varDecl(x->getLoopVariable());
            o["range"] = exprOrNull(x->getRangeInit());
            o["body"]  = stmtOrNull(x->getBody());
            locInfo(o, s);
            return json::Value(std::move(o));
        }
        if (auto const* x = dyn_cast<ReturnStmt>(s)) {
            o["k"] = "return";
            o["e"] = exprOrNull(x->getRetValue());
            if (x->getRetValue() != nullptr) { o["src"] = text(x->getRetValue()->getSourceRange()); }
            locInfo(o, s);
            return json::Value(std::move(o));
        }
        if (isa<BreakStmt>(s)) {
            o["k"] = "break";
            locInfo(o, s);
            return json::Value(std::move(o));
        }
        if (isa<ContinueStmt>(s)) {
            o["k"] = "continue";
            locInfo(o, s);
            return json::Value(std::move(o));
        }
        if (isa<NullStmt>(s)) {
            o["k"] = "null";
            return json::Value(std::move(o));
        }
        if (auto const* x = dyn_cast<DeclStmt>(s)) {
            o["k"] = "decl";
            json::Array vars;
            for (auto const* d : x->decls()) {
                if (auto const* v = dyn_cast<VarDecl>(d)) {
                    vars.push_back(varDecl(v));
                    if (auto const* dd = dyn_cast<DecompositionDecl>(v)) {
                        json::Array bs;
                        for (auto const* b : dd->bindings()) { bs.push_back(b->getNameAsString()); }
                        vars.back().getAsObject()->try_emplace("bindings", std::move(bs));
                    }
                } else {
                    json::Object od;
                    od["other"] = d->getDeclKindName();
                    if (auto const* nd = dyn_cast<NamedDecl>(d)) { od["n"] = nd->getNameAsString(); }
                    if (auto const* td = dyn_cast<TypedefNameDecl>(d)) { od["ty"] = ty(td->getUnderlyingType()); }
                    if (auto const* sa = dyn_cast<StaticAssertDecl>(d)) { od["text"] = text(sa->getAssertExpr()->getSourceRange()); }
                    vars.push_back(std::move(od));
                }
            }
            o["vars"] = std::move(vars);
            o["src"]  = text(s->getSourceRange());
            locInfo(o, s);
            return json::Value(std::move(o));
        }
        if (auto const* x = dyn_cast<SwitchStmt>(s)) {
            o["k"]    = "switch";
            o["c"]    = exprOrNull(x->getCond());
            o["body"] = stmtOrNull(x->getBody());
            locInfo(o, s);
            return json::Value(std::move(o));
        }
        if (auto const* x = dyn_cast<CaseStmt>(s)) {
            o["k"] = "case";
            o["v"] = exprOrNull(x->getLHS());
            o["s"] = stmtOrNull(x->getSubStmt());
            locInfo(o, s);
            return json::Value(std::move(o));
        }
        if (auto const* x = dyn_cast<DefaultStmt>(s)) {
            o["k"] = "default";
            o["s"] = stmtOrNull(x->getSubStmt());
            locInfo(o, s);
            return json::Value(std::move(o));
        }
        if (auto const* x = dyn_cast<Expr>(s)) {
            o["k"]   = "expr";
            o["e"]   = expr(x);
            o["src"] = text(x->getSourceRange());
            locInfo(o, s);
            return json::Value(std::move(o));
        }
        o["k"]   = "unstructured";
        o["cls"] = s->getStmtClassName();
        json::Array ch;
        for (auto const* c : s->children()) { ch.push_back(stmtOrNull(c)); }
        o["ch"] = std::move(ch);
        locInfo(o, s);
        return json::Value(std::move(o));
    }

    // ---------------------------------------------------------------- declarations
    json::Value params(FunctionDecl const* f)
    {
        json::Array a;
        for (auto const* p : f->parameters()) {
            json::Object o;
            o["n"]    = p->getNameAsString();
            o["ty"]   = ty(p->getType());
            o["pack"] = p->isParameterPack();
            if (p->hasDefaultArg() && !p->hasUninstantiatedDefaultArg() && !p->hasUnparsedDefaultArg()) {
                o["def"]    = expr(p->getDefaultArg());
                o["defsrc"] = text(p->getDefaultArgRange());
            } else if (p->hasDefaultArg()) {
                o["defsrc"] = text(p->getDefaultArgRange());
            }
            a.push_back(std::move(o));
        }
        return json::Value(std::move(a));
    }

    static char const* accessName(AccessSpecifier a)
    {
        switch (a) {
        case AS_public: return "public";
        case AS_protected: return "protected";
        case AS_private: return "private";
        case AS_none: return "none";
        }
        return "none";
    }

    std::string recordName(DeclContext const* dc) const
    {
        if (auto const* r = dyn_cast_or_null<CXXRecordDecl>(dc)) {
            std::string outer;
            if (auto const* pr = dyn_cast_or_null<CXXRecordDecl>(r->getDeclContext())) {
                outer = recordName(pr) + "::" + r->getNameAsString();
            } else {
                outer = qname(r);
            }
            if (isa<ClassTemplateSpecializationDecl>(r)) { outer += "<" + specArgs(r) + ">"; }
            return outer;
        }
        return "";
    }

    std::string specArgs(CXXRecordDecl const* r) const
    {
        std::string s;
        if (auto const* ps = dyn_cast<ClassTemplatePartialSpecializationDecl>(r)) {
            if (auto const* aw = ps->getTemplateArgsAsWritten()) { s = targs(aw->arguments()); }
        } else if (auto const* sp = dyn_cast<ClassTemplateSpecializationDecl>(r)) {
            llvm::raw_string_ostream os(s);
            bool first = true;
            for (auto const& a : sp->getTemplateArgs().asArray()) {
                if (!first) { os << ", "; }
                first = false;
                a.print(pp, os, true);
            }
        }
        return s;
    }

    void funcCommon(json::Object& o, FunctionDecl const* f)
    {
        o["q"]    = qname(f);
        o["n"]    = f->getNameAsString();
        o["file"] = relFile(f->getLocation());
        o["line"] = lineOf(f->getBeginLoc());
        o["end"]  = lineOf(f->getEndLoc());
        o["params"]    = params(f);
        o["ret"]       = ty(f->getReturnType());
        o["constexpr"] = f->isConstexpr();
        o["consteval"] = f->isConsteval();
        o["defaulted"] = f->isDefaulted();
        o["explicitly_defaulted"] = f->isExplicitlyDefaulted();
        o["deleted"]   = f->isDeleted();
        o["static"]    = f->isStatic();
        o["variadic"]  = f->isVariadic();
        o["noreturn"]  = f->isNoReturn();
        if (auto const* fpt = f->getType()->getAs<FunctionProtoType>()) {
            auto es = fpt->getExceptionSpecType();
            o["noexcept"] = es == EST_BasicNoexcept || es == EST_NoexceptTrue ? "true"
                          : (es == EST_DependentNoexcept || es == EST_Unevaluated || es == EST_Uninstantiated ? "dependent"
                          : (es == EST_NoexceptFalse || es == EST_None ? "false" : "other"));
        }
        if (auto const* rc = f->getTrailingRequiresClause()) { o["requires"] = text(rc->getSourceRange(), 600); }
        if (auto const* ft = f->getDescribedFunctionTemplate()) {
            o["tparams"] = tparams(ft->getTemplateParameters());
            if (auto const* rc = ft->getTemplateParameters()->getRequiresClause()) { o["trequires"] = text(rc->getSourceRange(), 600); }
        }
        if (f->isFunctionTemplateSpecialization()) { o["explicit_spec"] = true; }
        std::string kind = "function";
        if (auto const* m = dyn_cast<CXXMethodDecl>(f)) {
            kind        = "method";
            o["record"] = recordName(m->getParent());
            o["q"]      = recordName(m->getParent()) + "::" + f->getNameAsString();
            o["const"]  = m->isConst();
            o["refq"]   = m->getRefQualifier() == RQ_LValue ? "&" : (m->getRefQualifier() == RQ_RValue ? "&&" : "");
            o["access"] = accessName(m->getAccess());
            o["virtual"] = m->isVirtual();
            if (m->isCopyAssignmentOperator()) { o["special"] = "copy_assign"; }
            if (m->isMoveAssignmentOperator()) { o["special"] = "move_assign"; }
            if (auto const* c = dyn_cast<CXXConstructorDecl>(m)) {
                kind = "ctor";
                if (c->isDefaultConstructor()) { o["special"] = "default_ctor"; }
                if (c->isCopyConstructor()) { o["special"] = "copy_ctor"; }
                if (c->isMoveConstructor()) { o["special"] = "move_ctor"; }
                o["explicit"] = c->isExplicit();
                json::Array inits;
                for (auto const* i : c->inits()) {
                    if (!i->isWritten()) { continue; }
                    json::Object io;
                    if (i->isAnyMemberInitializer()) {
                        io["field"] = i->getAnyMember()->getNameAsString();
                    } else if (i->isDelegatingInitializer()) {
                        io["delegating"] = true;
                    } else if (i->isBaseInitializer()) {
                        io["base"] = ty(QualType(i->getBaseClass(), 0));
                    }
                    io["e"]    = exprOrNull(i->getInit());
                    io["src"]  = text(i->getSourceRange());
                    io["line"] = lineOf(i->getSourceLocation());
                    inits.push_back(std::move(io));
                }
                o["inits"] = std::move(inits);
            } else if (isa<CXXDestructorDecl>(m)) {
                kind = "dtor";
            } else if (auto const* cv = dyn_cast<CXXConversionDecl>(m)) {
                kind          = "conversion";
                o["explicit"] = cv->isExplicit();
                o["convty"]   = ty(cv->getConversionType());
            }
            if (m->getParent()->isLambda()) { kind = "lambda_call"; }
        } else {
            // friend defined in class?
            if (f->getFriendObjectKind() != Decl::FOK_None) {
                o["friend"] = true;
                o["record"] = recordName(f->getLexicalDeclContext());
            }
        }
        if (f->isOverloadedOperator()) { o["operator"] = std::string(getOperatorSpelling(f->getOverloadedOperator())); }
        o["kind"] = kind;
    }

    void emitFunc(FunctionDecl const* f)
    {
        json::Object o;
        o["t"] = "func";
        funcCommon(o, f);
        o["body"] = stmt(f->getBody());
        ++gFuncs;
        emit(std::move(o));
    }

    void emitRecord(CXXRecordDecl const* r)
    {
        json::Object o;
        o["t"]    = "record";
        o["q"]    = recordName(r);
        o["n"]    = r->getNameAsString();
        o["file"] = relFile(r->getLocation());
        o["line"] = lineOf(r->getBeginLoc());
        o["end"]  = lineOf(r->getEndLoc());
        o["union"]  = r->isUnion();
        o["lambda"] = r->isLambda();
        o["kindkw"] = r->getKindName().str();
        if (auto const* ct = r->getDescribedClassTemplate()) {
            o["tparams"] = tparams(ct->getTemplateParameters());
            if (auto const* rc = ct->getTemplateParameters()->getRequiresClause()) { o["trequires"] = text(rc->getSourceRange(), 600); }
        }
        if (auto const* ps = dyn_cast<ClassTemplatePartialSpecializationDecl>(r)) {
            o["tparams"]  = tparams(ps->getTemplateParameters());
            o["specargs"] = specArgs(r);
            o["partial"]  = true;
        } else if (isa<ClassTemplateSpecializationDecl>(r)) {
            o["specargs"] = specArgs(r);
            o["fullspec"] = true;
        }
        o["parent"] = recordName(r->getDeclContext());
        json::Array bases;
        for (auto const& b : r->bases()) {
            json::Object bo;
            bo["ty"]     = ty(b.getType());
            bo["access"] = accessName(b.getAccessSpecifier());
            bases.push_back(std::move(bo));
        }
        o["bases"] = std::move(bases);
        json::Array fields;
        for (auto const* fd : r->fields()) {
            json::Object fo;
            fo["n"]       = fd->getNameAsString();
            fo["ty"]      = ty(fd->getType());
            fo["access"]  = accessName(fd->getAccess());
            fo["mutable"] = fd->isMutable();
            fo["line"]    = lineOf(fd->getLocation());
            if (fd->hasInClassInitializer() && fd->getInClassInitializer() != nullptr) {
                fo["nsdmi"]    = expr(fd->getInClassInitializer());
                fo["nsdmisrc"] = text(fd->getInClassInitializer()->getSourceRange());
            } else if (fd->hasInClassInitializer()) {
                fo["nsdmi"] = "unparsed";
            }
            if (fd->hasAttr<NoUniqueAddressAttr>()) { fo["no_unique_address"] = true; }
            fields.push_back(std::move(fo));
        }
        o["fields"] = std::move(fields);
        json::Array methods;
        json::Array aliases;
        json::Array statics;
        json::Array friends;
        for (auto const* d : r->decls()) {
            if (d->isImplicit()) { continue; }
            FunctionDecl const* f = nullptr;
            if (auto const* ft = dyn_cast<FunctionTemplateDecl>(d)) {
                f = ft->getTemplatedDecl();
            } else if (auto const* fd = dyn_cast<FunctionDecl>(d)) {
                f = fd;
            } else if (auto const* fr = dyn_cast<FriendDecl>(d)) {
                if (auto const* nd = fr->getFriendDecl()) {
                    if (auto const* ft = dyn_cast<FunctionTemplateDecl>(nd)) {
                        f = ft->getTemplatedDecl();
                    } else if (auto const* fd = dyn_cast<FunctionDecl>(nd)) {
                        f = fd;
                    }
                }
                if (f != nullptr) {
                    json::Object mo;
                    funcCommon(mo, f);
                    mo["hasbody"] = f->doesThisDeclarationHaveABody();
                    friends.push_back(std::move(mo));
                    continue;
                }
            }
            if (f != nullptr) {
                json::Object mo;
                funcCommon(mo, f);
                mo["hasbody"] = f->doesThisDeclarationHaveABody();
                methods.push_back(std::move(mo));
                continue;
            }
            if (auto const* td = dyn_cast<TypedefNameDecl>(d)) {
                json::Object ao;
                ao["n"]      = td->getNameAsString();
                ao["ty"]     = ty(td->getUnderlyingType());
                ao["access"] = accessName(td->getAccess());
                aliases.push_back(std::move(ao));
                continue;
            }
            if (auto const* vd = dyn_cast<VarDecl>(d)) {
                json::Object vo;
                vo["n"]  = vd->getNameAsString();
                vo["ty"] = ty(vd->getType());
                if (vd->hasInit()) {
                    vo["init"] = expr(vd->getInit());
                    vo["src"]  = text(vd->getInit()->getSourceRange());
                }
                statics.push_back(std::move(vo));
                continue;
            }
        }
        o["methods"] = std::move(methods);
        o["aliases"] = std::move(aliases);
        o["statics"] = std::move(statics);
        o["friends"] = std::move(friends);
        ++gRecords;
        emit(std::move(o));
    }

    void emitVar(VarDecl const* v)
    {
        json::Object o;
        o["t"]    = "var";
        o["q"]    = qname(v);
        o["n"]    = v->getNameAsString();
        o["file"] = relFile(v->getLocation());
        o["line"] = lineOf(v->getBeginLoc());
        o["ty"]   = ty(v->getType());
        o["constexpr"] = v->isConstexpr();
        if (auto const* vt = v->getDescribedVarTemplate()) { o["tparams"] = tparams(vt->getTemplateParameters()); }
        if (v->hasInit()) {
            o["init"] = expr(v->getInit());
            o["src"]  = text(v->getInit()->getSourceRange(), 400);
        }
        ++gVars;
        emit(std::move(o));
    }
};

class Visitor : public RecursiveASTVisitor<Visitor> {
public:
    explicit Visitor(ASTContext& c) : ser(c) { }

    bool shouldVisitTemplateInstantiations() const { return false; }
    bool shouldVisitImplicitCode() const { return false; }

    bool VisitFunctionDecl(FunctionDecl* f)
    {
        if (!f->doesThisDeclarationHaveABody()) { return true; }
        if (f->isImplicit()) { return true; }
        if (!ser.inRoot(f->getLocation())) { return true; }
        if (auto const* m = dyn_cast<CXXMethodDecl>(f)) {
            if (m->getParent()->isLambda()) { return true; } // serialised inline
        }
        if (f->getBody() == nullptr) { return true; }
        ser.emitFunc(f);
        return true;
    }

    bool VisitCXXRecordDecl(CXXRecordDecl* r)
    {
        if (!r->isThisDeclarationADefinition()) { return true; }
        if (r->isImplicit() || r->isLambda()) { return true; }
        if (!ser.inRoot(r->getLocation())) { return true; }
        if (isa<ClassTemplateSpecializationDecl>(r) && !isa<ClassTemplatePartialSpecializationDecl>(r)) {
            auto const* sp = cast<ClassTemplateSpecializationDecl>(r);
            if (sp->getSpecializationKind() != TSK_ExplicitSpecialization) { return true; }
        }
        ser.emitRecord(r);
        return true;
    }

    bool VisitVarDecl(VarDecl* v)
    {
        if (v->isLocalVarDecl() || isa<ParmVarDecl>(v)) { return true; }
        if (!v->isFileVarDecl() && !v->isStaticDataMember()) { return true; }
        if (!ser.inRoot(v->getLocation())) { return true; }
        if (isa<VarTemplateSpecializationDecl>(v) && !isa<VarTemplatePartialSpecializationDecl>(v)) {
            auto const* sp = cast<VarTemplateSpecializationDecl>(v);
            if (sp->getSpecializationKind() != TSK_ExplicitSpecialization) { return true; }
        }
        ser.emitVar(v);
        return true;
    }

    bool VisitEnumDecl(EnumDecl* d)
    {
        if (!d->isThisDeclarationADefinition()) { return true; }
        if (!ser.inRoot(d->getLocation())) { return true; }
        json::Object o;
        o["t"]      = "enum";
        o["q"]      = ser.qname(d);
        o["n"]      = d->getNameAsString();
        o["scoped"] = d->isScoped();
        o["file"]   = ser.relFile(d->getLocation());
        o["line"]   = ser.lineOf(d->getLocation());
        json::Array es;
        for (auto const* e : d->enumerators()) {
            json::Object eo;
            eo["n"] = e->getNameAsString();
            llvm::SmallString<32> v;
            e->getInitVal().toString(v, 10);
            eo["v"] = v.str().str();
            es.push_back(std::move(eo));
        }
        o["enumerators"] = std::move(es);
        emit(std::move(o));
        return true;
    }

    bool VisitTypeAliasDecl(TypeAliasDecl* d)
    {
        if (!ser.inRoot(d->getLocation())) { return true; }
        if (isa<CXXRecordDecl>(d->getDeclContext()) || d->getDeclContext()->isFunctionOrMethod()) { return true; }
        json::Object o;
        o["t"]    = "alias";
        o["q"]    = ser.qname(d);
        o["n"]    = d->getNameAsString();
        o["ty"]   = ser.ty(d->getUnderlyingType());
        o["file"] = ser.relFile(d->getLocation());
        o["line"] = ser.lineOf(d->getLocation());
        if (auto const* t = d->getDescribedAliasTemplate()) { o["tparams"] = ser.tparams(t->getTemplateParameters()); }
        emit(std::move(o));
        return true;
    }

private:
    Ser ser;
};

class Consumer : public ASTConsumer {
public:
    void HandleTranslationUnit(ASTContext& ctx) override
    {
        Visitor v(ctx);
        v.TraverseDecl(ctx.getTranslationUnitDecl());
    }
};

class PPCb : public PPCallbacks {
public:
    PPCb(SourceManager& s, LangOptions const& lo) : sm(s), lang(lo) { }

    void SourceRangeSkipped(SourceRange r, SourceLocation /*endifLoc*/) override
    {
        auto f = sm.getFilename(sm.getExpansionLoc(r.getBegin())).str();
        if (f.compare(0, gRoot.size(), gRoot) != 0) { return; }
        json::Object o;
        o["t"]     = "skipped";
        o["file"]  = f.substr(gRoot.size());
        o["begin"] = sm.getExpansionLineNumber(r.getBegin());
        o["end"]   = sm.getExpansionLineNumber(r.getEnd());
        emit(std::move(o));
    }

    void MacroDefined(Token const& tok, MacroDirective const* md) override
    {
        auto const* ii = tok.getIdentifierInfo();
        if (ii == nullptr) { return; }
        auto name = ii->getName();
        if (!name.startswith("TETL_")) { return; }
        auto const* mi = md->getMacroInfo();
        std::string body;
        for (auto const& t : mi->tokens()) {
            if (!body.empty()) { body += " "; }
            if (t.isAnyIdentifier()) {
                body += t.getIdentifierInfo()->getName().str();
            } else if (t.isLiteral() && t.getLiteralData() != nullptr) {
                body += std::string(t.getLiteralData(), t.getLength());
            } else {
                auto const* sp = tok::getPunctuatorSpelling(t.getKind());
                body += sp != nullptr ? sp : tok::getTokenName(t.getKind());
            }
        }
        json::Object o;
        o["t"]    = "macro";
        o["n"]    = name.str();
        o["body"] = body;
        o["file"] = sm.getFilename(sm.getExpansionLoc(mi->getDefinitionLoc())).str();
        o["line"] = sm.getExpansionLineNumber(mi->getDefinitionLoc());
        o["function_like"] = mi->isFunctionLike();
        emit(std::move(o));
    }

private:
    SourceManager& sm;
    LangOptions const& lang;
};

class DiagSink : public DiagnosticConsumer {
public:
    void HandleDiagnostic(DiagnosticsEngine::Level level, Diagnostic const& info) override
    {
        DiagnosticConsumer::HandleDiagnostic(level, info);
        if (level < DiagnosticsEngine::Error) { return; }
        llvm::SmallString<256> msg;
        info.FormatDiagnostic(msg);
        json::Object o;
        o["t"]   = "diag";
        o["id"]  = info.getID();
        o["msg"] = msg.str().str();
        o["level"] = level == DiagnosticsEngine::Fatal ? "fatal" : "error";
        if (info.hasSourceManager() && info.getLocation().isValid()) {
            auto& sm  = info.getSourceManager();
            auto loc  = sm.getExpansionLoc(info.getLocation());
            o["file"] = sm.getFilename(loc).str();
            o["line"] = sm.getExpansionLineNumber(loc);
        }
        ++gErrors;
        emit(std::move(o));
    }
};

class Action : public ASTFrontendAction {
public:
    std::unique_ptr<ASTConsumer> CreateASTConsumer(CompilerInstance& ci, llvm::StringRef /*file*/) override
    {
        ci.getPreprocessor().addPPCallbacks(std::make_unique<PPCb>(ci.getSourceManager(), ci.getLangOpts()));
        return std::make_unique<Consumer>();
    }
};

class Factory : public tooling::FrontendActionFactory {
public:
    std::unique_ptr<FrontendAction> create() override { return std::make_unique<Action>(); }
};

} // namespace

int main(int argc, char const** argv)
{
    if (argc < 5) {
        llvm::errs() << "usage: tetl-ast <root-prefix> <out.jsonl> <source.cpp> -- <flags>\n";
        return 2;
    }
    gRoot = argv[1];
    std::error_code ec;
    gOut = std::make_unique<llvm::raw_fd_ostream>(argv[2], ec);
    if (ec) {
        llvm::errs() << "cannot open " << argv[2] << "\n";
        return 2;
    }
    std::string source = argv[3];
    int dd             = 4;
    while (dd < argc && std::string(argv[dd]) != "--") { ++dd; }
    std::vector<std::string> flags;
    for (int i = dd + 1; i < argc; ++i) { flags.emplace_back(argv[i]); }
    tooling::FixedCompilationDatabase db(".", flags);
    tooling::ClangTool tool(db, {source});
    DiagSink sink;
    tool.setDiagnosticConsumer(&sink);
    Factory factory;
    int rc = tool.run(&factory);
    json::Object s;
    s["t"]       = "summary";
    s["funcs"]   = gFuncs;
    s["records"] = gRecords;
    s["vars"]    = gVars;
    s["errors"]  = gErrors;
    s["rc"]      = rc;
    emit(std::move(s));
    gOut->flush();
    return 0;
}
