#!/bin/sh
# builds the libTooling extractor into /verif/build (offline; ~15 s)
set -e
here=$(cd "$(dirname "$0")" && pwd)
out="$here/../../build"
mkdir -p "$out"
if [ "$out/tetl-ast" -nt "$here/tetl-ast.cc" ]; then exit 0; fi
clang++ $(llvm-config-14 --cxxflags) -std=c++17 -O1 -fno-rtti "$here/tetl-ast.cc" -o "$out/tetl-ast.tmp" \
    /usr/lib/llvm-14/lib/libclang-cpp.so.14 /usr/lib/llvm-14/lib/libLLVM-14.so
mv "$out/tetl-ast.tmp" "$out/tetl-ast"
