#!/bin/sh
# Confirm one refactoring delivered by a sub-agent: tools/refactor_confirm.sh <AREA-ID> <K>
# the patch applies to /repo HEAD (scratch worktree) and the full suite passes with it; then copy to /verif/refactors/<ID>-<K>/
set -u
P=$1; K=$2; WT=${3:-/tmp/wt/$P}; SRC=${SRCROOT:-/tmp/refac}/$P/$K
[ -f "$SRC/patch.diff" ] || { echo "no patch in $SRC"; exit 2; }
git -C "$WT" checkout -q -- . || exit 2
[ "$(git -C "$WT" rev-parse HEAD)" = "$(git -C /repo rev-parse HEAD)" ] || { echo "worktree not at /repo HEAD"; exit 2; }
git -C "$WT" apply --check "$SRC/patch.diff" || { echo "patch does not apply"; exit 1; }
git -C "$WT" apply "$SRC/patch.diff"
if [ ! -d "$WT/_build" ]; then
  cmake -S "$WT" -B "$WT/_build" -G Ninja -DCMAKE_BUILD_TYPE=RelWithDebInfo -DCMAKE_CXX_FLAGS=-Wno-error -DTETL_BUILD_CONTRACT_CHECKS=ON >/dev/null 2>&1
fi
cmake --build "$WT/_build" -j ${JOBS:-16} >/tmp/refac_build_$P.log 2>&1; BR=$?
CT="(build failed)"
[ $BR -eq 0 ] && CT=$(ctest --test-dir "$WT/_build" -j ${JOBS:-16} 2>&1 | grep 'tests passed')
git -C "$WT" checkout -q -- .
echo "suite with patch: build=$BR $CT"
if [ $BR -eq 0 ] && echo "$CT" | grep -q '100% tests passed, 0 tests failed out of 261'; then
  T=/verif/refactors/$P-$K; mkdir -p "$T"; cp "$SRC/patch.diff" "$T/"; cp "$SRC/meta.json" "$T/" 2>/dev/null || echo '{}' > "$T/meta.json"
  echo "CONFIRMED -> $T"
else
  echo "NOT CONFIRMED"; exit 1
fi
