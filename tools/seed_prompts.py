#!/usr/bin/env python3
"""Write the briefs for one round of seeded changes: tools/seed_prompts.py <outdir> <style> [PROP ...]
Each brief holds only the property's own text (properties.jsonl) and the functions / files earlier rounds already used (from
seeded/*/meta.json) -- nothing about the checks. The sub-agent works in /tmp/wt/<PROP> and delivers into <outdir>/<PROP>/K/."""
import json
import os
import sys

VERIF = os.path.dirname(os.path.dirname(os.path.abspath(__file__)))
STYLES = {
    "review": "This time make the kind of mistake that survives code review: a plausible-looking local rewrite of 2-8 lines (an early return added for a 'trivial' case that is not trivial, a loop restructured with a subtly different bound or starting point, a helper call replaced by an 'equivalent' one that differs at a boundary, a condition simplified using an assumption that does not always hold, two statements swapped whose order matters, a value cached before it is updated, an overload delegating to the wrong sibling).",
    "boundary": "This time aim at a boundary that the current code handles explicitly or implicitly: an empty range or string, a single element, size() == capacity(), a count of 0 or a negative count, pos == size() or pos == npos, the most negative value of a signed type, the widest or narrowest type argument, rank 0 or an extent of 0, equivalent / equal elements, arguments that alias the object itself (self-assignment, inserting a container's own element or a view into itself). The change must read like a simplification: two special cases unified, a redundant-looking check or branch dropped, an `<=` tidied to `<`, a loop started or stopped one position differently because 'the other end handles it', a clamp replaced by a precondition or the other way round.",
    "feature": "This time the change is dressed as a legitimate contribution: a small performance improvement, a generalisation to more types, a de-duplication that routes one function through another, a clean-up that replaces hand-written code by a library call (or the other way round), a 'fix' for a compiler warning (a cast, a changed integer type, an added or removed const / noexcept / constexpr / explicit, a changed default argument), or support for a corner case that accidentally changes another. The commit message you would write for it must sound reasonable. The mistake must be in semantics, not in style: a type that is too narrow or has the wrong signedness, an argument order, a changed evaluation order, a wrong sibling, an inclusive/exclusive mix-up, a forgotten state update, a condition that is right for the common instantiation and wrong for another.",
    "types": "This time the change must be right for the instantiations and call sequences that the unit tests use and wrong for another one that the property quantifies over: a different element / character / integer type (a narrower or wider one, signed instead of unsigned, a non-trivial, move-only or throwing-free user type, a type with a user-defined comparison or conversion), a different capacity or extent (0, 1, a non-power-of-two), a different value category of the argument (lvalue vs rvalue, const vs non-const), a different overload of the same name, or a different ORDER of otherwise tested operations (state left behind by one member function that a later one relies on). Typical shapes: a `static_cast` to a fixed type where the template parameter was meant, `sizeof` / `numeric_limits` of the wrong type, a `memcpy`/bitwise shortcut applied without the trait that guards it, a `move` where a copy is needed because the source is used again, a member not updated on one branch, a const overload that differs from the non-const one, a helper instantiated with swapped template arguments.",
    "sequence": "This time the change must only show through the INTERPLAY of two operations or through a particular history: one member function leaves the object in a state (a stale cached value, a terminator / sentinel / padding element not rewritten, a size or index field updated before or after the data it describes, an element left moved-from, a flag not reset, capacity bookkeeping off by one only when full or only when empty) that is harmless for the calls the unit tests make next and wrong for another later call the property quantifies over; or a function that is correct when called first and wrong when called after a specific other one (after clear(), after a failed / rejected insertion, after a move-from, after a swap with an empty object, after a resize down followed by a resize up, after an erase of the last element, after an assignment from a shorter / longer source, after an exception-free early return). Also eligible: the same operation applied twice (idempotence lost), an operation and its inverse (push/pop, insert/erase, set/reset, ++/--) no longer cancelling at a boundary, const and non-const access paths diverging after a mutation. The single call that the tests make must still give the right answer.",
}


def main():
    out, style = sys.argv[1], sys.argv[2]
    props = {}
    for ln in open(os.path.join(VERIF, "properties.jsonl")):
        p = json.loads(ln)
        props[p["id"]] = p
    claimed = [c["property_id"] for c in json.load(open(os.path.join(VERIF, "MANIFEST.json")))["checks"]]
    ids = sys.argv[3:] or claimed
    used_f, used_files = {}, {}
    for d in sorted(os.listdir(os.path.join(VERIF, "seeded"))):
        mp = os.path.join(VERIF, "seeded", d, "meta.json")
        if not os.path.isfile(mp):
            continue
        m = json.load(open(mp))
        pid = m.get("property") or d.split("-")[0]
        for fn in m.get("functions", []) or []:
            used_f.setdefault(pid, [])
            if fn not in used_f[pid]:
                used_f[pid].append(fn)
        for fl in m.get("files", []) or []:
            used_files.setdefault(pid, [])
            if fl not in used_files[pid]:
                used_files[pid].append(fl)
    os.makedirs(out, exist_ok=True)
    for pid in ids:
        p = props[pid]
        q = p.get("quantifier", {})
        wt = "/tmp/wt/" + pid
        dst = os.path.join(out, pid)
        os.makedirs(dst, exist_ok=True)
        txt = []
        txt.append("You are helping to evaluate how well a verification effort detects regressions in the C++ library tobanteEmbedded/tetl (header-only, freestanding C++20 STL-like library for embedded targets). Your job is to play the role of a developer who makes a plausible but WRONG change to the library.\n")
        txt.append("Your private scratch git worktree of the library is at: %s (work ONLY there and in %s; never touch /repo or /verif, never read /verif, never read other directories under /tmp/seed*).\n" % (wt, dst))
        txt.append("The property that your change must break is:\n\n-----\nProperty %s: %s\n\nStatement: %s\n\nQuantifier (what it ranges over): %s\n\nWhy the existing tests cannot settle it: %s\n\n-----\n" % (
            pid, p["title"], p["statement"], q.get("text", ""), p.get("why_tests_cant", "")))
        txt.append("Task: produce TWO different, independent changes to the library source (headers under %s/include/etl/...), each of which\n"
                   "  1. breaks the property above (for at least one input / sequence / type that the property quantifies over),\n"
                   "  2. still compiles, and still passes the library's existing test suite completely (all 261 tests),\n"
                   "  3. looks like something a real maintainer could plausibly commit - NOT a blatant sabotage, no dead `if (x == 12345)` special-casing, no comments pointing out the bug,\n"
                   "  4. needs something specific to manifest: a particular input value, boundary, size relation, operation order, type argument, or overload - so that the handful of inputs in the existing unit tests do not trip over it." % wt)
        ex = ""
        if used_f.get(pid):
            ex += "Do NOT modify these functions, which earlier rounds already used: " + "; ".join(used_f[pid]) + ". "
        if used_files.get(pid):
            ex += "Earlier rounds changed these files: " + ", ".join(used_files[pid]) + " - where the property covers other files too, prefer those; otherwise pick functions in these files that are far from the ones listed. "
        txt.append(ex + STYLES[style] + " Each change stays inside ONE function that the property's statement is about (any public member or free function it names, or a helper directly used by one). Make the two changes differ in kind and in location (different functions / files, different failure mechanism). Prefer small changes (1-15 lines each). The build must stay free of new compiler warnings.\n")
        txt.append("How to build and run the existing tests in your worktree (takes a few minutes the first time; ccache is not available; other jobs share the machine, use at most -j 3):\n"
                   "  cd %s\n  cmake -S . -B _build -G Ninja -DCMAKE_BUILD_TYPE=RelWithDebInfo -DCMAKE_CXX_FLAGS=-Wno-error -DTETL_BUILD_CONTRACT_CHECKS=ON\n"
                   "  cmake --build _build -j 3\n  ctest --test-dir _build -j 3 --output-on-failure | tail -5      # must report 100%% tests passed out of 261\n"
                   "You only need to rebuild after each change (ninja rebuilds what depends on the headers you touched). A standalone program can be compiled with e.g.\n"
                   "  g++ -std=c++20 -I%s/include demo.cpp -o demo      (look at %s/include/etl/_config and CMakeLists for the available config macros)\n"
                   "There is no network access. Do not install anything.\n" % (wt, wt, wt))
        txt.append("For each change K in {1,2} deliver, in the directory %s/K/ :\n"
                   "  - patch.diff : output of `git -C %s diff` containing ONLY that change (make change 1, save, `git -C %s checkout -- .`, then make change 2 on the clean tree, save). The patch must apply with `git apply` on a clean checkout of the same commit.\n"
                   "  - demo.cpp   : a small standalone program (only the tetl headers and the standard library) that exercises the broken behaviour: it must exit 0 and print \"OK\" on the UNCHANGED library, and exit non-zero printing what went wrong with the change applied. Put the exact compile+run command in a comment at the top.\n"
                   "  - meta.json  : {\"property\": \"<id>\", \"files\": [...], \"functions\": [...], \"summary\": \"<one sentence: what was changed>\", \"manifests_when\": \"<what specific input/sequence/type is needed>\", \"why_tests_pass\": \"<why the existing suite does not notice>\"}\n"
                   "You must actually verify, for each change: (a) the full test suite builds and passes with the change applied (show the ctest summary line), (b) demo fails with the change and passes without it.\n"
                   "When you are done, leave the worktree clean (`git -C %s checkout -- .`; you may leave the _build directory) and reply with a short report: for each change the summary, the ctest summary line you observed, and the demo output before/after." % (dst, wt, wt, wt))
        open(os.path.join(out, pid + "_prompt.txt"), "w").write("\n".join(txt) + "\n")
    print("wrote %d briefs to %s" % (len(ids), out))


if __name__ == "__main__":
    main()
