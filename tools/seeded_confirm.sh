#!/bin/sh
# Confirm one seeded change delivered by a sub-agent: tools/seeded_confirm.sh <PROP> <K> [worktree]
# 1. the patch applies to a clean checkout of /repo's HEAD (scratch worktree, never /repo itself)
# 2. the demonstration passes on the unchanged tree and fails with the patch
# 3. the library's whole test suite builds and passes with the patch
# On success the change is copied to /verif/seeded/<PROP>-<K>/ (patch.diff, demo.cpp, meta.json + confirmation record).
set -u
P=$1; K=$2; WT=${3:-/tmp/wt/$P}; SRC=${SRCROOT:-/tmp/seed}/$P/$K
[ -f "$SRC/patch.diff" ] || { echo "no patch in $SRC"; exit 2; }
git -C "$WT" checkout -q -- . || exit 2
[ "$(git -C "$WT" rev-parse HEAD)" = "$(git -C /repo rev-parse HEAD)" ] || { echo "worktree not at /repo HEAD"; exit 2; }
D=$(mktemp -d /tmp/seedconf.XXXXXX)
DEFS=$(head -25 "$SRC/demo.cpp" | grep -o -- '-D[A-Za-z_0-9=]*' | sort -u | tr '\n' ' ')
CXX="g++ -std=c++20 -O1 $DEFS -I$WT/include"
$CXX "$SRC/demo.cpp" -o "$D/demo_before" 2>"$D/cc_before.log" || { echo "demo does not compile on the unchanged tree"; tail -5 "$D/cc_before.log"; exit 1; }
"$D/demo_before" >"$D/out_before.txt" 2>&1; RB=$?
git -C "$WT" apply --check "$SRC/patch.diff" || { echo "patch does not apply"; exit 1; }
git -C "$WT" apply "$SRC/patch.diff"
$CXX "$SRC/demo.cpp" -o "$D/demo_after" 2>"$D/cc_after.log"; CA=$?
RA=99
if [ $CA -eq 0 ]; then timeout 60 "$D/demo_after" >"$D/out_after.txt" 2>&1; RA=$?; else cp "$D/cc_after.log" "$D/out_after.txt"; fi
if [ ! -d "$WT/_build" ]; then
  cmake -S "$WT" -B "$WT/_build" -G Ninja -DCMAKE_BUILD_TYPE=RelWithDebInfo -DCMAKE_CXX_FLAGS=-Wno-error -DTETL_BUILD_CONTRACT_CHECKS=ON >/dev/null 2>&1
fi
cmake --build "$WT/_build" -j 16 >"$D/build.log" 2>&1; BR=$?
CT="(build failed)"
if [ $BR -eq 0 ]; then CT=$(ctest --test-dir "$WT/_build" -j 16 2>&1 | grep 'tests passed' ); fi
git -C "$WT" checkout -q -- .
echo "demo before: exit=$RB $(head -c 200 "$D/out_before.txt" | tr '\n' ' ')"
echo "demo after : exit=$RA $(head -c 300 "$D/out_after.txt" | tr '\n' ' ')"
echo "suite with patch: build=$BR $CT"
OK=0
[ $RB -eq 0 ] && [ $RA -ne 0 ] && [ $BR -eq 0 ] && echo "$CT" | grep -q '100% tests passed, 0 tests failed out of 261' && OK=1
if [ $OK -eq 1 ]; then
  T=/verif/seeded/$P-${DESTK:-$K}; mkdir -p "$T"
  cp "$SRC/patch.diff" "$SRC/demo.cpp" "$T/"
  python3 - "$SRC/meta.json" "$T/meta.json" "$P" "$RB" "$RA" "$CT" "$D/out_after.txt" <<'PY'
import json,sys
src,dst,p,rb,ra,ct,oa=sys.argv[1:8]
try: m=json.load(open(src))
except Exception: m={}
m["property"]=p
m["confirmed"]={"base_commit":__import__("subprocess").run(["git","-C","/repo","rev-parse","--short","HEAD"],capture_output=True,text=True).stdout.strip(),
  "demo_exit_unchanged":int(rb),"demo_exit_patched":int(ra),"demo_output_patched":open(oa).read()[:400],"suite_with_patch":ct.strip()}
json.dump(m,open(dst,"w"),indent=1)
PY
  echo "CONFIRMED -> $T"
else
  echo "NOT CONFIRMED"
fi
rm -rf "$D"
[ $OK -eq 1 ]
