#!/bin/bash
# Look for verdicts that depend on Python's hash seed (set iteration order): run every claimed check under several seeds
# and compare the alarm lines. usage: tools/seed_sweep.sh [seeds...]   (default 1..6)
cd "$(dirname "$0")/.."
seeds=${@:-1 2 3 4 5 6}
props=$(python3 -c "import json;print(' '.join(c['property_id'] for c in json.load(open('MANIFEST.json'))['checks']))")
rc=0
for p in $props; do
  ref=""
  for s in $seeds; do
    d=$(mktemp -d)
    out=$(TETL_VERIF_ANYSEED=1 PYTHONHASHSEED=$s TETL_VERIF_OUT=$d ./check $p 2>&1; echo "exit=$?")
    rm -rf $d
    sig=$(echo "$out" | grep -E "^(VIOLATION|KNOWN-FINDING|ANALYSIS-BROKEN|exit=)" | sort | md5sum)
    if [ -z "$ref" ]; then ref=$sig; elif [ "$ref" != "$sig" ]; then echo "$p: verdict differs under seed $s"; rc=1; fi
  done &
done
wait
exit $rc
