"""Terms, predicate normalisation and the bounded-model ("small model") evaluator.

A term is a nested tuple:
  ('c', int)                      integer constant (adapts to the other operand's signedness)
  ('v', name, sort)               atom; sort in u (unsigned 64), s (signed 64), p (position relative to the
                                  receiver's begin(); compared mathematically), b (boolean), st (object state, unsigned)
  ('+'|'-'|'*'|'/'|'%', a, b)     machine arithmetic (64 bit, wrap-around when an operand is unsigned)
  ('neg', a)
  ('min'|'max', a, b), ('ite', c, a, b)
  ('cmp', op, a, b)               op in < <= == != >= >
  ('not', a) ('and', a, b) ('or', a, b)
  ('cast', 'u'|'s'|'b', a)        signedness-changing conversion
  ('unk', text)                   not modelled: evaluation yields None (unknown)

Evaluation is three-valued: None means "unknown in this model".
"""
from . import astx

M64 = 1 << 64
S63 = 1 << 63

UNSIGNED_DOMAIN = [0, 1, 2, 3, 4, 5, 6, S63 - 1, S63, M64 - 2, M64 - 1]
SIGNED_DOMAIN = [-S63, -2, -1, 0, 1, 2, 3, 4, 5, 6, S63 - 1]
POS_DOMAIN = [-2, -1, 0, 1, 2, 3, 4, 5, 6, 7]
STATE_DOMAIN = [0, 1, 2, 3, 4, 5, 6, 1000]
BOOL_DOMAIN = [0, 1]
NPOS = M64 - 1

UNSIGNED_TYPES = ("size_t", "size_type", "unsigned", "uint8_t", "uint16_t", "uint32_t", "uint64_t", "uintmax_t",
                  "uintptr_t", "index_type", "rank_type")
SIGNED_TYPES = ("ptrdiff_t", "difference_type", "int", "long", "short", "int8_t", "int16_t", "int32_t", "int64_t",
                "intmax_t", "ssize_t")


def sort_of_type(ty):
    """Sort of a C++ type as written; None when it depends on a template parameter."""
    t = ty.replace("const", " ").replace("&", " ").replace("typename", " ").strip()
    if t.endswith("*") or "iterator" in t or "pointer" in t:
        return "p"
    base = t.split("::")[-1].strip()
    if base == "bool":
        return "b"
    if base in UNSIGNED_TYPES or t.startswith("unsigned"):
        return "u"
    if base in SIGNED_TYPES:
        return "s"
    return None


def c(v):
    return ("c", int(v))


def var(name, sort):
    return ("v", name, sort)


def atoms(t, acc=None):
    if acc is None:
        acc = {}
    if not isinstance(t, tuple):
        return acc
    if t[0] == "v":
        acc[t[1]] = t[2]
    elif t[0] in ("c", "unk"):
        pass
    else:
        for x in t[1:]:
            if isinstance(x, tuple):
                atoms(x, acc)
    return acc


def has_unknown(t):
    if not isinstance(t, tuple):
        return False
    if t[0] == "unk":
        return True
    return any(has_unknown(x) for x in t[1:] if isinstance(x, tuple))


def subst(t, mapping):
    """Replace atoms by terms (mapping: name -> term)."""
    if not isinstance(t, tuple):
        return t
    if t[0] == "v":
        return mapping.get(t[1], t)
    if t[0] in ("c", "unk"):
        return t
    return tuple([t[0]] + [subst(x, mapping) if isinstance(x, tuple) else x for x in t[1:]])


def show(t):
    if not isinstance(t, tuple):
        return str(t)
    k = t[0]
    if k == "c":
        v = t[1]
        if v == NPOS:
            return "npos"
        return str(v)
    if k == "v":
        return t[1]
    if k == "unk":
        return "?{" + t[1] + "}"
    if k in ("+", "-", "*", "/", "%"):
        return "(" + show(t[1]) + " " + k + " " + show(t[2]) + ")"
    if k == "neg":
        return "-" + show(t[1])
    if k in ("min", "max"):
        return k + "(" + show(t[1]) + ", " + show(t[2]) + ")"
    if k == "ite":
        return "(" + show(t[1]) + " ? " + show(t[2]) + " : " + show(t[3]) + ")"
    if k == "cmp":
        return "(" + show(t[2]) + " " + t[1] + " " + show(t[3]) + ")"
    if k == "not":
        return "!" + show(t[1])
    if k in ("and", "or"):
        return "(" + show(t[1]) + (" && " if k == "and" else " || ") + show(t[2]) + ")"
    if k == "cast":
        w = str(t[3]) if len(t) > 3 else ""
        return {"u": "unsigned", "s": "signed", "b": "bool"}[t[1]] + w + "(" + show(t[2]) + ")"
    if k == "p":
        return show(t[1])
    return str(t)


# --------------------------------------------------------------------------------------------- evaluation
class Val:
    """value with signedness: sort in u/s/p/b/c (c = literal, adapts)."""
    __slots__ = ("v", "s")

    def __init__(self, v, s):
        self.v = v
        self.s = s


def _wrap(v, sort):
    if sort == "u":
        return v % M64
    if sort == "s":
        v = v % M64
        return v - M64 if v >= S63 else v
    return v


def _arith_sort(a, b):
    if a.s == "p" or b.s == "p":
        return "p"
    if a.s == "u" or b.s == "u":
        return "u"
    if a.s == "s" or b.s == "s":
        return "s"
    if a.s == "m" or b.s == "m":
        return "m"
    return "c"


def evaluate(t, env, math=False):
    """Evaluate term t in env (name -> int). math=True: unbounded integers (used for specifications).
    Returns Val or None (unknown)."""
    k = t[0]
    if k == "c":
        return Val(t[1], "c")
    if k == "v":
        if t[1] not in env or env[t[1]] is None:
            return None
        s = t[2]
        if s == "st":
            s = "u"
        if math and s in ("u", "s"):
            s = "m"
        return Val(env[t[1]], s)
    if k == "unk":
        return None
    if k in ("+", "-", "*", "/", "%"):
        a = evaluate(t[1], env, math)
        b = evaluate(t[2], env, math)
        if a is None or b is None:
            return None
        so = _arith_sort(a, b)
        av, bv = a.v, b.v
        if so == "u":
            av, bv = av % M64, bv % M64
        if k == "+":
            r = av + bv
        elif k == "-":
            r = av - bv
        elif k == "*":
            r = av * bv
        else:
            if bv == 0:
                return None
            q = abs(av) // abs(bv)
            if (av < 0) != (bv < 0):
                q = -q
            r = q if k == "/" else av - q * bv
        return Val(_wrap(r, so) if not math else r, so)
    if k == "neg":
        a = evaluate(t[1], env, math)
        if a is None:
            return None
        return Val(_wrap(-a.v, a.s) if not math else -a.v, a.s)
    if k in ("min", "max"):
        a = evaluate(t[1], env, math)
        b = evaluate(t[2], env, math)
        if a is None or b is None:
            return None
        so = _arith_sort(a, b)
        av, bv = a.v, b.v
        if so == "u":
            av, bv = av % M64, bv % M64
        return Val(min(av, bv) if k == "min" else max(av, bv), so)
    if k == "ite":
        cnd = truth(t[1], env, math)
        if cnd is None:
            a = evaluate(t[2], env, math)
            b = evaluate(t[3], env, math)
            if a is not None and b is not None and a.v == b.v:
                return a
            return None
        return evaluate(t[2] if cnd else t[3], env, math)
    if k == "p":
        a = evaluate(t[1], env, math)
        if a is None:
            return None
        return Val(a.v, "p")
    if k == "cast":
        a = evaluate(t[2], env, math)
        if a is None:
            return None
        if t[1] == "b":
            return Val(1 if a.v != 0 else 0, "b")
        if math:
            return Val(a.v, "m")
        if len(t) > 3:
            w = t[3]
            v = a.v % (1 << w)
            if t[1] == "s" and v >= (1 << (w - 1)):
                v -= 1 << w
            return Val(v, t[1])
        if a.s == "p" and t[1] == "s":
            return Val(a.v, "s")
        return Val(_wrap(a.v, t[1]), t[1])
    if k in ("cmp", "not", "and", "or"):
        r = truth(t, env, math)
        if r is None:
            return None
        return Val(1 if r else 0, "b")
    return None


def truth(t, env, math=False):
    """Three-valued truth of a predicate term."""
    k = t[0]
    if k == "cmp":
        a = evaluate(t[2], env, math)
        b = evaluate(t[3], env, math)
        if a is None or b is None:
            return None
        av, bv = a.v, b.v
        if not math and (a.s == "u" or b.s == "u") and a.s != "p" and b.s != "p":
            av, bv = av % M64, bv % M64
        op = t[1]
        if op == "<":
            return av < bv
        if op == "<=":
            return av <= bv
        if op == "==":
            return av == bv
        if op == "!=":
            return av != bv
        if op == ">=":
            return av >= bv
        if op == ">":
            return av > bv
        return None
    if k == "not":
        r = truth(t[1], env, math)
        return None if r is None else (not r)
    if k == "and":
        a = truth(t[1], env, math)
        if a is False:
            return False
        b = truth(t[2], env, math)
        if b is False:
            return False
        if a is None or b is None:
            return None
        return True
    if k == "or":
        a = truth(t[1], env, math)
        if a is True:
            return True
        b = truth(t[2], env, math)
        if b is True:
            return True
        if a is None or b is None:
            return None
        return False
    if k == "ite":
        cnd = truth(t[1], env, math)
        if cnd is None:
            a = truth(t[2], env, math)
            b = truth(t[3], env, math)
            return a if a == b else None
        return truth(t[2] if cnd else t[3], env, math)
    v = evaluate(t, env, math)
    if v is None:
        return None
    return v.v != 0


def domain_for(sort):
    if sort == "u":
        return UNSIGNED_DOMAIN
    if sort == "s":
        return SIGNED_DOMAIN
    if sort == "p":
        return POS_DOMAIN
    if sort == "st":
        return STATE_DOMAIN
    if sort == "b":
        return BOOL_DOMAIN
    return UNSIGNED_DOMAIN


def constants_in(t, acc):
    if not isinstance(t, tuple):
        return acc
    if t[0] == "c":
        acc.add(t[1])
    elif t[0] not in ("v", "unk"):
        for x in t[1:]:
            if isinstance(x, tuple):
                constants_in(x, acc)
    return acc


def models(atom_sorts, invariants=(), limit=400000, constants=()):
    """Enumerate all assignments of the atoms over their finite domains that satisfy the invariants
    (terms that must not evaluate to False). Constants occurring in the predicates extend the domains (c-1, c, c+1)."""
    names = sorted(atom_sorts)
    extra = set()
    for k in constants:
        if 6 < k < S63 - 2:
            extra.update((k - 1, k, k + 1))
    doms = []
    for n in names:
        d = list(domain_for(atom_sorts[n]))
        if extra and atom_sorts[n] in ("u", "s", "st", "?"):
            d = sorted(set(d) | set(list(sorted(extra))[:9]))
        doms.append(d)
    total = 1
    for d in doms:
        total *= len(d)
    if total > limit:
        # shrink: drop the middle values of every domain
        doms = [[d[0], d[1], d[2], d[3], d[-2], d[-1]] if len(d) > 6 else d for d in doms]
    env = {}

    def rec(i):
        if i == len(names):
            for inv in invariants:
                if truth(inv, env) is False:
                    return
            yield dict(env)
            return
        for v in doms[i]:
            env[names[i]] = v
            for m in rec(i + 1):
                yield m

    for m in rec(0):
        yield m


def show_model(m):
    def f(v):
        if v is None:
            return "?"
        if v == M64 - 1:
            return "2^64-1"
        if v == M64 - 2:
            return "2^64-2"
        if v == S63:
            return "2^63"
        if v == S63 - 1:
            return "2^63-1"
        if v == -S63:
            return "-2^63"
        return str(v)
    return ", ".join("%s=%s" % (k, f(m[k])) for k in sorted(m))


# --------------------------------------------------------------------------------------------- AST -> term
SIZE_NAMES = ("size", "length", "ssize")
CAP_NAMES = ("capacity", "max_size")
BEGIN_NAMES = ("begin", "cbegin", "data")
END_NAMES = ("end", "cend")
CMP_OPS = ("<", "<=", "==", "!=", ">=", ">")


class TermCtx:
    """Context for converting AST expressions of one function into terms.

    objects: expression-path -> canonical object name ('this', parameter names, 'this.field').
    locals:  name -> term for const locals defined in the straight-line prefix.
    sorts:   name -> sort for parameters/locals of known type.
    """

    def __init__(self, func, db=None, this_name="this"):
        self.func = func
        self.db = db
        self.this_name = this_name
        self.locals = {}
        self.sorts = {}
        self.param_subst = {}
        self.size_fields = set()
        self.plain_size_fields = set()
        self.cap_names = set()
        self.nttp_map = {}
        self.depth = 0
        self.obj_types = {}      # object name -> (type string, record providing the alias context)
        self.type_ctx = {}
        for p in func.get("params", []):
            self.obj_types[p["n"]] = (p["ty"], func.get("record"))
        ups = [p for p in func.get("tparams", []) or []]
        for tp in ups:
            if tp.get("k") == "type" and tp.get("constraint"):
                cs = tp["constraint"]
                for p in func.get("params", []):
                    base = p["ty"].replace("const", "").replace("&", "").strip()
                    if base == tp["n"]:
                        if "unsigned" in cs:
                            self.sorts[p["n"]] = "u"
                        elif "signed_integral" in cs:
                            self.sorts[p["n"]] = "s"
        self.nttp_sorts = {}
        for p in func.get("params", []):
            s = sort_of_type(p["ty"])
            if s is not None or p["n"] not in self.sorts:
                self.sorts[p["n"]] = s
        if db is not None and func.get("record"):
            self._derive_roles(func["record"])

    def _derive_roles(self, rec_q):
        """size/capacity field roles from the public observers (one-line getters), through the base lineage."""
        db = self.db
        for rq in db.lineage(rec_q):
            for name in SIZE_NAMES + ("get_size",):
                for f in db.by_q.get(rq + "::" + name, []):
                    e = one_line_return(f)
                    if e is not None and e.get("k") == "mem" and astx.is_this(e.get("b")) and e.get("dk") == "field":
                        self.plain_size_fields.add(e["n"])
                    for x in astx.walk_expr(e):
                        if x.get("k") == "mem" and astx.is_this(x.get("b")) and x.get("dk") == "field":
                            self.size_fields.add(x["n"])
            for name in CAP_NAMES:
                for f in db.by_q.get(rq + "::" + name, []):
                    e = one_line_return(f)
                    if e is not None and e.get("k") == "ref" and e.get("d") == "nttp":
                        self.cap_names.add(e["n"])

    def record_of(self, o):
        """(record qualified name, {callee NTTP name -> term}) for an object path; (None, {}) if unknown."""
        db = self.db
        if db is None or not o:
            return None, {}
        if o == self.this_name:
            return self.func.get("record"), dict(self.nttp_map)
        if o in self.type_ctx:
            return self.type_ctx[o]
        parts = o.split(".")
        # longest known prefix
        cur = None
        argtext = ""
        rest = parts
        if o.startswith(self.this_name + ".") or o == self.this_name:
            n0 = len(self.this_name.split("."))
            cur = self.func.get("record")
            rest = parts[n0:]
        elif parts[0] in self.obj_types:
            ty, ctx_rec = self.obj_types[parts[0]]
            r = db.resolve_type(ty, ctx_rec or self.func.get("record"))
            if r is None:
                return None, {}
            cur, argtext = r
            rest = parts[1:]
        else:
            return None, {}
        for fld in rest:
            found = None
            for rq in db.lineage(cur) if cur else []:
                rec = db.record(rq)
                if not rec:
                    continue
                for fd in rec["fields"]:
                    if fd["n"] == fld:
                        found = (fd["ty"], rq)
            if found is None:
                return None, {}
            r = db.resolve_type(found[0], found[1])
            if r is None:
                return None, {}
            cur, argtext = r
        rq = cur
        tmap = {}
        rec = db.record(rq) if rq else None
        if rec and argtext:
            args = split_targs(argtext)
            for tp, a in zip(rec.get("tparams", []), args):
                if tp.get("k") == "nttp":
                    if a.isdigit():
                        tmap[tp["n"]] = c(int(a))
                    elif a in self.nttp_map:
                        tmap[tp["n"]] = self.nttp_map[a]
                    elif a.replace("_", "").isalnum():
                        if a in self.cap_names:
                            tmap[tp["n"]] = canonical("cap", self.this_name, self)
                        else:
                            tmap[tp["n"]] = var(a, "st")
        return rq, tmap

    def obj(self, e):
        """Canonical object name for a receiver expression, or None."""
        if e is None or astx.is_this(e):
            return self.this_name
        e = astx.strip_casts(e)
        k = e.get("k")
        if k == "ref":
            if e["n"] in self.param_subst:
                return self.param_subst[e["n"]]
            return e["n"]
        if k == "mem" and e.get("dk", "field") != "method":
            b = self.obj(e.get("b"))
            if b is None:
                return None
            return b + "." + e["n"]
        if k == "un" and e["op"] == "*":
            return self.obj(e["e"])
        if k == "call":
            n, q, recv, kind = astx.callee(e)
            if n in ("forward", "move", "as_const") and len(e["a"]) == 1:
                return self.obj(e["a"][0])
        return None


def width_of_type(ty):
    t = ty.replace("const", " ").replace("&", " ").replace("etl::", "").replace("std::", "").strip()
    if t in ("int", "unsigned", "unsigned int", "int32_t", "uint32_t"):
        return 32
    if t in ("short", "unsigned short", "int16_t", "uint16_t"):
        return 16
    if t in ("char", "signed char", "unsigned char", "int8_t", "uint8_t"):
        return 8
    return 64


def cast_term(ty, inner):
    """Conversion to a type as written. Unknown (dependent) target types are value-preserving by assumption."""
    s = sort_of_type(ty)
    if s in ("u", "s"):
        w = width_of_type(ty)
        return ("cast", s, inner) if w == 64 else ("cast", s, inner, w)
    if s == "b":
        return ("cast", "b", inner)
    return inner


def one_line_return(func):
    b = func.get("body")
    if not b or b.get("k") != "seq" or len(b["s"]) != 1:
        return None
    s = b["s"][0]
    if s.get("k") != "return":
        return None
    return s.get("e")


def unk(e):
    return ("unk", astx.show(e, 80))


_STATIC_STACK = []


def to_term(e, ctx):
    """Convert an AST expression into a term (never raises; unmodelled parts become ('unk', text))."""
    _CUR["ctx"] = ctx
    if e is None:
        return ("unk", "<null>")
    k = e.get("k")
    if k == "int":
        return c(int(e["v"]))
    if k == "bool":
        return c(1 if e["v"] else 0)
    if k == "char":
        return c(e["v"])
    if k == "nullptr":
        return c(0)
    if k == "ref":
        n = e["n"]
        d = e.get("d")
        if d in ("param", "local", "binding"):
            if n in ctx.locals:
                return ctx.locals[n]
            if n in ctx.param_subst and isinstance(ctx.param_subst[n], tuple):
                return ctx.param_subst[n]
            if n in ctx.param_subst and isinstance(ctx.param_subst[n], str):
                return var(ctx.param_subst[n], "?")
            s = ctx.sorts.get(n)
            if s is None and e.get("ty"):
                s = sort_of_type(e["ty"])
            return var(n, s or "?")
        if d == "nttp":
            if n in ctx.nttp_map:
                return ctx.nttp_map[n]
            if n in ctx.cap_names:
                return canonical("cap", ctx.this_name, ctx)
            s = sort_of_type(e.get("ty", "")) or "u"
            return var(n, "st" if s == "u" else s)
        if d in ("var", "depscope", "unresolved", "enum"):
            if n == "npos" or n == "dynamic_extent":
                return c(NPOS)
            if n == "digits" and "numeric_limits" in e.get("qual", ""):
                return _digits_term(e.get("qual", ""), ctx)
            # a static constexpr member of the function's own class: its initialiser (num_words = (Bits + w - 1) / w)
            if not e.get("qual") and ctx.db is not None and ctx.func.get("record") and len(_STATIC_STACK) < 4 and n not in _STATIC_STACK:
                rec = ctx.db.record(ctx.func["record"])
                for sm in (rec or {}).get("statics", []) or []:
                    if sm.get("n") == n and sm.get("init") is not None:
                        _STATIC_STACK.append(n)
                        try:
                            t = to_term(sm["init"], ctx)
                        finally:
                            _STATIC_STACK.pop()
                        if not has_unknown(t):
                            return t
            return ("unk", (e.get("qual", "") + n))
        return unk(e)
    if k == "mem":
        b = e.get("b")
        if e.get("dk") == "field" or (e.get("dep") and not e.get("targs")):
            if astx.is_this(b) and e["n"] in ctx.plain_size_fields:
                return canonical("size", ctx.this_name, ctx)
            o = ctx.obj(e)
            if o is not None:
                return var(o, "?")
        if e["n"] == "npos":
            return c(NPOS)
        return unk(e)
    if k == "cast":
        inner = to_term(e["e"], ctx)
        return cast_term(e["ty"], inner)
    if k == "construct":
        # size_type{0}, size_type(n), T{}
        if len(e["a"]) == 1:
            inner = to_term(e["a"][0], ctx)
            return cast_term(e["ty"], inner)
        if len(e["a"]) == 0 and sort_of_type(e["ty"]) in ("u", "s", "b"):
            return c(0)
        return unk(e)
    if k == "initlist" and len(e["a"]) == 0:
        return c(0)
    if k == "initlist" and len(e["a"]) == 1:
        return to_term(e["a"][0], ctx)
    if k == "un":
        op = e["op"]
        if op == "!":
            return ("not", to_term(e["e"], ctx))
        if op == "-":
            return ("neg", to_term(e["e"], ctx))
        if op == "+":
            return to_term(e["e"], ctx)
        return unk(e)
    if k == "bin":
        op = e["op"]
        if op in ("&&", "||"):
            return ("and" if op == "&&" else "or", to_term(e["l"], ctx), to_term(e["r"], ctx))
        if op in CMP_OPS:
            return ("cmp", op, to_term(e["l"], ctx), to_term(e["r"], ctx))
        if op in ("+", "-", "*", "/", "%"):
            return (op, to_term(e["l"], ctx), to_term(e["r"], ctx))
        return unk(e)
    if k == "cond":
        return ("ite", to_term(e["c"], ctx), to_term(e["t"], ctx), to_term(e["f"], ctx))
    if k == "call":
        return call_term(e, ctx)
    if k == "sizeofpack":
        return var("sizeof...(%s)" % e["n"], "st")
    return unk(e)


FIXED_DIGITS = {"unsigned char": 8, "uint8_t": 8, "unsigned short": 16, "uint16_t": 16, "unsigned int": 32, "unsigned": 32, "uint32_t": 32,
                "unsigned long": 64, "unsigned long long": 64, "uint64_t": 64, "size_t": 64, "uintmax_t": 64, "int": 31, "long": 63,
                "long long": 63, "short": 15, "signed char": 7, "ptrdiff_t": 63, "intmax_t": 63}


def _digits_term(qual, ctx, depth=0):
    """numeric_limits<X>::digits. X the function's (or its class's) own type parameter: the symbol Digits. X a fixed type: its
    digits. X a local alias: resolved; an alias for the type of an arithmetic expression (`decltype(UInt(1) << pos)`) is the
    *promoted* type - int (31 digits) when the parameter type is narrower than int, the parameter type itself otherwise."""
    import re as _re
    m = _re.search(r"numeric_limits\s*<\s*(.*)\s*>\s*::\s*$", qual or "")
    x = (m.group(1) if m else "").replace("etl::", "").replace("const ", "").strip()
    tps = [tp["n"] for tp in (ctx.func.get("tparams") or []) if tp.get("k") == "type"]
    rec = ctx.db.record(ctx.func["record"]) if (ctx.db is not None and ctx.func.get("record")) else None
    tps += [tp["n"] for tp in ((rec or {}).get("tparams") or []) if tp.get("k") == "type"]
    if not x or x in tps or _re.match(r"^(typename\s+)?\w+::(word_type|value_type|rep)$", x) or x in ("word_type", "WordType"):
        return var("Digits", "st")
    if x in FIXED_DIGITS:
        return c(FIXED_DIGITS[x])
    if depth < 3 and ctx.func.get("body") is not None:
        for st in astx.walk_stmts(ctx.func["body"]):
            if st.get("k") != "decl":
                continue
            for v in st.get("vars", []):
                if v.get("other") == "TypeAlias" and v.get("n") == x:
                    ty = (v.get("ty") or "").replace("etl::", "").strip()
                    if ty in tps or ty in FIXED_DIGITS:
                        return _digits_term("numeric_limits<%s>::" % ty, ctx, depth + 1)
                    if _re.match(r"^decltype\s*\(.*(<<|>>|[-+*/%&|^~]).*\)$", ty) and any(_re.search(r"\b%s\b" % _re.escape(t), ty) for t in tps):
                        return ("max", var("Digits", "st"), c(31))
    return ("unk", (qual or "") + "digits")


def call_term(e, ctx):
    n, q, recv, kind = astx.callee(e)
    args = e["a"]
    f = e["f"]
    if f.get("k") == "ref" and f.get("d") in ("param", "local") and not args:
        # calling an integral_constant object yields its value
        import re as _re
        m = _re.match(r"^(?:const )?(?:etl::)?(?:index_constant|integral_constant)<(?:[^,<>]+, ?)?([A-Za-z_][A-Za-z_0-9]*)>", f.get("ty", ""))
        if m:
            name = m.group(1)
            return var(name, "st")
    if n is None:
        return unk(e)
    if kind == "member":
        if n in ("length", "strlen") and len(args) == 1 and astx.is_this(recv):
            so = ctx.obj(args[0])
            if so is not None:
                return var("strlen(%s)" % so, "u")
        o = ctx.obj(recv)
        if len(args) == 0 and o is not None:
            if n in BEGIN_NAMES:
                return begin_of(o, ctx)
            if n in END_NAMES:
                return end_of(o, ctx)
            if n in ROLE or n in ("empty", "full"):
                r = getter(o, n, ctx, ctx.depth)
                if r is not None:
                    return r
                if n == "empty":
                    return ("cmp", "==", size_of(o, ctx), c(0))
                if n == "full":
                    return ("cmp", "==", size_of(o, ctx), getter(o, "capacity", ctx, ctx.depth))
            if n == "rank":
                return var("Rank", "st")
            if n in ("max", "min") and recv is not None and "numeric_limits" in astx.show(recv):
                return unk(e)
            # any other zero-argument const member that is a one-line `return e;` (private predicates such as is_full())
            r = _plain_getter(o, n, ctx)
            if r is not None:
                return r
        if args and o is not None:
            r = _value_helper(o, n, args, ctx)
            if r is not None:
                return r
        return unk(e)
    # free functions
    if n in ("max", "min") and len(args) == 0 and "numeric_limits" in (q or ""):
        lim = numeric_limit(q, n)
        if lim is not None:
            return c(lim)
        return unk(e)
    if n == "rank" and len(args) == 0:
        return var("Rank", "st")
    if n in ("length", "strlen") and len(args) == 1:
        o = ctx.obj(args[0])
        if o is not None:
            return var("strlen(%s)" % o, "u")
    if len(args) == 0 and e["f"].get("d") in ("func", "CXXMethod", "unresolved") and (n in ROLE or n in ("empty", "full")):
        o = ctx.this_name
        r = getter(o, n, ctx, ctx.depth)
        if r is not None:
            return r
        if n == "empty":
            return ("cmp", "==", size_of(o, ctx), c(0))
        if n == "full":
            return ("cmp", "==", size_of(o, ctx), getter(o, "capacity", ctx, ctx.depth))
    if len(args) == 0 and e["f"].get("d") in ("func", "CXXMethod", "unresolved") and e["f"].get("k") in ("ref", "mem") and \
            not (e["f"].get("qual") or ""):
        r = _plain_getter(ctx.this_name, n, ctx)
        if r is not None:
            return r
    if args and e["f"].get("d") in ("func", "CXXMethod", "unresolved") and e["f"].get("k") in ("ref", "mem") and \
            not (e["f"].get("qual") or "") and n not in ("min", "max", "clamp", "forward", "move", "as_const", "distance", "next",
                                                        "prev", "length", "strlen") + SIZE_NAMES + BEGIN_NAMES + END_NAMES:
        r = _value_helper(ctx.this_name, n, args, ctx)
        if r is not None:
            return r
    if n in ("min", "max") and len(args) == 2:
        return (n, to_term(args[0], ctx), to_term(args[1], ctx))
    if n == "clamp" and len(args) == 3:
        v, lo, hi = (to_term(a, ctx) for a in args)
        return ("ite", ("cmp", "<", v, lo), lo, ("ite", ("cmp", "<", hi, v), hi, v))
    if n in ("forward", "move", "as_const") and len(args) == 1:
        return to_term(args[0], ctx)
    if len(args) == 1:
        o = ctx.obj(args[0])
        if o is not None:
            if n in SIZE_NAMES:
                return size_of(o, ctx)
            if n in BEGIN_NAMES:
                return begin_of(o, ctx)
            if n in END_NAMES:
                return end_of(o, ctx)
            if n == "empty":
                return ("cmp", "==", size_of(o, ctx), c(0))
    if n in CMP_FUNCS and len(args) == 2:
        # [utility.intcmp]: the mathematical comparison of the two values whatever their signedness ('p' values are compared
        # without conversion)
        return ("cmp", CMP_FUNCS[n], ("p", to_term(args[0], ctx)), ("p", to_term(args[1], ctx)))
    if n in ("distance",) and len(args) == 2:
        return ("-", to_term(args[1], ctx), to_term(args[0], ctx))
    if n in ("next",) and len(args) == 2:
        return ("+", to_term(args[0], ctx), to_term(args[1], ctx))
    if n in ("next",) and len(args) == 1:
        return ("+", to_term(args[0], ctx), c(1))
    if n in ("prev",) and len(args) == 1:
        return ("-", to_term(args[0], ctx), c(1))
    if n in ("prev",) and len(args) == 2:
        return ("-", to_term(args[0], ctx), to_term(args[1], ctx))
    return unk(e)


CMP_FUNCS = {"cmp_less": "<", "cmp_less_equal": "<=", "cmp_greater": ">", "cmp_greater_equal": ">=", "cmp_equal": "==",
             "cmp_not_equal": "!="}
LIMITS = {"unsigned char": (0, 255), "signed char": (-128, 127), "char": (-128, 127), "unsigned short": (0, 65535),
          "short": (-32768, 32767), "unsigned int": (0, (1 << 32) - 1), "int": (-(1 << 31), (1 << 31) - 1),
          "unsigned long": (0, M64 - 1), "long": (-S63, S63 - 1), "unsigned long long": (0, M64 - 1),
          "long long": (-S63, S63 - 1)}


def numeric_limit(q, which):
    if "<" not in q:
        return None
    ty = q[q.index("<") + 1:q.rindex(">")].strip()
    if ty in LIMITS:
        return LIMITS[ty][1 if which == "max" else 0]
    return None


def begin_of(o, ctx):
    return ("p", c(0), o)


def end_of(o, ctx):
    return ("p", size_of(o, ctx), o)


def size_of(o, ctx):
    r = getter(o, "size", ctx)
    return r if r is not None else canonical("size", o, ctx)


def split_targs(s):
    out, depth, cur = [], 0, ""
    for ch in s:
        if ch in "<([":
            depth += 1
        elif ch in ">)]":
            depth -= 1
        if ch == "," and depth == 0:
            out.append(cur.strip())
            cur = ""
        else:
            cur += ch
    if cur.strip():
        out.append(cur.strip())
    return out


ROLE = {"size": "size", "length": "size", "ssize": "size", "capacity": "cap", "max_size": "cap", "has_value": "engaged",
        "index": "index"}
ROLE_SORT = {"size": "st", "cap": "st", "engaged": "b", "index": "st"}


_CUR = {"ctx": None}


def canonical(role, o, ctx=None):
    ctx = ctx or _CUR["ctx"]
    name = "%s(%s)" % (role, o)
    b = getattr(ctx, "builder", None) if ctx is not None else None
    if b is not None and b.versioning and role != "cap":      # the capacity is a compile-time constant: one atom for all states
        v = b.versions.get(o, 0)
        if v:
            name += "#%d" % v
    return var(name, ROLE_SORT[role])


def getter(o, n, ctx, depth=0):
    """Term for the zero-argument observer o.n(): follows one-line `return e;` getters (DESIGN 4.1). Plain field
    returns become canonical state atoms, NTTP returns the (mapped) parameter, anything unresolvable the canonical
    atom of the accessor's role (None when the name has no role)."""
    role = ROLE.get(n)
    db = ctx.db
    _CUR["ctx"] = ctx
    if db is None or depth > 4:
        return canonical(role, o) if role else None
    rec_q, tmap = ctx.record_of(o)
    if rec_q is None:
        return canonical(role, o) if role else None
    cands = [f for f in db.methods(rec_q, n) if len(f["params"]) == 0]
    bodies = {}
    for f in cands:
        e = one_line_return(f)
        if e is None:
            return canonical(role, o) if role else None
        bodies.setdefault(f.get("record"), []).append((f, e))
    if not bodies:
        return canonical(role, o) if role else None
    own = bodies.get(rec_q)
    if own is None:
        if len(bodies) > 1:
            return canonical(role, o) if role else None   # alternative bases: configuration variant
        own = list(bodies.values())[0]
    f, e = own[0]
    e0 = astx.strip_casts(e)
    if e0.get("k") == "mem" and astx.is_this(e0.get("b")) and e0.get("dk") == "field":
        if role:
            return canonical(role, o)
        return var(o + "." + e0["n"], "?")
    if e0.get("k") == "ref" and e0.get("d") == "nttp":
        if role == "cap":
            return canonical("cap", o)
        if e0["n"] in tmap:
            return tmap[e0["n"]]
        return var(e0["n"], "st")
    sub = TermCtx(f, db, this_name=o)
    sub.builder = getattr(ctx, "builder", None)
    sub.nttp_map = tmap
    sub.depth = depth + 1
    sub.obj_types = dict(ctx.obj_types)
    sub.type_ctx = dict(ctx.type_ctx)
    r = to_term(e, sub)
    _CUR["ctx"] = ctx
    if has_unknown(r) and role:
        return canonical(role, o)
    return r


def _plain_getter(o, n, ctx):
    """inline a zero-argument const member without a role when it is a one-line return of a fully modelled term"""
    if ctx.db is None or ctx.depth > 4 or n in ROLE:
        return None
    try:
        rec_q, _tmap = ctx.record_of(o)
    except Exception:
        return None
    if rec_q is None:
        return None
    cands = [f for f in ctx.db.methods(rec_q, n) if len(f["params"]) == 0]
    if not cands or not all(f.get("const") or f.get("static") for f in cands):
        return None
    saved = _CUR.get("ctx")
    try:
        r = getter(o, n, ctx, ctx.depth)
    finally:
        _CUR["ctx"] = saved if saved is not None else ctx
    if r is None or has_unknown(r):
        return None
    return r


def _value_helper(o, n, args, ctx):
    """inline a const/static member of o's record that takes scalar arguments and whose body is const local
    declarations followed by one `return e;` -- only when the result is a fully modelled term (else None)."""
    if ctx.db is None or ctx.depth > 3:
        return None
    try:
        rec_q, tmap = ctx.record_of(o)
    except Exception:
        return None
    if rec_q is None:
        return None
    cands = [f for f in ctx.db.methods(rec_q, n) if len(f["params"]) == len(args) and not any(p.get("pack") for p in f["params"])]
    if len(cands) != 1:
        return None
    f = cands[0]
    if not (f.get("const") or f.get("static")):
        return None
    b = f.get("body")
    if not b or b.get("k") != "seq" or not b["s"] or b["s"][-1].get("k") != "return" or b["s"][-1].get("e") is None:
        return None
    for st in b["s"][:-1]:
        if st.get("k") != "decl" or any(v.get("init") is None or "other" in v or not (v.get("const") or "const" in (v.get("ty") or ""))
                                        for v in st["vars"]):
            return None
    saved = _CUR.get("ctx")
    try:
        sub = TermCtx(f, ctx.db, this_name=o)
        sub.builder = getattr(ctx, "builder", None)
        sub.nttp_map = tmap
        sub.depth = ctx.depth + 1
        sub.obj_types.update(ctx.obj_types)
        sub.type_ctx = dict(ctx.type_ctx)
        for p_, a in zip(f["params"], args):
            if not p_.get("n"):
                continue
            t = to_term(a, ctx)
            if has_unknown(t):
                return None
            sub.locals[p_["n"]] = t
        for st in b["s"][:-1]:
            for v in st["vars"]:
                t = to_term(v["init"], sub)
                if has_unknown(t):
                    return None
                sub.locals[v["n"]] = t
        r = to_term(b["s"][-1]["e"], sub)
    except Exception:
        return None
    finally:
        _CUR["ctx"] = saved if saved is not None else ctx
    if r is None or has_unknown(r):
        return None
    return r


def instantiate_sorts(t, choice):
    """Replace sort '?' of atoms by choice[name] (default 'u')."""
    if not isinstance(t, tuple):
        return t
    if t[0] == "v":
        if t[2] == "?":
            return ("v", t[1], choice.get(t[1], "u"))
        return t
    if t[0] in ("c", "unk"):
        return t
    return tuple([t[0]] + [instantiate_sorts(x, choice) if isinstance(x, tuple) else x for x in t[1:]])
