"""Helpers over the JSON AST emitted by tetl-ast: pretty printing, traversal, pattern predicates."""

UNOPS_PREFIX = {"!", "-", "+", "~", "*", "&", "++", "--", "->"}


def show(e, limit=200):
    s = _show(e)
    if len(s) > limit:
        s = s[: limit - 3] + "..."
    return s


def _show(e):
    if e is None:
        return ""
    if isinstance(e, str):
        return e
    k = e.get("k")
    if k == "ref":
        q = e.get("qual", "")
        t = "<" + e["targs"] + ">" if "targs" in e else ""
        return q + e["n"] + t
    if k == "mem":
        b = e.get("b")
        t = "<" + e["targs"] + ">" if "targs" in e else ""
        if b is None or (b.get("k") == "this" and b.get("implicit")):
            return e["n"] + t
        return _show(b) + ("->" if e.get("arrow") else ".") + e["n"] + t
    if k == "call":
        return _show(e["f"]) + "(" + ", ".join(_show(a) for a in e["a"]) + ")"
    if k == "bin":
        return "(" + _show(e["l"]) + " " + e["op"] + " " + _show(e["r"]) + ")"
    if k == "un":
        if e.get("postfix"):
            return _show(e["e"]) + e["op"]
        if e["op"] == "->":
            return _show(e["e"]) + "->"
        return e["op"] + _show(e["e"])
    if k == "cond":
        return "(" + _show(e["c"]) + " ? " + _show(e["t"]) + " : " + _show(e["f"]) + ")"
    if k == "idx":
        return _show(e["b"]) + "[" + _show(e["i"]) + "]"
    if k == "int":
        return e["v"]
    if k == "bool":
        return "true" if e["v"] else "false"
    if k == "char":
        return "'\\x%x'" % e["v"]
    if k == "float":
        return e["v"]
    if k == "str":
        return '"' + e["v"] + '"'
    if k == "nullptr":
        return "nullptr"
    if k == "cast":
        if e["ck"] in ("static", "reinterpret", "const", "dynamic"):
            return e["ck"] + "_cast<" + e["ty"] + ">(" + _show(e["e"]) + ")"
        return e["ty"] + "(" + _show(e["e"]) + ")"
    if k == "construct":
        br = "{}" if e.get("list") else "()"
        return e["ty"] + br[0] + ", ".join(_show(a) for a in e["a"]) + br[1]
    if k == "initlist":
        return "{" + ", ".join(_show(a) for a in e["a"]) + "}"
    if k == "desig":
        return "." + e["n"] + " = " + _show(e["e"])
    if k == "parenlist":
        return "(" + ", ".join(_show(a) for a in e["a"]) + ")"
    if k == "this":
        return "this"
    if k == "new":
        pl = "(" + ", ".join(_show(a) for a in e["placement"]) + ") " if e["placement"] else ""
        return "new " + pl + e["ty"] + ("[]" if e.get("array") else "") + (_show(e["init"]) if e.get("init") else "")
    if k == "delete":
        return "delete " + _show(e["e"])
    if k == "lambda":
        return "[lambda@%s]" % e.get("line")
    if k == "pack":
        return _show(e["e"]) + "..."
    if k == "fold":
        return "(" + _show(e.get("l")) + " " + e["op"] + " ... " + _show(e.get("r")) + ")"
    if k == "sizeofpack":
        return "sizeof...(" + e["n"] + ")"
    if k == "sizeof":
        return e["kind"] + "(" + (e.get("ty") or _show(e.get("e"))) + ")"
    if k in ("typetrait", "recovery", "other"):
        return e.get("text", "<" + k + ">")
    if k == "defaultarg":
        return "<default>"
    if k == "sourceloc":
        return e["n"] + "()"
    if k == "predefined":
        return "__func__"
    if k == "throw":
        return "throw " + _show(e.get("e"))
    return "<" + str(k) + ">"


def children(e):
    """Direct sub-expressions of an expression node (lambdas are opaque)."""
    if e is None or not isinstance(e, dict):
        return []
    k = e.get("k")
    if k in ("ref", "int", "bool", "char", "float", "str", "nullptr", "this", "sizeofpack", "typetrait", "defaultarg",
             "sourceloc", "predefined", "typeid", "lambda"):
        return []
    if k == "mem":
        return [e["b"]] if e.get("b") is not None else []
    if k == "call":
        return [e["f"]] + list(e["a"])
    if k == "bin":
        return [e["l"], e["r"]]
    if k in ("un", "cast", "desig", "pack", "delete", "throw"):
        return [e["e"]] if e.get("e") is not None else []
    if k == "cond":
        return [e["c"], e["t"], e["f"]]
    if k == "idx":
        return [e["b"], e["i"]]
    if k in ("construct", "initlist", "parenlist", "recovery"):
        return [a for a in e["a"] if a is not None]
    if k == "new":
        return [a for a in e["placement"]] + ([e["init"]] if e.get("init") else [])
    if k == "fold":
        return [x for x in (e.get("l"), e.get("r")) if x is not None]
    if k == "sizeof":
        return [e["e"]] if e.get("e") else []
    if k == "other":
        return [c for c in e.get("ch", []) if isinstance(c, dict) and c.get("k") not in STMT_KINDS]
    return []


STMT_KINDS = {"seq", "if", "for", "while", "do", "rangefor", "return", "break", "continue", "null", "decl", "switch",
              "case", "default", "expr", "unstructured"}


def walk_expr(e, into_lambdas=False):
    """Pre-order traversal of an expression tree."""
    if e is None or not isinstance(e, dict):
        return
    yield e
    if e.get("k") == "lambda" and into_lambdas:
        for s in walk_stmt_exprs(e.get("body"), into_lambdas=True):
            yield s
        return
    for c in children(e):
        for x in walk_expr(c, into_lambdas):
            yield x


def stmt_exprs(s):
    """Top-level expressions directly owned by a statement node (not by nested statements)."""
    k = s.get("k")
    out = []
    if k == "if":
        if s.get("var") and s["var"].get("init"):
            out.append(s["var"]["init"])
        if s.get("c") is not None:
            out.append(s["c"])
    elif k in ("while", "do", "switch"):
        if s.get("c") is not None:
            out.append(s["c"])
    elif k == "for":
        if s.get("c") is not None:
            out.append(s["c"])
        if s.get("inc") is not None:
            out.append(s["inc"])
    elif k == "rangefor":
        if s.get("range") is not None:
            out.append(s["range"])
    elif k in ("return", "expr"):
        if s.get("e") is not None:
            out.append(s["e"])
    elif k == "decl":
        for v in s["vars"]:
            if v.get("init") is not None:
                out.append(v["init"])
    elif k == "case":
        if s.get("v") is not None:
            out.append(s["v"])
    return out


def sub_stmts(s):
    k = s.get("k")
    if k == "seq":
        return list(s["s"])
    if k == "if":
        return [x for x in (s.get("init"), s.get("then"), s.get("else")) if x]
    if k == "for":
        return [x for x in (s.get("init"), s.get("body")) if x]
    if k in ("while", "do", "rangefor", "switch"):
        return [s["body"]] if s.get("body") else []
    if k in ("case", "default"):
        return [s["s"]] if s.get("s") else []
    if k == "unstructured":
        return [c for c in s.get("ch", []) if c]
    return []


def walk_stmts(s):
    if s is None:
        return
    yield s
    for c in sub_stmts(s):
        for x in walk_stmts(c):
            yield x


def walk_stmt_exprs(s, into_lambdas=False):
    """All expression nodes anywhere under statement s."""
    for st in walk_stmts(s):
        for e in stmt_exprs(st):
            for x in walk_expr(e, into_lambdas):
                yield x


def all_exprs(func, into_lambdas=True):
    for i in func.get("inits", []) or []:
        for x in walk_expr(i.get("e"), into_lambdas):
            yield x
    for x in walk_stmt_exprs(func.get("body"), into_lambdas):
        yield x


def is_this(e):
    if e is None:
        return True
    if e.get("k") == "this":
        return True
    if e.get("k") == "un" and e.get("op") == "*" and e["e"].get("k") == "this":
        return True
    return False


def callee(e):
    """(simple name, qualified name or None, receiver expr or None, 'member'|'free') of a call node."""
    f = e["f"]
    k = f.get("k")
    if k == "mem":
        return f["n"], f.get("q"), f.get("b"), "member"
    if k == "ref":
        q = f.get("q")
        if q is None and f.get("cands"):
            q = f["cands"][0]
        return f["n"], q, None, "free"
    return None, None, None, "other"


def strip_casts(e):
    while e is not None and e.get("k") == "cast":
        e = e["e"]
    return e


def int_value(e):
    e0 = e
    if e0 is None:
        return None
    if e0.get("k") == "int":
        return int(e0["v"])
    if e0.get("k") == "bool":
        return 1 if e0["v"] else 0
    if e0.get("k") in ("cast", "construct"):
        # size_type{0}, size_type(1), static_cast<T>(0)
        if e0.get("k") == "cast":
            return int_value(e0["e"])
        if len(e0["a"]) == 1:
            return int_value(e0["a"][0])
        if len(e0["a"]) == 0:
            return 0
    if e0.get("k") == "initlist" and len(e0["a"]) == 1:
        return int_value(e0["a"][0])
    if e0.get("k") == "un" and e0["op"] == "-":
        v = int_value(e0["e"])
        return -v if v is not None else None
    return None


def loc(func, node=None):
    line = (node or {}).get("line") or func.get("line")
    return "include/etl/%s:%s" % (func["file"], line)


def sig(func):
    ps = ", ".join(p["ty"] for p in func["params"])
    cv = " const" if func.get("const") else ""
    rq = " " + func["refq"] if func.get("refq") else ""
    return "%s(%s)%s%s" % (func["q"], ps, cv, rq)
