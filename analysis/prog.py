"""Function IR ("guard programs"): lowers a function body (with bounded inlining of resolvable callees) into a small
program over terms, and evaluates that program over finite models.

Program nodes (tuples):
  ('guard', term, info)                 contract check: handler fires when term is false
  ('oblige', term, info)                obligation that must hold when reached (BOUND rules)
  ('effect', kind, info)                kind in own | outside | maybe | alloc
  ('branch', cond, then, else, info)
  ('loop', cond1, body1, condg, bodyg, fresh, info)   first-iteration body / generalised body (fresh atoms)
  ('ret', info)
  ('note', text)

info is a dict: file, line, func (qualified name), src, depth, plus rule specific keys.
"""
from . import astx
import re
from . import terms as T

PURE_FREE = {
    "min", "max", "clamp", "forward", "move", "as_const", "addressof", "distance", "next", "prev", "begin", "end",
    "cbegin", "cend", "rbegin", "rend", "data", "size", "ssize", "empty", "declval", "get", "get_if", "to_address",
    "is_constant_evaluated", "is_hosted", "ignore_unused", "bit_cast", "to_underlying", "ref", "cref", "abs",
    "holds_alternative", "launder", "equal", "lexicographical_compare", "find", "find_if", "find_if_not", "search",
    "find_end", "find_first_of", "lower_bound", "upper_bound", "equal_range", "binary_search", "all_of", "any_of",
    "none_of", "count", "count_if", "mismatch", "is_sorted", "strlen", "length", "compare", "eq", "lt",
    "to_integer", "to_address", "invoke", "make_pair", "tie", "forward_as_tuple", "static_cast", "isdigit", "isspace",
    "isalpha", "tolower", "toupper", "index_sequence", "make_index_sequence", "numeric_limits", "in_range",
    "cmp_less", "cmp_less_equal", "cmp_greater", "cmp_greater_equal", "cmp_equal", "cmp_not_equal",
}
PURE_MEMBER = {
    "size", "length", "capacity", "max_size", "empty", "full", "begin", "end", "cbegin", "cend", "rbegin", "rend",
    "crbegin", "crend", "data", "c_str", "has_value", "index", "get_size", "extent", "extents", "rank", "rank_dynamic",
    "static_extent", "count", "stride", "required_span_size", "size_bytes", "value_comp", "key_comp", "max", "min",
    "find", "rfind", "contains", "starts_with", "ends_with", "compare", "lower_bound", "upper_bound", "test", "any",
    "all", "none", "to_ullong", "to_ulong", "mapping", "accessor", "data_handle", "get_deleter",
}
# algorithms writing through an iterator parameter: name -> index of the destination argument(s)
WRITERS = {
    "copy": [2], "copy_n": [2], "copy_if": [2], "copy_backward": [2], "move": [2], "move_backward": [2],
    "fill": [0], "fill_n": [0], "generate": [0], "generate_n": [0], "transform": [-2], "rotate": [0],
    "reverse": [0], "swap_ranges": [0, 2], "iter_swap": [0, 1], "iota": [0], "sort": [0], "stable_sort": [0],
    "remove": [0], "remove_if": [0], "unique": [0], "replace": [0], "replace_if": [0], "partition": [0],
    "uninitialized_copy": [2], "uninitialized_move": [2], "uninitialized_fill": [0], "uninitialized_fill_n": [0],
    "uninitialized_copy_n": [2], "uninitialized_move_n": [2], "uninitialized_default_construct": [0],
    "uninitialized_value_construct": [0], "construct_at": [0], "destroy_at": [0], "destroy": [0], "destroy_n": [0],
    "memcpy": [0], "memmove": [0], "memset": [0], "strcpy": [0], "strncpy": [0], "swap": [0, 1], "exchange": [0],
    "assign": [0], "shift_left": [0], "shift_right": [0], "inplace_merge": [0], "merge": [4], "set_union": [4],
    "str_replace": [0],
}
CONSTRUCT_FUNCS = {"construct_at", "uninitialized_copy", "uninitialized_move", "uninitialized_fill", "uninitialized_fill_n",
                   "uninitialized_copy_n", "uninitialized_move_n", "uninitialized_default_construct",
                   "uninitialized_value_construct", "uninitialized_default_construct_n", "uninitialized_value_construct_n"}
DESTROY_FUNCS = {"destroy_at", "destroy", "destroy_n"}
ASSIGN_OPS = {"=", "+=", "-=", "*=", "/=", "%=", "&=", "|=", "^=", "<<=", ">>="}


def is_handler_call(e):
    if e is None or e.get("k") != "call":
        return False
    f = e["f"]
    if f.get("k") != "ref":
        return False
    if f.get("q") == "etl::assert_handler":
        return True
    if f["n"] == "assert_handler" and any(c == "etl::assert_handler" for c in f.get("cands", [])):
        return True
    return False


def guard_of(s):
    """If statement s is a contract check (an `if` whose taken branch only reaches etl::assert_handler, possibly
    wrapped in do{}while(false)), return (condition AST that triggers the handler, handler call, if-node)."""
    if s is None:
        return None
    k = s.get("k")
    if k == "do" and s.get("c") is not None and s["c"].get("k") == "bool" and s["c"]["v"] is False:
        return guard_of(s["body"])
    if k == "seq" and len(s["s"]) == 1:
        return guard_of(s["s"][0])
    if k == "if" and s.get("c") is not None and not s.get("else") and not s.get("constexpr"):
        th = s["then"]
        stmts = th["s"] if th and th.get("k") == "seq" else [th]
        stmts = [x for x in stmts if x and x.get("k") != "null"]
        if len(stmts) == 1 and stmts[0].get("k") == "expr" and is_handler_call(stmts[0]["e"]):
            return s["c"], stmts[0]["e"], s
    return None


class Frame:
    def __init__(self, func, ctx, depth, callpath=()):
        self.func = func
        self.ctx = ctx
        self.depth = depth
        self.modified = set()
        self.callpath = tuple(callpath)


def _norm_static_text(txt):
    pol = True
    t = txt.strip()
    while t.startswith("!") or t.startswith("not "):
        t = t[1:] if t.startswith("!") else t[4:]
        t = t.strip()
        pol = not pol
    while t.startswith("(") and t.endswith(")") and t.count("(") == t.count(")") == 1:
        t = t[1:-1].strip()
    return t, pol


def fr_depth(fr):
    return getattr(fr, "depth", 0) or 0


class Builder:
    def __init__(self, db, max_depth=3, static_conds=None, oblige_hook=None, versioning=True):
        self.db = db
        self.max_depth = max_depth
        self.static_conds = static_conds or {}
        self.oblige_hook = oblige_hook
        self.versions = {}
        self.fresh_atoms = {}
        self.notes = []
        self.stack = []
        self.fresh_counter = 0
        self.versioning = versioning
        self.effect_hook = None
        self.choice = {}      # frozenset(candidate records) -> chosen record (configuration variant)
        self.ambig = []       # candidate-record sets seen without a choice

    # ------------------------------------------------------------------------------------------- entry
    def build(self, func, this_name="this"):
        ctx = T.TermCtx(func, self.db, this_name=this_name)
        fr = Frame(func, ctx, 0)
        out = []
        self.stack.append(id(func))
        for i in func.get("inits", []) or []:
            self.expr(i.get("e"), fr, out)
            if i.get("field"):
                self._own_write(fr, out, {"n": i["field"], "line": i.get("line")}, i.get("e"), init=True)
        self.stmt(func["body"], fr, out)
        self.stack.pop()
        return out, ctx

    def info(self, fr, node, **kw):
        d = {"file": "include/etl/" + fr.func["file"], "line": (node or {}).get("line") or fr.func["line"],
             "func": fr.func["q"], "depth": fr.depth, "callpath": list(fr.callpath)}
        if node is not None and node.get("src"):
            d["src"] = node["src"]
        d.update(kw)
        return d

    # ------------------------------------------------------------------------------------------- statements
    def stmt(self, s, fr, out):
        """returns True when the path certainly terminated (return)."""
        if s is None:
            return False
        k = s.get("k")
        g = guard_of(s)
        if g is not None:
            cond, call, ifnode = g
            self.expr_calls_only(cond, fr, out)
            t = ("not", self.term(cond, fr))
            out.append(("guard", simplify(t), self.info(fr, ifnode, src=astx.show(cond), handler=call,
                                                        macros=ifnode.get("m", []))))
            return False
        if k == "seq":
            for c in s["s"]:
                if self.stmt(c, fr, out):
                    return True
            return False
        if k == "expr":
            self.expr(s["e"], fr, out, stmt=s)
            return False
        if k == "decl":
            for v in s["vars"]:
                if "other" in v:
                    continue
                init = v.get("init")
                if init is not None and init.get("k") == "lambda":
                    fr.ctx.__dict__.setdefault("lambdas", {})[v["n"]] = init
                    continue
                if init is not None:
                    self.expr(init, fr, out, stmt=s)
                    fr.ctx.locals[v["n"]] = simplify(self.term(init, fr))
                    o = fr.ctx.obj(init) if (v.get("ref") or v["ty"].endswith("*")) else None
                    if o is not None and v.get("ref"):
                        fr.ctx.param_subst[v["n"]] = o
                    fr.ctx.obj_types[v["n"]] = (v["ty"], fr.func.get("record"))
                    i0 = init
                    if i0.get("k") in ("construct", "cast") and "string_view" in (i0.get("ty") or v["ty"]):
                        src = i0["a"][0] if i0.get("k") == "construct" and len(i0.get("a", [])) == 1 else i0.get("e")
                        so = fr.ctx.obj(src) if src is not None else None
                        if so is not None:
                            fr.ctx.param_subst[v["n"]] = so        # a view of an object has the object's size
                    elif i0.get("k") == "ref" and "string_view" in v["ty"] and fr.ctx.obj(i0) is not None:
                        fr.ctx.param_subst[v["n"]] = fr.ctx.obj(i0)
                else:
                    fr.ctx.locals[v["n"]] = ("unk", "uninit " + v["n"])
                so = T.sort_of_type(v["ty"])
                if so:
                    fr.ctx.sorts[v["n"]] = so
            return False
        if k == "return":
            if s.get("e") is not None:
                self.expr(s["e"], fr, out, stmt=s)
            out.append(("ret", self.info(fr, s, value=s.get("e"))))
            return True
        if k == "if":
            return self.if_stmt(s, fr, out)
        if k in ("for", "while", "do", "rangefor"):
            return self.loop(s, fr, out)
        if k in ("break", "continue"):
            out.append(("note", k))
            return False
        if k == "null":
            return False
        # switch / unstructured: opaque
        out.append(("effect", "maybe", self.info(fr, s, opaque=True, what="unstructured statement")))
        self.havoc_all(fr)
        return False

    def is_const_eval_cond(self, c):
        """+1 if condition is is_constant_evaluated(), -1 if its negation, 0 otherwise."""
        neg = 1
        e = c
        while e is not None and e.get("k") == "un" and e["op"] == "!":
            neg = -neg
            e = e["e"]
        if e is not None and e.get("k") == "call":
            n, q, recv, kind = astx.callee(e)
            if n in ("is_constant_evaluated", "__builtin_is_constant_evaluated"):
                return neg
        return 0

    def if_stmt(self, s, fr, out):
        if s.get("init"):
            self.stmt(s["init"], fr, out)
        if s.get("consteval"):
            # run-time path
            br = s.get("else") if not s.get("negated") else s.get("then")
            return self.stmt(br, fr, out) if br else False
        c = s.get("c")
        ce = self.is_const_eval_cond(c)
        if ce != 0:
            br = s.get("else") if ce > 0 else s.get("then")
            return self.stmt(br, fr, out) if br else False
        if s.get("var"):
            v = s["var"]
            if v.get("init") is not None:
                self.expr(v["init"], fr, out)
                fr.ctx.locals[v["n"]] = simplify(self.term(v["init"], fr))
        self.expr_calls_only(c, fr, out)
        cond = simplify(self.term(c, fr))
        if s.get("constexpr"):
            txt = astx.show(c)
            exact = getattr(self, "static_exact", None) or {}
            ntxt, pol = _norm_static_text(txt)
            for key, val in self.static_conds.items():
                if key in txt:
                    cond = T.c(1 if val else 0)
                    break
            else:
              if ntxt in exact and fr_depth(fr) == 0:
                cond = T.c(1 if exact[ntxt] == pol else 0)
              else:
                if T.has_unknown(cond):
                    cond = ("unk", "static:" + txt)
        saved_l, saved_p = dict(fr.ctx.locals), dict(fr.ctx.param_subst)
        saved_v = dict(self.versions)
        tp = []
        t_ret = self.stmt(s.get("then"), fr, tp)
        l_then, v_then = fr.ctx.locals, dict(self.versions)
        fr.ctx.locals, fr.ctx.param_subst = dict(saved_l), dict(saved_p)
        self.versions = dict(saved_v)
        ep = []
        e_ret = self.stmt(s.get("else"), fr, ep) if s.get("else") else False
        l_else, v_else = fr.ctx.locals, dict(self.versions)
        # merge locals
        merged = {}
        if t_ret and not e_ret:
            merged = l_else
        elif e_ret and not t_ret:
            merged = l_then
        else:
            for n in set(l_then) | set(l_else):
                a, b = l_then.get(n), l_else.get(n)
                if a == b:
                    merged[n] = a
                elif a is not None and b is not None:
                    merged[n] = simplify(("ite", cond, a, b))
                else:
                    merged[n] = ("unk", "partially defined " + n)
        fr.ctx.locals = merged
        for o in set(v_then) | set(v_else):
            self.versions[o] = max(v_then.get(o, 0), v_else.get(o, 0))
        out.append(("branch", cond, tp, ep, self.info(fr, s, src=astx.show(c), cond_ast=c, data=is_data_cond(c))))
        return t_ret and e_ret

    def loop(self, s, fr, out):
        k = s["k"]
        if k == "for" and s.get("init"):
            self.stmt(s["init"], fr, out)
        body = s.get("body")
        modified = set()
        collect_modified(body, modified)
        if k == "for" and s.get("inc") is not None:
            collect_modified_expr(s["inc"], modified)
        if s.get("c") is not None:
            collect_modified_expr(s["c"], modified)
        if k == "rangefor":
            modified.add(s["var"]["n"])
        # --- first iteration
        saved_l = dict(fr.ctx.locals)
        saved_v = dict(self.versions)
        c1 = T.c(1)
        pre = []
        if k in ("for", "while") and s.get("c") is not None:
            self.expr_calls_only(s["c"], fr, pre)
            c1 = simplify(self.term(s["c"], fr))
        elif k == "rangefor":
            c1 = ("unk", "range non-empty")
            fr.ctx.locals[s["var"]["n"]] = ("unk", "range element")
        out.extend(pre)
        b1 = []
        self.stmt(body, fr, b1)
        if k == "for" and s.get("inc") is not None:
            self.expr(s["inc"], fr, b1)
        # --- generalised iteration: modified variables become fresh atoms
        fr.ctx.locals = dict(saved_l)
        self.versions = dict(saved_v)
        fresh = {}
        for n in sorted(modified):
            self.fresh_counter += 1
            an = "%s@L%s.%d" % (n, s.get("line"), self.fresh_counter)
            so = fr.ctx.sorts.get(n) or "?"
            fresh[an] = so
            fr.ctx.locals[n] = T.var(an, so)
        has_effects = any(nd[0] == "effect" and (nd[1] == "maybe" or nd[2].get("token") == "state" or nd[2].get("opaque"))
                          for nd in flatten(b1))
        if has_effects:
            self.bump_all(fr)
        cg = T.c(1)
        if k in ("for", "while") and s.get("c") is not None:
            cg = simplify(self.term(s["c"], fr))
        elif k == "rangefor":
            cg = ("unk", "range non-empty")
            fr.ctx.locals[s["var"]["n"]] = ("unk", "range element")
        bg = []
        self.stmt(body, fr, bg)
        # --- after the loop: modified variables unknown (refined below through exit atoms)
        for n in modified:
            fr.ctx.locals[n] = ("unk", "after loop: " + n)
        if has_effects:
            self.bump_all(fr)
        # facts at the back edge, expressed over the loop-head state (fresh atoms)
        saved_after = dict(fr.ctx.locals)
        for an, so in fresh.items():
            fr.ctx.locals[an.split("@")[0]] = T.var(an, so)
        inv = []
        stmts = body["s"] if body and body.get("k") == "seq" else ([body] if body else [])
        for i, st in enumerate(stmts):
            if st.get("k") != "if" or st.get("else") or st.get("constexpr") or st.get("c") is None:
                continue
            if not always_exits(st.get("then")):
                continue
            later = set()
            for st2 in stmts[i + 1:]:
                collect_modified(st2, later)
            if k == "for" and s.get("inc") is not None:
                collect_modified_expr(s["inc"], later)
            mentioned = set(x["n"] for x in astx.walk_expr(st["c"]) if x.get("k") == "ref")
            if mentioned & later:
                continue
            t = simplify(self.term(st["c"], fr))
            if not T.has_unknown(t):
                inv.append(("not", t))
        fr.ctx.locals = saved_after
        # counting loop (for (i = init; i < B; ++i), i not modified in the body, every exit under a data-dependent test):
        # every value in [init, B) is reached for suitable element values, so a generalised state is a real state
        clr = None
        cv = counting_var(s) if (k == "for" and not has_effects) else None
        if cv is not None and cv in saved_l and not T.has_unknown(saved_l[cv]):
            for an, so in fresh.items():
                if an.split("@")[0] == cv:
                    inv.append(("cmp", "<=", saved_l[cv], T.var(an, so)))
                    if set(a.split("@")[0] for a in fresh) == {cv}:
                        clr = an
        dv = down_counting_var(s) if (k == "do" and not has_effects) else None
        if dv is not None and dv in saved_l and not T.has_unknown(saved_l[dv]):
            # do { ... } while (i-- != 0): i only decreases and the loop stops at 0, so i <= its initial value
            for an, so in fresh.items():
                if an.split("@")[0] == dv:
                    inv.append(("cmp", "<=", T.var(an, so), saved_l[dv]))
        out.append(("loop", c1, b1, cg, bg, fresh, self.info(fr, s, back_edge_facts=inv, clr=clr)))
        # state after the loop: exit atoms constrained by (back-edge facts and not cond) or (zero iterations: entry state)
        exit_atoms = {}
        entry_terms = {}
        pnames = set(pp["n"] for pp in fr.func.get("params", []))
        for n in sorted(modified):
            if n not in saved_l and n not in pnames:
                continue
            if n not in saved_l:
                saved_l[n] = T.var(n, fr.ctx.sorts.get(n) or "?")
            self.fresh_counter += 1
            an = "%s@X%s.%d" % (n, s.get("line"), self.fresh_counter)
            so = fr.ctx.sorts.get(n) or "?"
            exit_atoms[an] = so
            entry_terms[n] = saved_l[n]
            fr.ctx.locals[n] = T.var(an, so)
        if exit_atoms and not has_effects:
            ran = None
            if k in ("for", "while") and s.get("c") is not None:
                ce = simplify(self.term(s["c"], fr))
                parts = [("not", ce)] if not T.has_unknown(ce) else []
                for st in stmts:
                    pass
                # back-edge facts over the exit atoms
                for i, st in enumerate(stmts):
                    if st.get("k") != "if" or st.get("else") or st.get("constexpr") or st.get("c") is None or not always_exits(st.get("then")):
                        continue
                    later = set()
                    for st2 in stmts[i + 1:]:
                        collect_modified(st2, later)
                    if k == "for" and s.get("inc") is not None:
                        collect_modified_expr(s["inc"], later)
                    if set(x["n"] for x in astx.walk_expr(st["c"]) if x.get("k") == "ref") & later:
                        continue
                    t = simplify(self.term(st["c"], fr))
                    if not T.has_unknown(t):
                        parts.append(("not", t))
                for prt in parts:
                    ran = prt if ran is None else ("and", ran, prt)
            zero = None
            for n, et in entry_terms.items():
                eq = ("cmp", "==", fr.ctx.locals[n], et)
                zero = eq if zero is None else ("and", zero, eq)
            if zero is not None and not T.has_unknown(c1) and c1 != T.c(1):
                zero = ("and", zero, ("not", c1))
            if ran is not None and zero is not None and not T.has_unknown(zero):
                out.append(("assume", ("or", ran, zero), self.info(fr, s)))
            elif ran is not None:
                out.append(("assume", ran, self.info(fr, s)))
            self.fresh_atoms.update(exit_atoms)
        else:
            for n in modified:
                fr.ctx.locals[n] = ("unk", "after loop: " + n)
        self.fresh_atoms.update(fresh)
        return False

    def bump(self, o):
        if self.versioning:
            parts = o.split(".")
            for i in range(1, len(parts) + 1):
                p = ".".join(parts[:i])
                self.versions[p] = self.versions.get(p, 0) + 1

    def bump_all(self, fr):
        self.bump(fr.ctx.this_name)

    def havoc_all(self, fr):
        for n in list(fr.ctx.locals):
            fr.ctx.locals[n] = ("unk", "havoc " + n)
        self.bump_all(fr)

    # ------------------------------------------------------------------------------------------- expressions
    def term(self, e, fr):
        fr.ctx.builder = self
        return T.to_term(e, fr.ctx)

    def expr_calls_only(self, e, fr, out):
        """Process calls (for guards/effects of callees) in a condition."""
        self.expr(e, fr, out)

    def expr(self, e, fr, out, stmt=None):
        if e is None or not isinstance(e, dict):
            return
        k = e.get("k")
        if k == "lambda":
            return
        if k == "bin" and e["op"] in ("&&", "||") and has_calls(e["r"]):
            self.expr(e["l"], fr, out)
            c = simplify(self.term(e["l"], fr))
            sub = []
            self.expr(e["r"], fr, sub)
            if sub:
                if e["op"] == "&&":
                    out.append(("branch", c, sub, [], self.info(fr, stmt or e)))
                else:
                    out.append(("branch", c, [], sub, self.info(fr, stmt or e)))
            return
        if k == "cond" and (has_calls(e["t"]) or has_calls(e["f"])):
            self.expr(e["c"], fr, out)
            cterm = simplify(self.term(e["c"], fr))
            tp, ep = [], []
            self.expr(e["t"], fr, tp)
            self.expr(e["f"], fr, ep)
            if tp or ep:
                out.append(("branch", cterm, tp, ep, self.info(fr, stmt or e)))
            return
        if k == "bin" and e["op"] in ASSIGN_OPS:
            self.expr(e["r"], fr, out)
            if self.oblige_hook:
                l0 = astx.strip_casts(e["l"])
                if l0 is not None and (l0.get("k") == "idx" or (l0.get("k") == "un" and l0["op"] == "*")):
                    self.oblige_hook(self, fr, out, l0, "write", stmt or e)
            self.lvalue_subexprs(e["l"], fr, out, skip_hook=True)
            self.assign(e["l"], e["op"], e["r"], fr, out, stmt or e)
            return
        if self.oblige_hook and (k == "idx" or (k == "un" and e["op"] == "*")):
            self.oblige_hook(self, fr, out, e, "read", stmt or e)
        if self.oblige_hook and (k in ("construct", "call", "initlist") or (k == "bin" and e["op"] == "+")):
            self.oblige_hook(self, fr, out, e, "node", stmt or e)
        if k == "un" and e["op"] in ("++", "--"):
            self.lvalue_subexprs(e["e"], fr, out)
            one = {"k": "int", "v": "1", "ty": "int"}
            self.assign(e["e"], "+=" if e["op"] == "++" else "-=", one, fr, out, stmt or e)
            return
        if k == "call" and e["f"].get("k") == "lambda" and not e["a"]:
            body = []
            saved = dict(fr.ctx.locals)
            self.stmt(e["f"].get("body"), fr, body)
            for kk in list(fr.ctx.locals):
                if kk not in saved:
                    del fr.ctx.locals[kk]
            out.append(("inline", "immediately invoked lambda", body, self.info(fr, stmt or e, callee="lambda")))
            return
        if k == "call":
            for a in e["a"]:
                self.expr(a, fr, out)
            f = e["f"]
            if f.get("k") == "mem":
                self.expr(f.get("b"), fr, out)
            elif f.get("k") not in ("ref",):
                self.expr(f, fr, out)
            self.call(e, fr, out, stmt)
            return
        if k == "new":
            for a in e["placement"]:
                self.expr(a, fr, out)
            self.expr(e.get("init"), fr, out)
            if e["placement"]:
                tgt = e["placement"][0]
                where = self.classify_target(tgt, fr)
                src = None
                ini = e.get("init")
                if ini is not None:
                    for x in astx.walk_expr(ini):
                        if (x.get("k") == "ref" and x.get("d") in ("param", "local")) or x.get("k") in ("mem", "this"):
                            r0 = self.root(x, fr)
                            if r0 != "?":
                                src = r0
                                break
                out.append(("effect", where, self.info(fr, stmt or e, what="placement new", target=astx.show(tgt),
                                                       token="construct", root=self.root(tgt, fr), source_root=src)))
            else:
                out.append(("effect", "alloc", self.info(fr, stmt or e, what="new-expression")))
            return
        if k == "delete":
            out.append(("effect", "alloc", self.info(fr, stmt or e, what="delete-expression")))
            return
        for c in astx.children(e):
            self.expr(c, fr, out, stmt)

    def lvalue_subexprs(self, e, fr, out, skip_hook=False):
        if e is None:
            return
        k = e.get("k")
        if k == "idx":
            self.expr(e["b"], fr, out)
            self.expr(e["i"], fr, out)
        elif k == "un" and e["op"] == "*" and skip_hook:
            inner = e["e"]
            if inner is not None and inner.get("k") == "un" and inner["op"] in ("++", "--"):
                self.expr(inner, fr, out)
            else:
                self.lvalue_subexprs(inner, fr, out)
        elif k == "un":
            self.expr(e["e"], fr, out)
        elif k == "mem":
            self.expr(e.get("b"), fr, out)
        elif k == "call":
            self.expr(e, fr, out)

    def root_of(self, e, fr):
        """('local', name) | ('this', field) | ('param', name) | ('deref', base expr) | ('unknown', None)"""
        e = astx.strip_casts(e)
        if e is None:
            return ("unknown", None)
        k = e.get("k")
        if k == "ref":
            if e.get("d") == "local":
                ty = e.get("ty", "")
                if ty.endswith("&") or ty.endswith("&&"):
                    o = fr.ctx.param_subst.get(e["n"])
                    if isinstance(o, str):
                        return ("this", o) if o.startswith(fr.ctx.this_name) else ("param", o)
                    return ("unknown", e["n"])
                return ("local", e["n"])
            if e.get("d") == "param":
                ty = e.get("ty", "")
                if "&" in ty and "const" not in ty.split("&")[0].split("*")[-1]:
                    o = fr.ctx.param_subst.get(e["n"])
                    if isinstance(o, str):
                        if o.startswith(fr.ctx.this_name):
                            return ("this", o)
                        if o.startswith("local:"):
                            return ("local", o[6:])
                    return ("param", e["n"])
                if "&" in ty:
                    return ("param", e["n"])
                return ("local", e["n"])
            return ("unknown", e.get("n"))
        if k == "mem":
            if astx.is_this(e.get("b")):
                return ("this", e["n"])
            return self.root_of(e.get("b"), fr)
        if k == "idx":
            r = self.root_of(e["b"], fr)
            if r[0] == "local":
                # indexing a local array is local; a local pointer is a deref
                return ("deref", e["b"]) if self.is_pointer_local(e["b"], fr) else r
            return r if r[0] in ("this",) else ("deref", e["b"])
        if k == "un" and e["op"] == "*":
            inner = astx.strip_casts(e["e"])
            if inner is not None and inner.get("k") == "this":
                return ("this", "*this")
            return ("deref", e["e"])
        if k == "un" and e["op"] == "->":
            return ("deref", e["e"])
        if k == "call":
            n, q, recv, kind = astx.callee(e)
            if kind == "member" and astx.is_this(recv):
                return ("this", n + "()")
            if n in ("get", "forward", "move") and e["a"]:
                return self.root_of(e["a"][0], fr)
            return ("deref", e)
        return ("unknown", None)

    def is_pointer_local(self, e, fr):
        e = astx.strip_casts(e)
        return e is not None and e.get("k") == "ref" and e.get("ty", "").rstrip().endswith("*")

    def classify_target(self, e, fr):
        """own | outside | maybe | local for the object an expression points into / refers to."""
        e = astx.strip_casts(e)
        if e is None:
            return "maybe"
        k = e.get("k")
        if k == "ref":
            n = e["n"]
            if e.get("d") == "local":
                t = fr.ctx.locals.get(n)
                if t is not None and mentions_this(t, fr.ctx.this_name):
                    return "own"
                ty = e.get("ty", "")
                if not (ty.endswith("*") or "&" in ty or "iterator" in ty or ty == "auto"):
                    return "local"
                return "maybe"
            if e.get("d") == "param":
                o = fr.ctx.param_subst.get(n)
                if isinstance(o, str) and o.startswith(fr.ctx.this_name):
                    return "own"
                if isinstance(o, tuple) and mentions_this(o, fr.ctx.this_name):
                    return "own"
                if isinstance(o, str) and o.startswith("local:"):
                    return "local"
                return "outside"
            return "maybe"
        if k == "mem":
            if astx.is_this(e.get("b")):
                return "own"
            return self.classify_target(e.get("b"), fr)
        if k == "this":
            return "own"
        if k == "call":
            n, q, recv, kind = astx.callee(e)
            if kind == "member":
                if astx.is_this(recv):
                    return "own"
                return self.classify_target(recv, fr)
            if e["a"]:
                return self.classify_target(e["a"][0], fr)
            return "maybe"
        if k in ("un", "cast"):
            return self.classify_target(e["e"], fr)
        if k == "bin":
            return self.classify_target(e["l"], fr)
        if k == "idx":
            return self.classify_target(e["b"], fr)
        return "maybe"

    def assign(self, lhs, op, rhs, fr, out, node):
        root = self.root_of(lhs, fr)
        kind = root[0]
        if kind == "local":
            n = root[1]
            l0 = astx.strip_casts(lhs)
            if l0.get("k") == "ref":
                old = fr.ctx.locals.get(n)
                if old is None:
                    old = self.term(l0, fr)
                r = self.term(rhs, fr)
                if op == "=":
                    new = r
                elif op in ("+=", "-=", "*=", "/=", "%="):
                    new = (op[0], old, r)
                else:
                    new = ("unk", "compound " + op)
                fr.ctx.locals[n] = simplify(new)
            else:
                fr.ctx.locals[n] = ("unk", "element of " + n)
            fr.modified.add(n)
            return
        if kind == "this":
            self._own_write(fr, out, node, rhs, lhs=lhs, op=op)
            return
        if kind == "param":
            l0 = astx.strip_casts(lhs)
            fld = l0["n"] if l0 is not None and l0.get("k") == "mem" else None
            out.append(("effect", "outside", self.info(fr, node, what="write through reference parameter",
                                                       target=astx.show(lhs), field=fld, root=self.root(lhs, fr),
                                                       rhs=rhs, token="state" if fld else None)))
            return
        if kind == "deref":
            where = self.classify_target(root[1], fr)
            if where == "local":
                return
            info = self.info(fr, node, what="store through pointer", target=astx.show(lhs), lhs=lhs, rhs=rhs, op=op)
            out.append(("effect", where, info))
            return
        out.append(("effect", "maybe", self.info(fr, node, what="write to unclassified target", target=astx.show(lhs))))

    def _own_write(self, fr, out, node, rhs, lhs=None, op="=", init=False):
        fn = fr.func
        if fn.get("const") and not init:
            pass
        name = astx.show(lhs) if lhs is not None else node.get("n")
        info = self.info(fr, node, what="write to member", target=name, lhs=lhs, rhs=rhs, op=op, init=init)
        l0 = astx.strip_casts(lhs) if lhs is not None else None
        fieldname = None
        if l0 is not None and l0.get("k") == "mem" and astx.is_this(l0.get("b")):
            fieldname = l0["n"]
        elif lhs is None:
            fieldname = node.get("n")
        info["field"] = fieldname
        info["root"] = fr.ctx.this_name.split(".")[0]
        info["token"] = "state"
        if init and rhs is not None:
            info["init_args"] = len(rhs.get("a", [])) if isinstance(rhs, dict) and "a" in rhs else 1
        info["frame_this"] = fr.ctx.this_name
        info["frame_params"] = [simplify(self.term({"k": "ref", "n": pp["n"], "d": "param", "ty": pp["ty"]}, fr)) for pp in fr.func.get("params", [])]
        if lhs is not None:
            l1 = astx.strip_casts(lhs)
            if l1 is not None and l1.get("k") == "call" and len(l1["a"]) == 1:
                info["element_index"] = simplify(self.term(l1["a"][0], fr))
            elif l1 is not None and l1.get("k") == "idx":
                info["element_index"] = simplify(self.term(l1["i"], fr))
            elif l1 is not None and l1.get("k") == "un" and l1["op"] == "*":
                inner = astx.strip_casts(l1["e"])
                if inner is not None and inner.get("k") == "call" and astx.callee(inner)[0] == "next" and len(inner["a"]) == 2:
                    info["element_index"] = simplify(self.term(inner["a"][1], fr))
                elif inner is not None and inner.get("k") == "bin" and inner["op"] == "+":
                    info["element_index"] = simplify(self.term(inner["r"], fr))
                elif inner is not None and inner.get("k") == "call" and astx.callee(inner)[0] in ("begin", "data"):
                    info["element_index"] = T.c(0)
        if rhs is not None and astx.int_value(rhs) is not None:
            info["stored_value"] = astx.int_value(rhs)
        if self.effect_hook:
            self.effect_hook(self, fr, out, info)
        if fieldname in fr.ctx.size_fields and rhs is not None and op == "=":
            info["size_update"] = simplify(self.term(rhs, fr))
        out.append(("effect", "own", info))
        if fieldname is None or fieldname in fr.ctx.size_fields or not fr.ctx.size_fields:
            self.bump(fr.ctx.this_name)

    # ------------------------------------------------------------------------------------------- calls
    def resolve(self, call, fr):
        """candidate callee definitions (function records) for a call node."""
        db = self.db
        n, q, recv, kind = astx.callee(call)
        nargs = len(call["a"])
        cands = []
        if kind == "member":
            f = call["f"]
            if f.get("q") and not f.get("dep"):
                cands = list(db.by_q.get(f["q"], []))
                if not cands and astx.is_this(recv) and fr.func.get("record"):
                    # members of partial specialisations are resolved with canonical parameter names
                    # (`type-parameter-0-0`) that do not spell the record's name: fall back to the enclosing record
                    cands = db.methods(fr.func["record"], n)
            elif astx.is_this(recv) and fr.func.get("record"):
                cands = db.methods(fr.func["record"], n)
            elif f.get("unres"):
                for cq in f.get("cands", []):
                    cands += db.by_q.get(cq, [])
            else:
                # receiver is another object: resolve through its declared type when it is a known record
                ty = None
                r0 = astx.strip_casts(recv)
                if r0 is not None and r0.get("k") == "ref":
                    ty = r0.get("ty")
                elif r0 is not None and r0.get("k") == "mem" and astx.is_this(r0.get("b")) and fr.func.get("record"):
                    rec = db.record(fr.func["record"])
                    if rec:
                        for fld in rec["fields"]:
                            if fld["n"] == r0["n"]:
                                ty = fld["ty"]
                if ty:
                    for rq in self._record_for_type(ty, fr):
                        cands += db.methods(rq, n)
        elif kind == "free":
            f = call["f"]
            if f.get("q"):
                cands = list(db.by_q.get(f["q"], []))
            else:
                seen = set()
                for cq in f.get("cands", []):
                    if cq not in seen:
                        seen.add(cq)
                        cands += db.by_q.get(cq, [])
        out = []
        for c in cands:
            ps = c["params"]
            req = len([p for p in ps if "def" not in p and "defsrc" not in p and not p.get("pack")])
            has_pack = any(p.get("pack") for p in ps)
            if nargs < req:
                continue
            if nargs > len(ps) and not has_pack:
                continue
            out.append(c)
        return out

    def _record_for_type(self, ty, fr):
        r = self.db.resolve_type(ty, fr.func.get("record"))
        if r:
            return [r[0]]
        # alternatives selected by a conditional alias (layouts / storages): every record the alias can denote
        rec = self.db.record(fr.func["record"]) if fr.func.get("record") else None
        if rec is None:
            return []
        base = self.db.strip_type(ty).split("::")[-1].split("<")[0]
        out = []
        for oq in self.db.lineage(fr.func["record"]):
            orec = self.db.record(oq)
            for al in (orec or {}).get("aliases", []):
                if al["n"] == base:
                    for q in self.db._records_named_in(al["ty"], orec):
                        r2 = self.db.record(q)
                        if r2 and (r2.get("parent") == oq or q.startswith("etl::detail::")) and q not in out:
                            out.append(q)
        return out

    def call(self, e, fr, out, stmt):
        n, q, recv, kind = astx.callee(e)
        node = stmt or e
        if n is None:
            out.append(("effect", "maybe", self.info(fr, node, opaque=True, what="indirect call", target=astx.show(e["f"]))))
            return
        if e["f"].get("k") == "ref" and e["f"].get("d") in ("param", "local"):
            ty = e["f"].get("ty", "")
            if "index_constant" in ty or "integral_constant" in ty:
                return
            out.append(("effect", "maybe", self.info(fr, node, opaque=True, what="call of a callable object", target=n, callable=n)))
            return
        if is_handler_call(e):
            out.append(("guard", T.c(0), self.info(fr, node, src="unconditional handler call", handler=e, macros=[])))
            return
        if kind == "member" and astx.is_this(recv) and e["f"].get("qual") and fr.func.get("record"):
            qn = e["f"]["qual"].rstrip(":").split("<")[0].split("::")[-1]
            bases = [q.split("<")[0].split("::")[-1] for q in self.db.lineage(fr.func["record"])]
            rec = self.db.record(fr.func["record"])
            alias_is_base = False
            if rec:
                for al in rec.get("aliases", []):
                    if al["n"] == qn and any(b in al["ty"] for b in bases[1:]):
                        alias_is_base = True
            if qn not in bases and not alias_is_base:
                # static member of another class (traits_type::eq, numeric_limits<T>::max, ...)
                if n in PURE_FREE or n in PURE_MEMBER:
                    return
                out.append(("effect", "maybe", self.info(fr, node, opaque=True, what="static call", target=astx.show(e["f"]))))
                return
        if n.startswith("~") or e["f"].get("pseudo"):
            where = self.classify_target(recv, fr)
            out.append(("effect", where if where != "local" else "maybe",
                        self.info(fr, node, what="destructor call", target=astx.show(recv), token="destroy",
                                  root=self.root(recv, fr))))
            return
        if n == "unreachable" or n == "__builtin_unreachable":
            out.append(("unreachable", self.info(fr, node)))
            return
        if n in CONSTRUCT_FUNCS and e["a"]:
            di = 2 if n in ("uninitialized_copy", "uninitialized_move", "uninitialized_copy_n", "uninitialized_move_n") and len(e["a"]) > 2 else 0
            self._token(fr, out, node, "construct", e["a"][di], n, e, src_index=0 if di == 2 else 1)
            return
        if n in DESTROY_FUNCS and e["a"]:
            self._token(fr, out, node, "destroy", e["a"][0], n, e)
            return
        if kind == "member" and (e["f"].get("dk") == "field" or self._is_field_slot(e, fr)):
            # call through a function-pointer data member (vtable slot)
            so = fr.ctx.obj(recv) if recv is not None else None
            srec = fr.ctx.record_of(so)[0] if so else None
            out.append(("effect", "maybe", self.info(fr, node, what="call through function-pointer member", slot=n,
                                                     slot_args=[self.root(a, fr) for a in e["a"]], call=e,
                                                     slot_holder=self.root(recv, fr), slot_record=srec)))
            return
        lam = [a for a in e["a"] if a is not None and a.get("k") == "lambda"]
        named = [a for a in e["a"] if a is not None and a.get("k") == "ref" and a["n"] in getattr(fr.ctx, "lambdas", {})]
        if lam and kind == "free":
            self._apply_lambda(lam[0], [a for a in e["a"] if a is not lam[0]], fr, out, node, n)
            return
        if named and kind == "free":
            self._apply_lambda(fr.ctx.lambdas[named[0]["n"]], [a for a in e["a"] if a is not named[0]], fr, out, node, n)
            return
        cands = self.resolve(e, fr)
        # algorithms that write through an argument: classify by destination
        if kind == "free" and n in WRITERS and not self._has_guards(cands):
            dests = WRITERS[n]
            wheres = []
            for di in dests:
                if -len(e["a"]) <= di < len(e["a"]):
                    wheres.append(self.classify_target(e["a"][di], fr))
            wheres = [w for w in wheres if w != "local"]
            if not wheres:
                return
            where = "outside" if "outside" in wheres else ("own" if all(w == "own" for w in wheres) else "maybe")
            info = self.info(fr, node, what="range write by " + n, call=e, algorithm=n)
            if self.oblige_hook:
                self.oblige_hook(self, fr, out, e, "range-write", node)
            out.append(("effect", where, info))
            return
        if kind == "free" and n in PURE_FREE and not self._has_guards(cands):
            return
        if kind == "member" and n in PURE_MEMBER and not self._has_guards(cands):
            return
        if not cands:
            if kind == "member":
                tgt = self.classify_target(recv, fr)
                if tgt == "local":
                    return
                out.append(("effect", "maybe", self.info(fr, node, opaque=True, what="unresolved member call", target=astx.show(e["f"]))))
                if tgt == "own":
                    self.bump(fr.ctx.this_name)
            else:
                out.append(("effect", "maybe", self.info(fr, node, opaque=True, what="unresolved call", target=astx.show(e["f"]))))
            return
        cal = self.pick(cands, e, fr)
        if fr.depth >= self.max_depth or id(cal) in self.stack:
            if cal.get("const") or cal.get("kind") == "conversion":
                return
            out.append(("effect", "maybe", self.info(fr, node, opaque=True, what="call beyond inlining bound", target=cal["q"])))
            if kind == "member" and (astx.is_this(recv)):
                self.bump(fr.ctx.this_name)
            return
        self.inline(cal, e, fr, out, node)

    def _is_field_slot(self, e, fr):
        f = e["f"]
        if f.get("dk") or not (f.get("dep") or f.get("unres")):
            return False
        recv = f.get("b")
        o = fr.ctx.obj(recv) if recv is not None else None
        if o is None:
            return False
        rq, _ = fr.ctx.record_of(o)
        if rq is None:
            return False
        for q in self.db.lineage(rq):
            rec = self.db.record(q)
            if not rec:
                continue
            for fd in rec["fields"]:
                if fd["n"] != f["n"]:
                    continue
                ty = fd["ty"]
                if "(*)" in ty:
                    return True
                base = self.db.strip_type(ty).split("::")[-1]
                for al in rec.get("aliases", []):
                    if al["n"] == base and "(*)" in al["ty"]:
                        return True
        return False

    def root(self, e, fr):
        """top-level object an expression designates or points into: 'this', a parameter/local name, or '?'."""
        e = astx.strip_casts(e)
        if e is None:
            return "?"
        k = e.get("k")
        if k == "call":
            n, q, recv, kind = astx.callee(e)
            if n in ("addressof", "move", "forward", "as_const", "begin", "end", "data", "next", "prev", "launder",
                     "to_address", "cbegin", "cend") and e["a"] and kind == "free":
                return self.root(e["a"][0], fr)
            if kind == "member":
                if astx.is_this(recv):
                    return fr.ctx.this_name.split(".")[0]
                return self.root(recv, fr)
        if k == "un" and e["op"] in ("&", "*"):
            return self.root(e["e"], fr)
        if k == "bin" and e["op"] in ("+", "-"):
            return self.root(e["l"], fr)
        if k == "idx":
            return self.root(e["b"], fr)
        if k == "ref" and e.get("d") in ("param", "local") and e["n"] not in fr.ctx.param_subst:
            t = fr.ctx.locals.get(e["n"])
            if t is not None:
                po = pos_object(t)
                if po:
                    return po.split(".")[0]
                if mentions_this(t, fr.ctx.this_name):
                    return fr.ctx.this_name.split(".")[0]
            if e["n"] in getattr(fr.ctx, "roots", {}):
                return fr.ctx.roots[e["n"]]
        o = fr.ctx.obj(e)
        if o is not None:
            if o.startswith("local:"):
                return o
            if k == "ref" and e.get("d") == "local" and e["n"] not in fr.ctx.param_subst:
                t = fr.ctx.locals.get(e["n"])
                if t is not None and mentions_this(t, fr.ctx.this_name):
                    return fr.ctx.this_name.split(".")[0]
                return "local:" + e["n"]
            return o.split(".")[0]
        if k == "this":
            return fr.ctx.this_name.split(".")[0]
        return "?"

    def _token(self, fr, out, node, token, target, fname, call, src_index=1):
        r = self.root(target, fr)
        where = "own" if r == fr.ctx.this_name.split(".")[0] else ("local" if r.startswith("local:") else ("outside" if r != "?" else "maybe"))
        src = None
        if token == "construct" and len(call["a"]) > src_index:
            for a in call["a"][src_index:]:
                if a is call["a"][0] and src_index != 0:
                    continue
                r1 = self.root(a, fr)
                if r1 != "?":
                    src = r1
                    break
        out.append(("effect", where if where != "local" else "maybe",
                    self.info(fr, node, what="%s by %s" % (token, fname), target=astx.show(target), token=token, root=r,
                              source_root=src, call=call)))

    def _apply_lambda(self, lam, others, fr, out, node, fname):
        """a callable is applied to (elements of) the other arguments: its body runs with its parameters bound to them."""
        sub_ctx = fr.ctx
        saved_subst = dict(sub_ctx.param_subst)
        saved_locals = dict(sub_ctx.locals)
        for i, prm in enumerate(lam.get("params", [])):
            if i < len(others):
                o = fr.ctx.obj(others[i])
                if o is None:
                    o = self.root(others[i], fr)
                sub_ctx.param_subst[prm["n"]] = o if o != "?" else ("lambda-arg:" + prm["n"])
                sub_ctx.locals.pop(prm["n"], None)
        body = []
        self.stmt(lam.get("body"), fr, body)
        sub_ctx.param_subst = saved_subst
        for k in list(sub_ctx.locals):
            if k not in saved_locals:
                del sub_ctx.locals[k]
        out.append(("inline", "lambda passed to " + str(fname), body, self.info(fr, node, callee="lambda")))

    def _has_guards(self, cands):
        for c in cands:
            for s in astx.walk_stmts(c["body"]):
                if guard_of(s) is not None and s.get("k") == "if":
                    return True
        return False

    def _want_inline(self, n, cands):
        return False

    def pick(self, cands, call, fr):
        if len(cands) == 1:
            return cands[0]
        # explicit template arguments select among overloads whose first template parameter differs in kind
        # (emplace<T>(...) / emplace<I>(...)): a value-like first argument names the non-type overload
        ta = (call.get("f") or {}).get("targs")
        if ta and len(cands) > 1:
            depth, first = 0, ""
            for ch in ta:
                if ch == "<":
                    depth += 1
                elif ch == ">":
                    depth -= 1
                elif ch == "," and depth == 0:
                    break
                first += ch
            first = first.strip()
            kind = None
            if re.search(r"_v\s*<|::value\b|^\d+$|^sizeof\b", first):
                kind = "nttp"
            elif re.search(r"_t\s*<|^typename\b", first):
                kind = "type"
            else:
                for tp in (fr.func.get("tparams") or []):
                    if tp.get("n") == first:
                        kind = tp.get("k")
            if kind:
                keep = [c for c in cands if (c.get("tparams") or [{}])[0].get("k") == kind]
                if keep:
                    cands = keep
                    if len(cands) == 1:
                        return cands[0]
        nargs = len(call["a"])
        asorts = [term_sort(self.term(a, fr)) for a in call["a"]]

        def score(c):
            sc = 0
            for i, p in enumerate(c["params"]):
                if i >= nargs or p.get("pack"):
                    break
                ps = T.sort_of_type(p["ty"])
                if ps is None or asorts[i] is None:
                    continue
                a = "u" if asorts[i] == "st" else asorts[i]
                if ps == a or (ps in ("u", "s") and a in ("u", "s", "c")):
                    sc += 2
                elif a == "c" and ps == "p":
                    sc -= 1
                else:
                    sc -= 2
            return sc
        best = max(score(c) for c in cands)
        cands = [c for c in cands if score(c) == best]
        if len(cands) == 1:
            return cands[0]
        non_t = [c for c in cands if "tparams" not in c]
        pool = non_t or cands
        exact = [c for c in pool if len(c["params"]) == nargs]
        pool = exact or pool
        if fr.func.get("const"):
            cc = [c for c in pool if c.get("const")]
            pool = cc or pool
        else:
            nc = [c for c in pool if not c.get("const")]
            pool = nc or pool
        recs = sorted(set(c.get("record") or "" for c in pool))
        if len(recs) > 1:
            key = frozenset(recs)
            if key in self.choice:
                pool = [c for c in pool if (c.get("record") or "") == self.choice[key]] or pool
            elif key not in self.ambig:
                self.ambig.append(key)
        if len(pool) > 1 and len(set(c.get("record") or "" for c in pool)) == 1:
            # same record: overloads differing only in cv/ref qualification or constrained twins -> first one
            pass
        if len(set(c.get("record") or "" for c in pool)) > 1:
            self.notes.append("ambiguous callee for %s at %s:%s: %d candidates" % (
                astx.show(call["f"]), fr.func["file"], call.get("line", "?"), len(pool)))
        return pool[0]

    def inline(self, cal, call, fr, out, node):
        n, q, recv, kind = astx.callee(call)
        if kind == "member":
            this_name = fr.ctx.obj(recv) or ("obj?" + astx.show(recv, 40))
        else:
            this_name = "callee.this"
        ctx = T.TermCtx(cal, self.db, this_name=this_name)
        ps = cal["params"]
        ctx.obj_types.update(dict((k, v) for k, v in fr.ctx.obj_types.items() if k not in ctx.obj_types))
        ctx.type_ctx.update(fr.ctx.type_ctx)
        if kind == "member":
            rq, tm = fr.ctx.record_of(this_name) if this_name else (None, {})
            if tm:
                ctx.nttp_map.update(tm)
        targs = call["f"].get("targs")
        if targs:
            for tp, a in zip(cal.get("tparams", []) or [], T.split_targs(targs)):
                if tp.get("k") == "nttp" and not tp.get("pack"):
                    if a.isdigit():
                        ctx.nttp_map[tp["n"]] = T.c(int(a))
                    elif a in fr.ctx.nttp_map:
                        ctx.nttp_map[tp["n"]] = fr.ctx.nttp_map[a]
                    elif a.replace("_", "").isalnum():
                        ctx.nttp_map[tp["n"]] = T.var(a, "st")
        import re as _re
        for i, p in enumerate(ps):
            if i < len(call["a"]):
                m = _re.search(r"(?:index_constant|in_place_index_t|integral_constant)<(?:[^,<>]+, ?)?([A-Za-z_][A-Za-z_0-9]*)>", p["ty"])
                a = call["a"][i]
                if m and a is not None and a.get("targs"):
                    ta = a["targs"].strip()
                    if ta.isdigit():
                        ctx.nttp_map[m.group(1)] = T.c(int(ta))
                    elif ta in fr.ctx.nttp_map:
                        ctx.nttp_map[m.group(1)] = fr.ctx.nttp_map[ta]
                    elif ta.replace("_", "").isalnum():
                        ctx.nttp_map[m.group(1)] = T.var(ta, "st")
        ctx.roots = {}
        for i, p in enumerate(ps):
            if p.get("pack"):
                for a in call["a"][i:]:
                    r0 = self.root(a, fr)
                    if r0 != "?":
                        ctx.roots[p["n"]] = r0
                        break
                break
            if i < len(call["a"]):
                a = call["a"][i]
                ctx.roots[p["n"]] = self.root(a, fr)
                o = fr.ctx.obj(a)
                so = T.sort_of_type(p["ty"])
                a0 = astx.strip_casts(a)
                if a0 is not None and a0.get("k") == "un" and a0["op"] == "&":
                    o2 = self.root_of(a0["e"], fr)
                    if o2[0] == "local":
                        ctx.param_subst[p["n"]] = "local:" + str(o2[1])
                        ctx.locals[p["n"]] = ("unk", "&" + str(o2[1]))
                        continue
                ta = self.term(a, fr)
                scalar_arg = is_scalar_term(ta) or (ta[0] == "v" and ta[2] in ("u", "s", "p", "b", "st"))
                opaque_local = False
                if a0 is not None and a0.get("k") == "ref" and a0.get("d") == "local" and T.has_unknown(ta) and o is not None:
                    # a local holding an unmodelled value (auto const tail = etl::move(...)) is not an object with state
                    try:
                        opaque_local = fr.ctx.record_of(o)[0] is None
                    except Exception:
                        opaque_local = True
                if o is not None and so not in ("u", "s", "b") and not scalar_arg and not opaque_local:
                    # object passed by reference
                    r = self.root_of(a, fr)
                    if r[0] == "local" and "&" in p["ty"] and o not in fr.ctx.obj_types:
                        ctx.param_subst[p["n"]] = "local:" + str(r[1])
                    else:
                        ctx.param_subst[p["n"]] = o
                        if o in fr.ctx.obj_types:
                            ctx.obj_types[o] = fr.ctx.obj_types[o]
                        # the callee sees the caller's object: give it the same type context
                        rq, tm = fr.ctx.record_of(o)
                        if rq:
                            ctx.type_ctx[o] = (rq, tm)
                else:
                    t = simplify(self.term(a, fr))
                    if so in ("u", "s") and not T.has_unknown(t):
                        t = simplify(("cast", so, t)) if needs_cast(t, so) else t
                    ctx.locals[p["n"]] = t
            elif "def" in p:
                ctx.builder = self
                ctx.locals[p["n"]] = simplify(T.to_term(p["def"], ctx))
        sub = Frame(cal, ctx, fr.depth + 1, fr.callpath + (astx.show(call, 60),))
        self.stack.append(id(cal))
        body = []
        for i in cal.get("inits", []) or []:
            self.expr(i.get("e"), sub, body)
        self.stmt(cal["body"], sub, body)
        self.stack.pop()
        # a 'ret' inside the callee only ends the callee
        out.append(("inline", cal["q"], strip_rets(body), self.info(fr, node, callee=cal["q"])))
        # effects of the callee on by-reference locals of the caller
        for p in ps:
            s = ctx.param_subst.get(p["n"])
            if isinstance(s, str) and s.startswith("local:") and any(nd[0] == "effect" for nd in flatten(body)):
                fr.ctx.locals[s[6:]] = ("unk", "modified by " + cal["q"])


# ------------------------------------------------------------------------------------------------- helpers
def strip_rets(prog):
    return prog


def term_sort(t):
    """u | s | p | b | st | c | None for a term."""
    k = t[0]
    if k == "c":
        return "c"
    if k == "v":
        return None if t[2] == "?" else t[2]
    if k == "p":
        return "p"
    if k == "cast":
        return t[1]
    if k in ("cmp", "not", "and", "or"):
        return "b"
    if k in ("+", "-", "*", "/", "%", "min", "max"):
        a, b = term_sort(t[1]), term_sort(t[2])
        if "p" in (a, b):
            if k == "-" and a == "p" and b == "p":
                return "s"
            return "p"
        if a in ("u", "st") or b in ("u", "st"):
            return "u"
        if a == "s" or b == "s":
            return "s"
        if a == "c" and b == "c":
            return "c"
        return None
    if k == "ite":
        return term_sort(t[2]) or term_sort(t[3])
    if k == "neg":
        return term_sort(t[1])
    return None


def needs_cast(t, so):
    if t[0] == "c":
        return t[1] < 0 and so == "u"
    if t[0] == "v":
        return t[2] not in (so, "st" if so == "u" else so)
    return True


def is_scalar_term(t):
    return t[0] in ("c", "+", "-", "*", "/", "%", "cmp", "cast", "min", "max", "neg", "p")


def mentions_this(t, this_name):
    if not isinstance(t, tuple):
        return False
    if t[0] == "v":
        return ("(" + this_name + ")") in t[1] or t[1].startswith(this_name + ".") or t[1] == this_name
    if t[0] == "p":
        return len(t) < 3 or t[2] == this_name or t[2].startswith(this_name + ".")
    if t[0] == "unk":
        return False
    return any(mentions_this(x, this_name) for x in t[1:] if isinstance(x, tuple))


def pos_object(t):
    """object a position term points into (first ('p', _, obj) found), or None."""
    if not isinstance(t, tuple):
        return None
    if t[0] == "p" and len(t) > 2:
        return t[2]
    if t[0] in ("c", "v", "unk"):
        return None
    for x in t[1:]:
        if isinstance(x, tuple):
            r = pos_object(x)
            if r:
                return r
    return None


def versioned(t, versions):
    """Rename state atoms of objects whose state has been modified since entry (stale facts)."""
    if not versions or not isinstance(t, tuple):
        return t
    if t[0] == "v":
        if t[2] in ("st", "b") and "(" in t[1] and "#" not in t[1]:
            o = t[1][t[1].index("(") + 1:-1]
            v = versions.get(o, 0)
            if v:
                return ("v", t[1] + "#%d" % v, t[2])
        return t
    if t[0] in ("c", "unk"):
        return t
    return tuple([t[0]] + [versioned(x, versions) if isinstance(x, tuple) else x for x in t[1:]])


def has_calls(e):
    for x in astx.walk_expr(e):
        if x.get("k") in ("call", "new", "delete"):
            return True
        if x.get("k") == "bin" and x["op"] in ASSIGN_OPS:
            return True
        if x.get("k") == "un" and x["op"] in ("++", "--"):
            return True
    return False


def collect_modified_expr(e, acc):
    for x in astx.walk_expr(e):
        if x.get("k") == "bin" and x["op"] in ASSIGN_OPS:
            t = astx.strip_casts(x["l"])
            if t.get("k") == "ref":
                acc.add(t["n"])
        if x.get("k") == "un" and x["op"] in ("++", "--"):
            t = astx.strip_casts(x["e"])
            if t.get("k") == "ref":
                acc.add(t["n"])


def collect_modified(s, acc):
    for st in astx.walk_stmts(s):
        for e in astx.stmt_exprs(st):
            collect_modified_expr(e, acc)
        if st.get("k") == "decl":
            pass


ELEMENT_READS = {"unsafe_at", "front", "back", "at", "operator[]", "operator*"}


def is_element_read(e):
    e = astx.strip_casts(e)
    if e is None:
        return False
    if e.get("k") == "idx" or (e.get("k") == "un" and e.get("op") == "*"):
        return True
    if e.get("k") == "call" and astx.callee(e)[0] in ELEMENT_READS:
        return True
    return False


def is_data_cond(c):
    """the test compares element values (arbitrary caller data): both outcomes are feasible whatever the positions are"""
    c = astx.strip_casts(c)
    if c is None:
        return False
    if c.get("k") == "un" and c.get("op") == "!":
        return is_data_cond(c["e"])
    if c.get("k") == "bin" and c["op"] in ("==", "!=", "<", ">", "<=", ">="):
        return is_element_read(c["l"]) or is_element_read(c["r"])
    if c.get("k") == "call":
        nm = astx.callee(c)[0]
        if nm in ("eq", "lt") or c["f"].get("k") == "ref" and c["f"].get("d") in ("param", "local"):
            return any(is_element_read(a) for a in c["a"])
    return False


def declared_in(s):
    out = set()
    for st in astx.walk_stmts(s):
        if st.get("k") == "decl":
            for v in st["vars"]:
                out.add(v.get("n"))
        if st.get("k") == "for" and st.get("init") is not None and st["init"].get("k") == "decl":
            for v in st["init"]["vars"]:
                out.add(v.get("n"))
        if st.get("k") == "rangefor":
            out.add(st["var"]["n"])
    return out


def exits_data_only(body):
    """every return/break in the loop body (lambdas excluded) is nested in an if whose test is data-dependent"""
    def walk(st, under):
        if st is None:
            return True
        k = st.get("k")
        if k in ("return", "break"):
            return under
        if k == "seq":
            return all(walk(x, under) for x in st["s"])
        if k == "if":
            u = under or is_data_cond(st.get("c"))
            return walk(st.get("then"), u) and walk(st.get("else"), u)
        if k in ("for", "while", "do", "rangefor"):
            return walk(st.get("body"), under)
        if k in ("expr", "decl", "null", "continue"):
            return True
        return False
    return walk(body, False)


def down_counting_var(s):
    c, body = astx.strip_casts(s.get("c")), s.get("body")
    if c is None or not (c.get("k") == "bin" and c["op"] in ("!=", ">")):
        return None
    l, r = astx.strip_casts(c["l"]), astx.strip_casts(c["r"])
    if not (l is not None and l.get("k") == "un" and l["op"] == "--" and l.get("postfix") and astx.strip_casts(l["e"]).get("k") == "ref"):
        return None
    if not (r is not None and r.get("k") == "int" and str(r.get("v")) in ("0", "0U", "0u")):
        return None
    name = astx.strip_casts(l["e"])["n"]
    mod = set()
    collect_modified(body, mod)
    if name in mod:
        return None
    return name


def counting_var(s):
    """name of i in `for (T i = init; i < B; ++i)` when i is not modified by the body, B does not depend on anything the
    loop modifies and every exit from the body is data-dependent; None otherwise"""
    init, c, inc, body = s.get("init"), astx.strip_casts(s.get("c")), astx.strip_casts(s.get("inc")), s.get("body")
    if init is None or c is None or inc is None:
        return None
    name = None
    if init.get("k") == "decl" and len(init["vars"]) == 1 and init["vars"][0].get("init") is not None:
        name = init["vars"][0]["n"]
    elif init.get("k") == "expr":
        e = astx.strip_casts(init["e"])
        if e is not None and e.get("k") == "bin" and e["op"] == "=" and astx.strip_casts(e["l"]).get("k") == "ref":
            name = astx.strip_casts(e["l"])["n"]
    if name is None:
        return None
    if not (inc.get("k") == "un" and inc["op"] == "++" and astx.strip_casts(inc["e"]).get("k") == "ref"
            and astx.strip_casts(inc["e"])["n"] == name):
        return None
    if not (c.get("k") == "bin" and c["op"] == "<" and astx.strip_casts(c["l"]).get("k") == "ref"
            and astx.strip_casts(c["l"])["n"] == name):
        return None
    mod = set()
    collect_modified(body, mod)
    mod -= declared_in(body)
    if mod:
        return None
    bound_refs = set(x["n"] for x in astx.walk_expr(c["r"]) if x.get("k") == "ref")
    if name in bound_refs:
        return None
    if not exits_data_only(body):
        return None
    return name


def always_exits(s):
    if s is None:
        return False
    k = s.get("k")
    if k in ("return", "break"):
        return True
    if k == "seq":
        return bool(s["s"]) and always_exits(s["s"][-1])
    return False


def tail_facts(body):
    """Conditions that hold whenever control reaches the end of a loop body (and hence at the start of the next
    iteration): negations of top-level early-exit tests whose operands are not modified afterwards."""
    facts = []
    for i, nd in enumerate(body):
        if nd[0] == "branch":
            then_exits = any(x[0] == "ret" for x in nd[2]) and not nd[3]
            if then_exits and not T.has_unknown(nd[1]):
                facts.append(("not", nd[1]))
    return facts


def flatten(prog):
    for nd in prog:
        yield nd
        if nd[0] == "branch":
            for x in flatten(nd[2]):
                yield x
            for x in flatten(nd[3]):
                yield x
        elif nd[0] == "loop":
            for x in flatten(nd[2]):
                yield x
            for x in flatten(nd[4]):
                yield x
        elif nd[0] == "inline":
            for x in flatten(nd[2]):
                yield x


def simplify(t):
    if not isinstance(t, tuple):
        return t
    k = t[0]
    if k in ("c", "v", "unk"):
        return t
    if k == "not":
        a = simplify(t[1])
        if a[0] == "not":
            return a[1]
        if a[0] == "c":
            return T.c(0 if a[1] else 1)
        return ("not", a)
    if k in ("and", "or"):
        a, b = simplify(t[1]), simplify(t[2])
        return (k, a, b)
    if k == "ite":
        cnd, a, b = simplify(t[1]), simplify(t[2]), simplify(t[3])
        if cnd[0] == "c":
            return a if cnd[1] else b
        if a == b:
            return a
        return ("ite", cnd, a, b)
    return tuple([k] + [simplify(x) if isinstance(x, tuple) else x for x in t[1:]])


def prog_atoms(prog, acc=None):
    if acc is None:
        acc = {}
    for nd in flatten(prog):
        if nd[0] in ("guard", "oblige", "assume"):
            T.atoms(nd[1], acc)
        elif nd[0] == "branch":
            T.atoms(nd[1], acc)
        elif nd[0] == "loop":
            T.atoms(nd[1], acc)
            T.atoms(nd[3], acc)
    return acc


# ------------------------------------------------------------------------------------------------- evaluation
class Trace:
    __slots__ = ("events", "fired", "fired_uncertain", "data_free")

    def __init__(self):
        self.events = []
        self.fired = None
        self.fired_uncertain = False
        self.data_free = False


def run(prog, env, general=False, data_free=False):
    """Evaluate a program in a model. Returns Trace with events:
       ('guard', info, truth, uncertain) ('effect', kind, info, uncertain) ('oblige', info, truth, uncertain, general)
       ('unreachable', info, uncertain)
    Evaluation of a path stops at a guard that is certainly false (handler is [[noreturn]])."""
    tr = Trace()
    tr.data_free = data_free
    _run(prog, env, tr, False, general)
    return tr


def _run(prog, env, tr, unc, general):
    """returns 'cont' | 'ret' | 'fired'"""
    for nd in prog:
        k = nd[0]
        if k == "guard":
            v = T.truth(nd[1], env)
            tr.events.append(("guard", nd[2], v, unc))
            if v is False:
                if not unc:
                    tr.fired = nd[2]
                    return "fired"
                tr.fired_uncertain = True
        elif k == "oblige":
            v = T.truth(nd[1], env)
            tr.events.append(("oblige", nd[2], v, unc, general))
        elif k == "effect":
            tr.events.append(("effect", nd[1], nd[2], unc))
        elif k == "assume":
            if general:
                v = T.truth(nd[1], env)
                if v is False:
                    return "ret"
        elif k == "unreachable":
            tr.events.append(("unreachable", nd[1], unc))
            if not unc:
                return "ret"
        elif k == "ret":
            if not unc:
                return "ret"
            # uncertain return: everything after is uncertain (already flagged)
            return "ret"
        elif k == "inline":
            r = _run(nd[2], env, tr, unc, general)
            if r == "fired":
                return r
        elif k == "branch":
            c = T.truth(nd[1], env)
            if c is True:
                r = _run(nd[2], env, tr, unc, general)
                if r != "cont":
                    return r
            elif c is False:
                r = _run(nd[3], env, tr, unc, general)
                if r != "cont":
                    return r
            else:
                # a test on element values is free (data_free mode): either outcome is a real execution
                data = tr.data_free and bool(nd[4].get("data"))
                u2 = unc if data else True
                r1 = _run(nd[2], env, tr, u2, general)
                r2 = _run(nd[3], env, tr, u2, general)
                if r1 != "cont" and r2 != "cont":
                    return "ret"
                if (r1 != "cont" or r2 != "cont") and not data:
                    unc = True
        elif k == "loop":
            c1 = T.truth(nd[3] if general else nd[1], env)
            if general and c1 is not False:
                for fct in nd[6].get("back_edge_facts", []):
                    if T.truth(fct, env) is False:
                        c1 = False
                        break
            if c1 is not False:
                r = _run(nd[4] if general else nd[2], env, tr, unc or c1 is None, general)
                if r == "fired" and c1 is True and not unc:
                    return r
                if r == "ret" and c1 is True and not unc:
                    return r
                if r != "cont":
                    unc = True
            # generalised iterations are evaluated by the caller through run_general
            # after a loop, anything depending on modified variables is unknown (terms are 'unk')
    return "cont"


def general_loops(prog):
    """All ('loop', ...) nodes, for the generalised-iteration pass."""
    return [nd for nd in flatten(prog) if nd[0] == "loop"]
