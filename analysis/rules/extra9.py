"""Rules written while the final regression was running (wired afterwards).

PREFIXWIN  inside `for (i = S; i != E; ++i)` a search of the already visited prefix `[X, i)` (find / count / any_of ... whose
           range ends at the loop cursor) starts at the loop's own start: X is S. Looking back further than the loop started
           (or less far) makes "already handled" mean something else than what the loop handled.
"""
from .. import astx


def ref_name(e):
    e = astx.strip_casts(e)
    if e is not None and e.get("k") == "ref" and e.get("d") in ("param", "local", "binding"):
        return e["n"]
    return None

PREFIX_SEARCHES = {"find", "find_if", "find_if_not", "count", "count_if", "any_of", "none_of", "all_of", "search", "find_first_of"}


def check_prefix_window(f):
    """returns None | list of (call, X text, S text)"""
    if f.get("body") is None:
        return None
    out = []
    subject = False
    for lp in [st for st in astx.walk_stmts(f["body"]) if st.get("k") == "for" and st.get("init") is not None and st["init"].get("k") == "decl"]:
        vs = [v for v in lp["init"]["vars"] if "other" not in v and v.get("init") is not None]
        if len(vs) != 1:
            continue
        cur, start = vs[0]["n"], astx.strip_casts(vs[0]["init"])
        s_name = ref_name(start)
        if s_name is None:
            continue
        for x in astx.walk_stmt_exprs(lp.get("body"), into_lambdas=False):
            if x.get("k") != "call" or astx.callee(x)[0] not in PREFIX_SEARCHES or len(x["a"]) < 2:
                continue
            if ref_name(x["a"][1]) != cur:
                continue
            x_name = ref_name(x["a"][0])
            if x_name is None or x_name == cur:
                continue
            subject = True
            if x_name != s_name:
                out.append((x, x_name, s_name))
    return out if subject else None


def prefix_window_area(chk, db, prefixes, rule="PREFIXWIN"):
    n = 0
    for f in db.funcs:
        if f.get("body") is None or not any(f["file"].startswith(p) for p in prefixes):
            continue
        r = check_prefix_window(f)
        if r is None:
            continue
        n += 1
        construct = astx.sig(f)
        chk.instance(rule)
        chk.obligation(rule, construct, not r)
        for call, xn, sn in r[:1]:
            chk.violation(rule, construct, "prefix-window",
                          "%s: `%s` searches the prefix that ends at the loop cursor starting from `%s`, but the loop itself starts at "
                          "`%s`: elements in front of the loop's range count as already handled although the loop never handled them"
                          % (astx.loc(f, call), astx.show(call, 50), xn, sn), {"where": astx.loc(f)})
    return n
