"""Rules S1-S6 for the sorted-unique containers (DESIGN.md 5 C09), decided on the structural paths of the AST."""
import re
from .. import astx

ORDER_ALGOS = {"lower_bound": 4, "upper_bound": 4, "equal_range": 4, "binary_search": 4, "sort": 3, "stable_sort": 3,
               "includes": 5, "merge": 6, "is_sorted": 3, "is_sorted_until": 3, "inplace_merge": 4, "set_union": 6,
               "set_difference": 6, "set_intersection": 6}
INSERTERS = ("push_back", "emplace_back", "emplace", "insert", "unchecked_push_back", "unchecked_emplace_back")
MAX_PATHS = 128
NORETURN = {"assert_handler", "terminate", "abort", "unreachable", "raise", "call_assert_handler", "default_assert_handler"}


def inline_bool_locals(path):
    """a condition that is just a local declared earlier on the path with a boolean expression as initialiser
    (`auto const found = pos != end() && !cmp(value, *pos); if (found) ...`) is replaced by that expression"""
    decls = {}
    out = []
    for ev in path:
        if ev[0] == "decl" and isinstance(ev[1], dict) and ev[1].get("init") is not None and ev[1].get("n"):
            i0 = astx.strip_casts(ev[1]["init"])
            while i0 is not None and i0.get("k") == "paren":
                i0 = astx.strip_casts(i0.get("e"))
            if i0 is not None and ((i0.get("k") == "bin" and i0.get("op") in ("&&", "||", "and", "or", "==", "!=", "<", ">", "<=", ">=")) or
                                   (i0.get("k") == "un" and i0.get("op") == "!")):
                decls[ev[1]["n"]] = i0
        if ev[0] == "cond" and decls:
            c = astx.strip_casts(ev[1])
            neg = False
            while c is not None and ((c.get("k") == "un" and c.get("op") == "!") or c.get("k") == "paren"):
                if c.get("k") == "un":
                    neg = not neg
                c = astx.strip_casts(c.get("e"))
            if c is not None and c.get("k") == "ref" and c.get("n") in decls and c.get("d") in ("local", None, "var"):
                e = decls[c["n"]]
                if neg:
                    e = {"k": "un", "op": "!", "e": e}
                ev = (ev[0], e) + tuple(ev[2:])
        out.append(ev)
    return out


def paths(body):
    """structural paths: lists of ('cond', expr, taken) / ('decl', var) / ('expr', expr) / ('ret', expr)"""
    out = []

    def walk(stmts, i, cur):
        if len(out) > MAX_PATHS:
            return
        if i >= len(stmts):
            return [cur]
        s = stmts[i]
        k = s.get("k") if s else None
        nxt = lambda c: walk(stmts, i + 1, c)     # noqa: E731
        if s is None or k == "null":
            return nxt(cur)
        if k == "seq":
            res = []
            for c in walk(s["s"], 0, cur) or []:
                if c and c[-1][0] in ("ret", "break", "continue"):
                    res.append(c)
                else:
                    res += nxt(c) or []
            return res
        if k == "decl":
            c = list(cur)
            for v in s["vars"]:
                if "other" not in v:
                    c.append(("decl", v))
            return nxt(c)
        if k == "expr":
            e0 = astx.strip_casts(s["e"])
            if e0 is not None and e0.get("k") == "call" and astx.callee(e0)[0] in NORETURN:
                return [cur + [("expr", s["e"]), ("ret", None)]]      # the contract handler / terminate does not return
            return nxt(cur + [("expr", s["e"])])
        if k == "return":
            # `return c ? a : b;` is the two paths `if (c) return a; return b;`
            def split(e, acc):
                e0 = astx.strip_casts(e) if e is not None else None
                while e0 is not None and e0.get("k") == "paren":
                    e0 = astx.strip_casts(e0.get("e"))
                if e0 is not None and e0.get("k") == "cond" and len(acc) < 8:
                    return split(e0["t"], acc + [("cond", e0["c"], True)]) + split(e0["f"], acc + [("cond", e0["c"], False)])
                return [acc + [("ret", e)]]
            return [cur + tail for tail in split(s.get("e"), [])]
        if k in ("break", "continue"):
            return [cur + [(k,)]]
        if k == "if":
            c0 = list(cur)
            if s.get("init"):
                for v in s["init"].get("vars", []):
                    if "other" not in v:
                        c0.append(("decl", v))
            res = []
            cond = s.get("c")
            for taken, br in ((True, s.get("then")), (False, s.get("else"))):
                c1 = c0 + ([("cond", cond, taken)] if cond is not None else [])
                sub = walk([br], 0, c1) if br else [c1]
                for c in sub or []:
                    if c and c[-1][0] in ("ret", "break", "continue"):
                        res.append(c)
                    else:
                        res += nxt(c) or []
            return res
        if k in ("for", "while", "do", "rangefor"):
            c0 = list(cur)
            if k == "for" and s.get("init"):
                for v in s["init"].get("vars", []) if s["init"].get("k") == "decl" else []:
                    if "other" not in v:
                        c0.append(("decl", v))
            res = []
            # zero iterations (a do-while body runs at least once)
            if k != "do":
                res += nxt(c0 + ([("cond", s["c"], False)] if s.get("c") is not None else [])) or []
            # one iteration, then the increment, then a second evaluation of the body head (back edge)
            c1 = c0 + ([("cond", s["c"], True)] if s.get("c") is not None and k != "do" else [])
            for c in walk([s.get("body")], 0, c1) or []:
                if c and c[-1][0] == "ret":
                    res.append(c)
                    continue
                if c and c[-1][0] == "break":
                    res += nxt(c[:-1] + [("loop-exit",)]) or []
                    continue
                c2 = list(c[:-1]) if c and c[-1][0] == "continue" else list(c)
                if k == "for" and s.get("inc") is not None:
                    c2.append(("expr", s["inc"]))
                if s.get("c") is not None:
                    c2.append(("backedge-cond", s["c"]))
                res += nxt(c2) or []
            return res
        return nxt(cur + [("opaque", s)])

    r = walk([body], 0, [])
    return r or []


def normalised_paths(body):
    """paths() with two spellings folded into the plain one: a test on a boolean local is replaced by the local's initialiser,
    and `return c ? a : b;` becomes the two paths `if (c) return a; return b;`"""
    out = []
    for p in paths(body):
        alts = [[]]
        inits = {}
        for ev in p:
            if ev[0] == "decl" and ev[1].get("init") is not None:
                inits[ev[1]["n"]] = ev[1]["init"]
            if ev[0] == "cond":
                c = astx.strip_casts(ev[1])
                neg = False
                while c is not None and c.get("k") == "un" and c.get("op") == "!":
                    neg = not neg
                    c = astx.strip_casts(c["e"])
                if c is not None and c.get("k") == "ref" and c.get("d") == "local" and c["n"] in inits:
                    ev = ("cond", inits[c["n"]], ev[2] != neg)
            if ev[0] == "ret" and ev[1] is not None and astx.strip_casts(ev[1]) is not None and astx.strip_casts(ev[1]).get("k") == "cond":
                ce = astx.strip_casts(ev[1])
                c = astx.strip_casts(ce["c"])
                if c is not None and c.get("k") == "ref" and c.get("d") == "local" and c["n"] in inits:
                    c = inits[c["n"]]
                alts = [a + [("cond", c, True), ("ret", ce["t"])] for a in alts] + [a + [("cond", c, False), ("ret", ce["f"])] for a in alts]
                continue
            alts = [a + [ev] for a in alts]
        out += alts
    return out


def calls_in(e):
    return [x for x in astx.walk_expr(e, into_lambdas=True) if x.get("k") == "call"]


def event_exprs(ev):
    if ev[0] in ("cond", "backedge-cond", "expr", "ret"):
        return [ev[1]] if ev[1] is not None else []
    if ev[0] == "decl":
        return [ev[1]["init"]] if ev[1].get("init") is not None else []
    return []


def mentions(e, names):
    for x in astx.walk_expr(e, into_lambdas=True):
        if x.get("k") in ("ref", "mem") and x.get("n") in names:
            return True
        if x.get("k") in ("construct", "cast") and any(n in x.get("ty", "") for n in names):
            return True
    return False


def comparator_names(db, rec_q):
    rec = db.record(rec_q)
    names = {"key_compare", "value_compare", "Compare", "Comp", "key_comp", "value_comp"}
    for fd in rec["fields"] if rec else []:
        if "ompar" in fd["ty"] or "ompar" in fd["n"]:
            names.add(fd["n"])
    return names


def is_store_range(call):
    """begin()/end() of the receiver or of its member container as the first two arguments"""
    a = call["a"]
    if len(a) < 2:
        return False
    def beg_end(x, which):
        x = astx.strip_casts(x)
        if x is None or x.get("k") != "call":
            return False
        n, q, recv, kind = astx.callee(x)
        return n in which
    return beg_end(a[0], ("begin", "cbegin")) and beg_end(a[1], ("end", "cend"))


def s1_comparator(chk, db, rec_q, funcs):
    cn = comparator_names(db, rec_q)
    n = 0
    for f in funcs:
        local_cmp = set()
        for st in astx.walk_stmts(f["body"]):
            if st.get("k") == "decl":
                for v in st["vars"]:
                    if "other" not in v and v.get("init") is not None and mentions(v["init"], cn):
                        local_cmp.add(v["n"])
                    if "other" not in v and any(c in v.get("ty", "") for c in cn):
                        local_cmp.add(v["n"])
        for c in [x for x in astx.all_exprs(f) if x.get("k") == "call"]:
            nm, q, recv, kind = astx.callee(c)
            if kind != "free" or nm not in ORDER_ALGOS or not is_store_range(c):
                continue
            n += 1
            construct = "%s :: %s" % (astx.sig(f), nm)
            chk.instance("S1")
            want = ORDER_ALGOS[nm]
            ok = len(c["a"]) >= want and mentions(c["a"][want - 1], cn | local_cmp)
            chk.obligation("S1", construct, ok)
            if not ok:
                chk.violation("S1", construct, "comparator-missing",
                              "%s: %s over the backing store is called without the set's comparator (`%s`)" % (
                                  astx.loc(f, c), nm, astx.show(c, 100)), {"where": astx.loc(f)})
            else:
                chk.sample({"rule": "S1", "call": astx.show(c, 90), "in": astx.sig(f)})
    return n


def container_fields(db, rec_q):
    rec = db.record(rec_q)
    out = set()
    for fd in rec["fields"] if rec else []:
        if "ompar" in fd["ty"] or "ompar" in fd["n"]:
            continue
        out.add(fd["n"])
    return out


def member_container_call(c, cfields, names):
    nm, q, recv, kind = astx.callee(c)
    if kind != "member" or nm not in names:
        return False
    r = astx.strip_casts(recv)
    return r is not None and r.get("k") == "mem" and astx.is_this(r.get("b")) and r["n"] in cfields


def s2_guarded_insertion(chk, db, rec_q, funcs, needs_full):
    cfields = container_fields(db, rec_q)
    cn = comparator_names(db, rec_q)
    n = 0
    for f in funcs:
        if f.get("kind") == "ctor":
            continue
        if not any(member_container_call(c, cfields, INSERTERS) for c in astx.all_exprs(f) if c.get("k") == "call"):
            continue
        n += 1
        construct = astx.sig(f)
        chk.instance("S2")
        bad = None
        keys = set(p0["n"] for p0 in f["params"])
        reach_gt = False
        any_ins = False
        for p in map(inline_bool_locals, paths(f["body"])):
            lb_vars = set()
            have_lb = have_test = have_full = False
            feasible = {"=": True, ">": True}
            modelled = True
            lcn = set(cn)
            for ev in p:
                if ev[0] == "decl" and ev[1].get("init") is not None:
                    init0 = ev[1]["init"]
                    if mentions(init0, cn) and not calls_in(init0):
                        lcn.add(ev[1]["n"])
                    elif not any(astx.callee(c)[0] in ("lower_bound", "find", "upper_bound") for c in calls_in(init0)):
                        keys.add(ev[1]["n"])      # auto key = Key{args...};
                for e in event_exprs(ev):
                    for c in calls_in(e):
                        nm = astx.callee(c)[0]
                        if nm == "lower_bound":
                            have_lb = True
                            if ev[0] == "decl":
                                lb_vars.add(ev[1]["n"])
                            if ev[0] == "expr" and e.get("k") == "bin" and e["op"] == "=":
                                l0 = astx.strip_casts(e["l"])
                                if l0.get("k") == "ref":
                                    lb_vars.add(l0["n"])
                    if ev[0] == "cond" and lb_vars and mentions(e, lb_vars):
                        # the test on the position: pos == end() or a comparison of (key, *pos)
                        have_test = True
                        # decided in the two orderings lower_bound leaves open: element == key / element > key
                        for o in "=>":
                            t = pred_truth(_subst_end_tests(e), lb_vars, keys, lcn, o)
                            if t is None:
                                modelled = False
                            elif t != ev[2]:
                                feasible[o] = False
                    if ev[0] == "cond" and any(astx.callee(c)[0] == "full" for c in calls_in(e)) and ev[2] is False if \
                            (e.get("k") != "un") else (ev[0] == "cond" and any(astx.callee(c)[0] == "full" for c in calls_in(e)) and ev[2] is True):
                        have_full = True
                    for c in calls_in(e):
                        if member_container_call(c, cfields, INSERTERS):
                            miss = []
                            if not have_lb:
                                miss.append("a lower_bound position")
                            if not have_test:
                                miss.append("the uniqueness test on that position")
                            if needs_full and not have_full:
                                miss.append("the !full() test")
                            if miss and bad is None:
                                bad = (c, miss)
                            any_ins = True
                            if have_lb and have_test and modelled:
                                if feasible["="] and bad is None:
                                    bad = (c, ["a uniqueness test that excludes an equivalent element (the insertion is reached when the "
                                               "element at the position is equivalent to the key)"])
                                if feasible[">"]:
                                    reach_gt = True
                            else:
                                reach_gt = True
        if any_ins and not reach_gt and bad is None:
            bad = (None, ["NONE"])
        if False:
            pass
        chk.obligation("S2", construct, bad is None)
        if bad:
            chk.violation("S2", construct, "unguarded-insertion",
                          ("%s: no insertion is reachable when the element at the lower_bound position is greater than the key: a key "
                           "whose successor is already stored is never inserted" % astx.loc(f)) if bad[1] == ["NONE"] else
                          "%s: `%s` is reachable without %s" % (astx.loc(f, bad[0]), astx.show(bad[0], 80) if bad[0] else f["n"], " and ".join(bad[1])),
                          {"where": astx.loc(f)})
    return n


def _subst_end_tests(e):
    """replace `x == end()` by false and `x != end()` by true (the position is taken to designate an element)"""
    e = astx.strip_casts(e)
    if e is None:
        return None
    k = e.get("k")
    if k == "paren":
        return _subst_end_tests(e.get("e"))
    if k == "un" and e["op"] == "!":
        return {"k": "un", "op": "!", "e": _subst_end_tests(e["e"])}
    if k == "bin" and e["op"] in ("&&", "||"):
        return {"k": "bin", "op": e["op"], "l": _subst_end_tests(e["l"]), "r": _subst_end_tests(e["r"])}
    if k == "bin" and e["op"] in ("==", "!=") and any(astx.callee(x)[0] in ("end", "cend") for x in calls_in(e)):
        return {"k": "bool", "v": e["op"] == "!="}
    return e


def s3_erase_by_key(chk, db, rec_q, funcs):
    """erase(key): the position found by lower_bound/find is erased exactly when its element is equivalent to the key.
    Decided in the two worlds lower_bound leaves open (element == key, element > key): the tests on the path to the erase
    are evaluated in each; the erase must be reachable in the first and unreachable in the second."""
    cn = comparator_names(db, rec_q)
    n = 0
    for f in funcs:
        if f["n"] != "erase" or len(f["params"]) != 1 or "iterator" in f["params"][0]["ty"]:
            continue
        n += 1
        construct = astx.sig(f)
        chk.instance("S3")
        key = f["params"][0]["n"]
        bad = None
        unknown = None
        reach_eq = False
        any_pos_erase = False
        for p in normalised_paths(f["body"]):      # a test on a boolean local is the test of its initialiser
            pos_vars = set()
            tested = False
            by_remove = False
            feasible = {"=": True, ">": True}
            modelled = True
            lcn = set(cn)
            for ev in p:
                if ev[0] == "decl" and ev[1].get("init") is not None and mentions(ev[1]["init"], cn) and not calls_in(ev[1]["init"]):
                    lcn.add(ev[1]["n"])          # auto cmp = key_compare{};
                for e in event_exprs(ev):
                    for c in calls_in(e):
                        nm = astx.callee(c)[0]
                        if nm in ("lower_bound", "find", "upper_bound") and ev[0] == "decl":
                            pos_vars.add(ev[1]["n"])
                        if nm in ("remove", "remove_if"):
                            by_remove = True
                    if ev[0] == "cond" and pos_vars and mentions(e, pos_vars):
                        if mentions(e, {key}) and (mentions(e, lcn) or _has_cmp_with_deref(e, pos_vars)):
                            tested = True
                        for o in "=>":
                            t = pred_truth(_subst_end_tests(e), pos_vars, {key}, lcn, o)
                            if t is None:
                                modelled = False
                            elif t != ev[2]:
                                feasible[o] = False
                    for c in calls_in(e):
                        nm, q, recv, kind = astx.callee(c)
                        if nm == "erase" and c["a"] and not by_remove:
                            a0 = astx.strip_casts(c["a"][0])
                            if a0.get("k") == "ref" and a0["n"] in pos_vars:
                                any_pos_erase = True
                                if not tested and bad is None:
                                    bad = (c, "erases the lower_bound position without testing that it is equivalent to the key")
                                elif tested and modelled:
                                    if feasible[">"] and bad is None:
                                        bad = (c, "is reached when the element at the position is greater than the key "
                                                  "(the equivalence test does not exclude it)")
                                    if feasible["="]:
                                        reach_eq = True
                                elif tested and not modelled:
                                    unknown = "the test on the erased position is not a modelled comparison"
                                    reach_eq = True
        if any_pos_erase and not reach_eq and bad is None:
            bad = (None, "no path erases the position when its element is equivalent to the key")
        chk.obligation("S3", construct, (bad is None) if unknown is None or bad else None)
        if bad:
            chk.violation("S3", construct, "erases-without-equivalence-test",
                          "%s: `%s` %s" % (astx.loc(f, bad[0]), astx.show(bad[0], 60) if bad[0] else "erase(key)", bad[1]),
                          {"where": astx.loc(f)})
        elif unknown:
            chk.unknown_instance("S3", construct, unknown)
    return n


def _has_cmp_with_deref(e, pos_vars):
    for x in astx.walk_expr(e):
        if x.get("k") == "bin" and x["op"] in ("==", "!=", "<", ">"):
            for side in (x["l"], x["r"]):
                s = astx.strip_casts(side)
                if s is not None and s.get("k") == "un" and s["op"] == "*":
                    inner = astx.strip_casts(s["e"])
                    if inner is not None and inner.get("k") == "ref" and inner["n"] in pos_vars:
                        return True
        if x.get("k") == "call" and not x["f"].get("k") == "mem":
            for a in x["a"]:
                s = astx.strip_casts(a)
                if s is not None and s.get("k") == "un" and s["op"] == "*":
                    inner = astx.strip_casts(s["e"])
                    if inner is not None and inner.get("k") == "ref" and inner["n"] in pos_vars:
                        return True
    return False



def s7_insert_result(chk, db, rec_q, funcs):
    """insert/emplace returning pair<iterator, bool>: on every path that is possible when an equivalent element is already
    stored, the iterator returned is the position found by the search (std: the element that prevented the insertion)."""
    cn = comparator_names(db, rec_q)
    n = 0
    for f in funcs:
        if f["n"] not in ("insert", "emplace") or "pair" not in (f.get("ret") or f.get("rty") or f.get("type") or "pair"):
            continue
        rets = [st for st in astx.walk_stmts(f["body"]) if st.get("k") == "return" and st.get("e") is not None]
        if not rets:
            continue
        # delegating overloads return the callee's pair unchanged
        def delegates(e):
            e = astx.strip_casts(e)
            return e is not None and e.get("k") == "call" and astx.callee(e)[0] in ("insert", "emplace")
        if all(delegates(r["e"]) for r in rets):
            continue
        searches = any(c for c in astx.all_exprs(f) if c.get("k") == "call" and astx.callee(c)[0] in ("lower_bound", "find"))
        if not searches and not any(delegates(r["e"]) for r in rets):
            continue
        # (a member that delegates on some paths and answers by itself on others is judged on the latter: without a search of
        # its own no position it returns can be the stored equivalent element's)
        n += 1
        construct = astx.sig(f)
        chk.instance("S7")
        bad = None
        keys = set(p0["n"] for p0 in f["params"])
        for p in map(inline_bool_locals, paths(f["body"])):
            pos_vars = set()
            lcn = set(cn)
            feasible_eq = True
            for ev in p:
                if ev[0] == "decl" and ev[1].get("init") is not None:
                    init = ev[1]["init"]
                    if mentions(init, cn) and not calls_in(init):
                        lcn.add(ev[1]["n"])
                    elif any(astx.callee(c)[0] in ("lower_bound", "find") for c in calls_in(init)):
                        pos_vars.add(ev[1]["n"])
                    elif not calls_in(init) or ev[1]["ty"] in ("Key", "value_type", "key_type") or \
                            re.match(r"\s*(Key|value_type|key_type)\s*[{(]", astx.show(init, 30)):
                        keys.add(ev[1]["n"])      # auto key = Key{args...};
                if ev[0] == "cond" and pos_vars and mentions(ev[1], pos_vars):
                    t = pred_truth(_subst_end_tests(ev[1]), pos_vars, keys, lcn, "=")
                    if t is not None and t != ev[2]:
                        feasible_eq = False
                if ev[0] == "ret" and ev[1] is not None and feasible_eq:
                    e = astx.strip_casts(ev[1])
                    if delegates(e):
                        continue
                    args = e.get("a", []) if e is not None and e.get("k") in ("call", "construct", "initlist") else []
                    if len(args) == 1 and args[0] is not None and args[0].get("k") == "initlist":
                        args = args[0]["a"]
                    first = astx.strip_casts(args[0]) if args else None
                    ok = first is not None and first.get("k") == "ref" and first.get("n") in pos_vars
                    if not ok and bad is None:
                        bad = (ev[1], "returns `%s` on a path that is taken when an equivalent element is already stored; "
                                      "std::set returns the position of that element" % astx.show(ev[1], 60))
        chk.obligation("S7", construct, bad is None)
        if bad:
            chk.violation("S7", construct, "insert-result", "%s: %s" % (astx.loc(f, bad[0]), bad[1]), {"where": astx.loc(f)})
    return n


# ---- S8: the iterator returned for a newly inserted element designates that element ----------------------------------------
def s8_new_position(chk, db, rec_q, funcs):
    """insert / emplace build their result for a *new* element from the lower_bound position p: the element ends up at p
    (everything from p on moves one slot up), so the returned iterator must be p. Two spellings are evaluated:
    `pos = container.emplace(p, ...)` / `insert(p, ...)` (returns p by the container's contract) and the append-then-rotate
    form `pos = rotate(p, end - 1, end)`, whose value is `p + (end - (end - 1))` = p + 1 by [alg.rotate] -- one past the new
    element."""
    n = 0
    for f in funcs:
        if f["n"] not in ("insert", "emplace") or f.get("body") is None:
            continue
        calls = [c for c in astx.all_exprs(f) if c.get("k") == "call"]
        lb = [c for c in calls if astx.callee(c)[0] in ("lower_bound",)]
        rots = [c for c in calls if astx.callee(c)[0] == "rotate" and len(c["a"]) == 3]
        if not lb or not rots:
            continue
        n += 1
        construct = astx.sig(f)
        chk.instance("S8")
        inits = {}
        for st in astx.walk_stmts(f["body"]):
            if st.get("k") == "decl":
                for v in st["vars"]:
                    if "other" not in v and v.get("init") is not None:
                        inits[v["n"]] = v["init"]
        pvars = set(nm for nm, init in inits.items() if any(astx.callee(c)[0] == "lower_bound" for c in calls_in(init)))

        def lin(e, depth=0):
            """(coefficient of p, coefficient of end, constant) or None"""
            e = astx.strip_casts(e)
            while e is not None and e.get("k") == "paren":
                e = astx.strip_casts(e.get("e"))
            if e is None or depth > 5:
                return None
            iv = astx.int_value(e)
            if iv is not None:
                return (0, 0, iv)
            if e.get("k") == "ref":
                if e["n"] in pvars:
                    return (1, 0, 0)
                if e["n"] in inits:
                    return lin(inits[e["n"]], depth + 1)
                return None
            if e.get("k") == "bin" and e["op"] in ("+", "-"):
                a, b = lin(e["l"], depth + 1), lin(e["r"], depth + 1)
                if a is None or b is None:
                    return None
                sg = 1 if e["op"] == "+" else -1
                return (a[0] + sg * b[0], a[1] + sg * b[1], a[2] + sg * b[2])
            if e.get("k") == "call":
                nm = astx.callee(e)[0]
                if nm in ("end", "cend") and not e["a"]:
                    return (0, 1, 0)
                if nm == "prev" and len(e["a"]) == 1:
                    a = lin(e["a"][0], depth + 1)
                    return None if a is None else (a[0], a[1], a[2] - 1)
                if nm == "next" and len(e["a"]) == 1:
                    a = lin(e["a"][0], depth + 1)
                    return None if a is None else (a[0], a[1], a[2] + 1)
                if nm == "rotate" and len(e["a"]) == 3:
                    a, b, c = (lin(x, depth + 1) for x in e["a"])
                    if a is None or b is None or c is None:
                        return None
                    return (a[0] + c[0] - b[0], a[1] + c[1] - b[1], a[2] + c[2] - b[2])     # first + (last - middle)
            return None
        bad = unknown = None
        for st in astx.walk_stmts(f["body"]):
            if st.get("k") != "return" or st.get("e") is None:
                continue
            e = astx.strip_casts(st["e"])
            args = e.get("a", []) if e is not None and e.get("k") in ("call", "construct", "initlist") else []
            if len(args) == 1 and args[0] is not None and args[0].get("k") == "initlist":
                args = args[0]["a"]
            if len(args) != 2:
                continue
            flag = astx.strip_casts(args[1])
            if flag is None or flag.get("k") != "bool" or not flag["v"]:
                continue            # only the `(it, true)` results
            v = lin(args[0])
            if v is None:
                unknown = "the iterator returned with `true` is not a linear form of the lower_bound position"
            elif v != (1, 0, 0) and bad is None:
                off = v[2] if (v[0], v[1]) == (1, 0) else None
                bad = (st, "returns `%s` with `true`; by [alg.rotate] that is %s, but the new element is at the lower_bound position itself" % (
                    astx.show(args[0], 40), ("that position %+d" % off) if off is not None else "not that position"))
        chk.obligation("S8", construct, False if bad else (None if unknown else True))
        if bad:
            chk.violation("S8", construct, "new-element-position", "%s: %s" % (astx.loc(f, bad[0]), bad[1]), {"where": astx.loc(f)})
        elif unknown:
            chk.unknown_instance("S8", construct, unknown)
    return n


# ---- S4: lookup selects by equivalence -----------------------------------------------------------------------
def pred_truth(e, elem, key, cmp_names, o):
    """truth of a predicate over (element, key) when ord(element, key) = o; None if not modelled"""
    e = astx.strip_casts(e)
    if e is None:
        return None
    k = e.get("k")
    if k == "bool":
        return e["v"]
    if k == "un" and e["op"] == "!":
        v = pred_truth(e["e"], elem, key, cmp_names, o)
        return None if v is None else not v
    if k == "bin" and e["op"] in ("&&", "||"):
        a = pred_truth(e["l"], elem, key, cmp_names, o)
        b = pred_truth(e["r"], elem, key, cmp_names, o)
        if a is None or b is None:
            return None
        return (a and b) if e["op"] == "&&" else (a or b)

    def side(x):
        x = astx.strip_casts(x)
        if x is None:
            return None
        if x.get("k") == "ref" and x["n"] in elem:
            return "E"
        if x.get("k") == "ref" and x["n"] in key:
            return "K"
        if x.get("k") == "un" and x["op"] == "*":
            y = astx.strip_casts(x["e"])
            if y is not None and y.get("k") == "ref" and y["n"] in elem:
                return "E"
            if y is not None and y.get("k") == "ref" and y["n"] in key:
                return "K"
        return None
    if k == "bin" and e["op"] in ("==", "!=", "<", ">", "<=", ">="):
        a, b = side(e["l"]), side(e["r"])
        if a and b and a != b:
            oo = o if a == "E" else {"<": ">", "=": "=", ">": "<"}[o]
            return oo in {"==": "=", "!=": "<>", "<": "<", ">": ">", "<=": "<=", ">=": ">="}[e["op"]]
        return None
    if k == "call" and len(e["a"]) == 2:
        f = e["f"]
        fname = f.get("n")
        f0 = astx.strip_casts(f)
        via_getter = f0 is not None and f0.get("k") == "call" and not f0.get("a") and \
            astx.callee(f0)[0] in ("key_comp", "value_comp")           # key_comp()(a, b)
        if via_getter or fname in cmp_names or (f.get("k") in ("construct", "cast") and any(c in f.get("ty", "") for c in cmp_names)):
            a, b = side(e["a"][0]), side(e["a"][1])
            if a and b and a != b:
                return (o == "<") if a == "E" else (o == ">")
    return None


def s4_lookup(chk, db, rec_q, funcs):
    cn = comparator_names(db, rec_q)
    n = 0
    for f in funcs:
        if f["n"] != "find" or len(f["params"]) != 1:
            continue
        n += 1
        construct = astx.sig(f)
        chk.instance("S4")
        key = {f["params"][0]["n"]}
        local_cmp = set(cn)
        selected = None
        why = None
        body = f["body"]
        stmts = body["s"] if body.get("k") == "seq" else [body]
        lb_var = None
        for st in stmts:
            if st.get("k") == "decl":
                for v in st["vars"]:
                    if "other" in v or v.get("init") is None:
                        continue
                    if mentions(v["init"], cn) and not calls_in(v["init"]):
                        local_cmp.add(v["n"])
                    for c in calls_in(v["init"]):
                        if astx.callee(c)[0] == "lower_bound":
                            lb_var = v["n"]
            if st.get("k") == "return" and st.get("e") is not None and selected is None:
                e = astx.strip_casts(st["e"])
                cs = [c for c in calls_in(e)]
                if e.get("k") == "call" and astx.callee(e)[0] == "find" and len(e["a"]) == 3:
                    selected = {"="}        # linear search with operator==
                elif e.get("k") == "call" and astx.callee(e)[0] in ("find_if",) and len(e["a"]) == 3 and e["a"][2].get("k") == "lambda":
                    lam = e["a"][2]
                    elem = {lam["params"][0]["n"]} if lam.get("params") else set()
                    lc = set(local_cmp)
                    ret = None
                    for s2 in astx.walk_stmts(lam["body"]):
                        if s2.get("k") == "decl":
                            for v in s2["vars"]:
                                if "other" not in v and v.get("init") is not None and mentions(v["init"], cn):
                                    lc.add(v["n"])
                        if s2.get("k") == "return":
                            ret = s2.get("e")
                    sel = set()
                    for o in "<=>":
                        t = pred_truth(ret, elem, key, lc, o)
                        if t is None:
                            sel = None
                            break
                        if t:
                            sel.add(o)
                    selected = sel
                elif lb_var and e.get("k") == "ref" and e["n"] == lb_var:
                    # reached only when the preceding `if (it == end() or comp(key, *it)) return end();` was not taken
                    selected = "lb"
            if st.get("k") == "if" and lb_var and selected is None:
                # if (it == end() or cmp(key, *it)) return end();
                c = st["c"]
                sel = set()
                okm = True
                for o in "=>":       # lower_bound: element is not less than key
                    t = pred_truth(_drop_end_test(c, lb_var), {lb_var}, key, local_cmp, o)
                    if t is None:
                        okm = False
                        break
                    if not t:
                        sel.add(o)
                selected = sel if okm else None
        if selected == "lb":
            selected = None
        if selected is None:
            chk.unknown_instance("S4", construct, "selection predicate not modelled")
            continue
        ok = selected == {"="}
        chk.obligation("S4", construct, ok, evaluations=3)
        if not ok:
            chk.violation("S4", construct, "selects-non-equivalent",
                          "%s: find selects an element e with ord(e, key) in %s (must be exactly '=')" % (astx.loc(f), sorted(selected)),
                          {"where": astx.loc(f)})
        else:
            chk.sample({"rule": "S4", "find": construct, "selected_orderings": sorted(selected)})
    return n


def _drop_end_test(c, lb_var):
    """`it == end() or P` -> P"""
    c = astx.strip_casts(c)
    if c is not None and c.get("k") == "bin" and c["op"] == "||":
        l = astx.strip_casts(c["l"])
        if l.get("k") == "bin" and l["op"] == "==" and any(astx.callee(x)[0] in ("end", "cend") for x in calls_in(l)):
            return c["r"]
    return c


def s5_iterator_reuse(chk, funcs):
    """after erase(it) the variable `it` is dead until it is reassigned"""
    n = 0
    for f in funcs:
        has = False
        bad = None
        for p in paths(f["body"]):
            dead = {}
            for ev in p:
                for e in event_exprs(ev):
                    e0 = e
                    assigned = None
                    if e0.get("k") == "bin" and e0["op"] == "=":
                        l0 = astx.strip_casts(e0["l"])
                        if l0.get("k") == "ref":
                            assigned = l0["n"]
                    # uses of dead variables (reads) in this expression, except as the target of an assignment
                    for x in astx.walk_expr(e):
                        if x.get("k") == "ref" and x["n"] in dead and x["n"] != assigned:
                            if bad is None:
                                bad = (x["n"], dead[x["n"]], e)
                    if assigned in dead:
                        del dead[assigned]
                    for c in calls_in(e):
                        nm, q, recv, kind = astx.callee(c)
                        if nm == "erase" and len(c["a"]) == 1:
                            a0 = astx.strip_casts(c["a"][0])
                            if a0 is not None and a0.get("k") == "ref" and a0.get("d") in ("local", "param"):
                                has = True
                                if a0["n"] != assigned:
                                    dead[a0["n"]] = c
        if not has:
            continue
        n += 1
        construct = astx.sig(f)
        chk.instance("S5")
        chk.obligation("S5", construct, bad is None)
        if bad:
            chk.violation("S5", construct, "iterator-reused-after-erase",
                          "%s: `%s` is used (`%s`) after it was passed to `%s`" % (astx.loc(f, bad[1]), bad[0], astx.show(bad[2], 60),
                                                                                  astx.show(bad[1], 60)), {"where": astx.loc(f)})
    return n


def s6_handover(chk, db, rec_q, funcs):
    """extract(): the container must be moved into a value before it is cleared"""
    cfields = container_fields(db, rec_q)
    n = 0
    for f in funcs:
        if f["n"] != "extract":
            continue
        n += 1
        construct = astx.sig(f)
        chk.instance("S6")
        bad = None
        moved_to_value = False
        for p in paths(f["body"]):
            refs = set()
            for ev in p:
                if ev[0] == "decl":
                    v = ev[1]
                    if v.get("init") is not None and mentions(v["init"], cfields):
                        if v.get("ref"):
                            refs.add(v["n"])
                        else:
                            moved_to_value = True
                for e in event_exprs(ev):
                    for c in calls_in(e):
                        nm, q, recv, kind = astx.callee(c)
                        if nm == "clear" and refs and bad is None:
                            bad = (c, sorted(refs))
        # [flat.set.modifiers] extract: "*this is emptied": a path that moves the container out leaves the set empty --
        # clear(), exchange(member, {}) or an assignment of an empty container to the member
        not_emptied = None
        if bad is None and moved_to_value:
            for p in paths(f["body"]):
                emptied = False
                for ev in p:
                    for e in event_exprs(ev):
                        for c in calls_in(e):
                            nm = astx.callee(c)[0]
                            if nm == "clear":
                                emptied = True
                            if nm == "exchange" and c["a"] and mentions(c["a"][0], cfields):
                                emptied = True
                        for x in astx.walk_expr(e, into_lambdas=False):
                            if x.get("k") == "bin" and x["op"] == "=" and mentions(x["l"], cfields):
                                r0 = astx.strip_casts(x["r"])
                                if r0 is not None and r0.get("k") in ("construct", "initlist") and not [a for a in r0.get("a", []) if a is not None and not (a.get("k") == "initlist" and not a.get("a"))]:
                                    emptied = True
                if p and p[-1][0] == "ret" and not emptied and not_emptied is None:
                    not_emptied = p[-1][1]
        ok = bad is None and moved_to_value and not_emptied is None
        chk.obligation("S6", construct, ok)
        if bad is None and moved_to_value and not_emptied is not None:
            chk.violation("S6", construct, "not-emptied", "%s: extract() returns the moved-out container but leaves the set's own container as the "
                          "move left it (a moved-from fixed-capacity vector keeps its size): the set is not emptied" % astx.loc(f, not_emptied),
                          {"where": astx.loc(f)})
        if bad:
            chk.violation("S6", construct, "cleared-through-reference",
                          "%s: `%s` is only a reference to the member container, which is cleared before it is returned" % (
                              astx.loc(f, bad[0]), bad[1][0]), {"where": astx.loc(f)})
        elif not moved_to_value:
            chk.violation("S6", construct, "not-moved-out", "%s: extract() does not move the member container into a value" % astx.loc(f),
                          {"where": astx.loc(f)})
    return n
