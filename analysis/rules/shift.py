"""Rule SHIFT: every shift count is smaller than the width of the (promoted) left operand.

Interval analysis over small symbolic bounds: W = the number of value bits of the function's unsigned template type
(8..64), literals, `x % m` in [0, m-1], parameters bounded by a dominating precondition / path test, differences of those.
The left operand's width is 32 for int/unsigned literals and for operands of a type narrower than int (integral promotion),
64 for (unsigned) long (long), W for operands of the template type. A count that can reach the width is undefined
behaviour (and not a constant expression): `1U << pos` with pos < W, `t >> (d - c % d)` with c % d == 0.
"""
from .. import astx
from . import sets as SP

WIDTH = {"int": 32, "unsigned int": 32, "unsigned": 32, "long": 64, "unsigned long": 64, "long long": 64, "unsigned long long": 64,
         "etl::uint8_t": 32, "etl::uint16_t": 32, "etl::uint32_t": 32, "etl::uint64_t": 64, "uint8_t": 32, "uint16_t": 32,
         "uint32_t": 32, "uint64_t": 64, "unsigned char": 32, "unsigned short": 32, "etl::size_t": 64, "size_t": 64, "bool": 32}
INF = 10 ** 6


class B:
    """bound a*W + b (a in {0, 1}), or None for unknown"""
    __slots__ = ("a", "b")

    def __init__(self, a, b):
        self.a, self.b = a, b

    def __repr__(self):
        if self.a == 0:
            return str(self.b)
        return "W" + ("%+d" % self.b if self.b else "")

    def at(self, w):
        return self.a * w + self.b


def _sub(x, y):
    if x is None or y is None:
        return None
    a = x.a - y.a
    return B(a, x.b - y.b) if a in (0, 1, -1) else None


def _add(x, y):
    if x is None or y is None:
        return None
    a = x.a + y.a
    return B(a, x.b + y.b) if a in (0, 1) else None


class Env:
    def __init__(self, tparams):
        self.tparams = tparams
        self.locals = {}       # name -> AST init
        self.upper = {}        # name -> B (inclusive upper bound)
        self.nonzero = set()   # canonical text of expressions known to be non-zero
        self.wname = set()     # names that hold W (digits)
        self.mutated = set()   # locals modified after their initialisation
        self.counters = set()  # locals initialised to 0 whose only modifications are ++ (loop counters)


def is_w(e, env):
    e = astx.strip_casts(e)
    if e is None:
        return False
    if e.get("k") in ("ref", "mem") and e.get("n") == "digits":
        return True
    if e.get("k") == "ref" and e.get("n") in env.wname:
        return True
    if e.get("k") == "bin" and e["op"] == "*":
        txt = astx.show(e, 60).replace(" ", "")
        if "sizeof" in txt and ("CHAR_BIT" in txt or "*8" in txt or "8*" in txt):
            return True
    return False


def interval(e, env, depth=0):
    """(lower B, upper B) of an unsigned count expression; (None, None) when unknown"""
    e = astx.strip_casts(e)
    if e is None or depth > 8:
        return None, None
    k = e.get("k")
    if k == "paren":
        return interval(e.get("e"), env, depth + 1)
    v = astx.int_value(e)
    if v is not None:
        return B(0, v), B(0, v)
    if is_w(e, env):
        return B(1, 0), B(1, 0)
    if k in ("construct",) and len(e.get("a", [])) == 1:
        return interval(e["a"][0], env, depth + 1)
    if k == "ref":
        n = e["n"]
        if n in env.mutated:
            # a local that is stepped or re-assigned is not bounded by its initialiser
            return (B(0, 1) if n in env.nonzero else B(0, 0)), env.upper.get(n)
        if n in env.locals:
            lo, hi = interval(env.locals[n], env, depth + 1)
            if n in env.nonzero and lo is not None and lo.a == 0 and lo.b == 0:
                lo = B(0, 1)
            if n in env.upper and (hi is None or (hi.a, hi.b) > (env.upper[n].a, env.upper[n].b)):
                hi = env.upper[n]
            return lo, hi
        return (B(0, 1) if n in env.nonzero else B(0, 0)), env.upper.get(n)
    if k == "bin" and e["op"] == "%":
        lo, hi = interval(e["r"], env, depth + 1)
        low = B(0, 1) if astx.show(e, 60) in env.nonzero else B(0, 0)
        return low, _sub(hi, B(0, 1)) if hi is not None else None
    if k == "bin" and e["op"] == "-":
        al, ah = interval(e["l"], env, depth + 1)
        bl, bh = interval(e["r"], env, depth + 1)
        return _sub(al, bh), _sub(ah, bl)
    if k == "bin" and e["op"] == "+":
        al, ah = interval(e["l"], env, depth + 1)
        bl, bh = interval(e["r"], env, depth + 1)
        return _add(al, bl), _add(ah, bh)
    if k == "call" and astx.callee(e)[0] == "min" and len(e["a"]) == 2:
        al, ah = interval(e["a"][0], env, depth + 1)
        bl, bh = interval(e["a"][1], env, depth + 1)
        his = [h for h in (ah, bh) if h is not None]
        hi = None
        if len(his) == 2:
            hi = his[0] if all(his[0].at(w) <= his[1].at(w) for w in (8, 16, 32, 64)) else (
                his[1] if all(his[1].at(w) <= his[0].at(w) for w in (8, 16, 32, 64)) else None)
            if hi is None:
                hi = his[0]       # either is an upper bound of the minimum
        elif his:
            hi = his[0]
        return B(0, 0), hi
    if k == "call" and astx.callee(e)[0] in ("bit_width", "countl_zero", "countr_zero", "popcount", "countl_one", "countr_one"):
        return B(0, 0), None        # bounded by W, but callers' preconditions usually make it smaller: not decided
    return None, None


def left_width(e, env):
    """32 | 64 | 'W' | None for the (promoted) left operand"""
    e0 = e
    while e0 is not None and e0.get("k") == "paren":
        e0 = e0.get("e")
    if e0 is None:
        return None
    k = e0.get("k")
    ty = (e0.get("ty") or "").replace("const ", "").strip()
    if k in ("cast", "construct"):
        if ty in env.tparams:
            return "W"
        if ty in WIDTH:
            return WIDTH[ty]
        return None
    if k == "int":
        return WIDTH.get(ty, 32)
    if k == "ref":
        if ty in env.tparams:
            return "W"
        if ty in WIDTH:
            return WIDTH[ty]
        if e0["n"] in env.locals:
            return left_width(env.locals[e0["n"]], env)
        return None
    if k == "bin" and e0["op"] in ("<<", ">>", "&", "|", "^"):
        return left_width(e0["l"], env)
    if k == "un" and e0["op"] == "~":
        return left_width(e0["e"], env)
    return None


def learn(cond, taken, env):
    c = astx.strip_casts(cond)
    if c is None:
        return
    if c.get("k") == "un" and c["op"] == "!":
        return learn(c["e"], not taken, env)
    if c.get("k") == "bin" and c["op"] == "&&" and taken:
        learn(c["l"], True, env)
        learn(c["r"], True, env)
        return
    if c.get("k") == "bin" and c["op"] == "||" and not taken:
        learn(c["l"], False, env)
        learn(c["r"], False, env)
        return
    if c.get("k") == "bin" and c["op"] in ("<", "<=", ">", ">=", "==", "!="):
        op = c["op"] if taken else {"<": ">=", "<=": ">", ">": "<=", ">=": "<", "==": "!=", "!=": "=="}[c["op"]]
        l, r = astx.strip_casts(c["l"]), astx.strip_casts(c["r"])
        if op in (">", ">="):
            l, r, op = r, l, {">": "<", ">=": "<="}[op]
        if op in ("<", "<=") and l is not None and l.get("k") == "ref":
            lo, hi = interval(r, env)
            if hi is not None:
                env.upper[l["n"]] = _sub(hi, B(0, 1)) if op == "<" else hi
        if op == "!=" and l is not None and l.get("k") == "ref" and l["n"] in env.counters:
            # `i != n` holds inside the body of a loop whose counter starts at 0 and only steps by one: i < n there
            lo, hi = interval(r, env)
            if hi is not None:
                env.upper[l["n"]] = _sub(hi, B(0, 1))
        for a, b in ((l, r), (r, l)):
            if op == "!=" and astx.int_value(b) == 0 and a is not None:
                env.nonzero.add(astx.show(a, 60))
                if a.get("k") == "ref":
                    env.nonzero.add(a["n"])
                    if a["n"] in env.locals:
                        env.nonzero.add(astx.show(astx.strip_casts(env.locals[a["n"]]), 60))


def check(chk, db, prefixes, rule="SHIFT", floor=8):
    n = 0
    for f in db.funcs:
        if not any(f["file"].startswith(p) for p in prefixes) or f.get("body") is None:
            continue
        shifts = [x for x in astx.all_exprs(f, into_lambdas=False) if x.get("k") == "bin" and x["op"] in ("<<", ">>", "<<=", ">>=")
                  and not x.get("ovl")]
        if not shifts:
            continue
        tparams = set(tp["n"] for tp in (f.get("tparams") or []) if tp.get("k") == "type")
        rec = db.record(f["record"]) if f.get("record") else None
        if rec:
            tparams |= set(tp.get("n") for tp in (rec.get("tparams") or []) if tp.get("k") == "type")
        tparams |= {"UInt", "WordType", "T"} & set(p["ty"].replace("const ", "").strip() for p in f["params"])
        construct = astx.sig(f)
        judged = {}
        counters = set()
        for st in astx.walk_stmts(f["body"]):
            if st.get("k") == "decl":
                for v in st["vars"]:
                    i0 = astx.strip_casts(v.get("init")) if v.get("init") is not None else None
                    while i0 is not None and i0.get("k") in ("construct", "initlist") and len(i0.get("a", [])) == 1:
                        i0 = astx.strip_casts(i0["a"][0])
                    if "other" not in v and i0 is not None and (astx.int_value(i0) == 0 or (i0.get("k") in ("construct", "initlist") and not i0.get("a"))):
                        counters.add(v["n"])
        mutated = set()
        for x in astx.all_exprs(f, into_lambdas=True):
            if x.get("k") == "bin" and x["op"].endswith("=") and x["op"] not in ("==", "!=", "<=", ">="):
                t = astx.strip_casts(x["l"])
                if t is not None and t.get("k") == "ref":
                    counters.discard(t["n"])
                    mutated.add(t["n"])
            if x.get("k") == "un" and x["op"] in ("--", "++"):
                t = astx.strip_casts(x["e"])
                if t is not None and t.get("k") == "ref":
                    mutated.add(t["n"])
                    if x["op"] == "--":
                        counters.discard(t["n"])
        for p in SP.paths(f["body"]):
            env = Env(tparams)
            env.counters = counters
            env.mutated = mutated
            for ev in p:
                if ev[0] == "cond":
                    # judge shifts inside the condition before learning from it
                    pass
                for e in SP.event_exprs(ev):
                    for x in astx.walk_expr(e, into_lambdas=False):
                        if x.get("k") == "bin" and x["op"] in ("<<", ">>", "<<=", ">>=") and not x.get("ovl"):
                            w = left_width(x["l"], env)
                            lo, hi = interval(x["r"], env)
                            verdict, why = None, "count or operand width not bounded"
                            if w is not None and hi is not None:
                                widths = (8, 16, 32, 64)
                                worst = None
                                for wbits in widths:
                                    lw = max(32, wbits) if w == "W" else w      # integral promotion of narrow operands
                                    if hi.a == 0 and w != "W" and wbits != widths[0]:
                                        continue
                                    if hi.at(wbits) >= lw:
                                        worst = (wbits, hi.at(wbits), lw)
                                        break
                                if worst:
                                    verdict, why = False, "the count can be %d (upper bound `%s`) with a %d-bit left operand%s" % (
                                        worst[1], hi, worst[2], (" when the template type has %d bits" % worst[0]) if (hi.a or w == "W") else "")
                                else:
                                    verdict, why = True, ""
                            key = id(x)
                            old = judged.get(key)
                            rank = {False: 3, None: 2, True: 1}
                            if old is None or rank[verdict] > rank[old[0]]:
                                judged[key] = (verdict, why, x)
                if ev[0] == "cond":
                    learn(ev[1], ev[2], env)
                if ev[0] == "decl" and ev[1].get("init") is not None:
                    env.locals[ev[1]["n"]] = ev[1]["init"]
                    if is_w(ev[1]["init"], env):
                        env.wname.add(ev[1]["n"])
        for key, (verdict, why, x) in judged.items():
            n += 1
            label = "%s :: `%s`" % (construct, astx.show(x, 50))
            chk.instance(rule)
            chk.obligation(rule, label, verdict)
            if verdict is False:
                chk.violation(rule, label, "shift-count", "%s: %s" % (astx.loc(f, x), why), {"where": astx.loc(f)})
            elif verdict is None:
                chk.unknown_instance(rule, label, why)
    if n < floor:
        chk.analysis_broken("%s: only %d shifts found in %s (floor %d)" % (rule, n, ", ".join(prefixes), floor))
    return n
