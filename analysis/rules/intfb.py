"""INTFB: the constant-evaluation fallback of an exactly specified *integer* function computes that function.

`etl::popcount` calls a compiler builtin at run time and `detail::popcount_fallback` during constant evaluation. The
fallback is a pure function of one unsigned integer: its body is evaluated from the source (loops, compound assignments,
shifts, masks, local lookup tables, casts to the word type with wrap-around) for every 8-bit value, every 16-bit value with
at most three bits set or cleared, and boundary values of the 32- and 64-bit types, and compared with the closed form."""
from .. import astx


class NM(Exception):
    pass


class _Ret(Exception):
    def __init__(self, v):
        Exception.__init__(self)
        self.v = v


def evaluate(f, arg, width, max_steps=5000):
    """value returned by f(arg) when its (single) template type parameter is an unsigned integer of `width` bits"""
    mask = (1 << width) - 1
    tps = [tp["n"] for tp in (f.get("tparams") or []) if tp.get("k") == "type"]
    steps = [0]

    def cast(ty, v):
        ty = (ty or "").replace("const ", "").strip()
        if ty in tps or ty in ("UInt", "T", "Unsigned"):
            return v & mask
        if ty in ("int", "unsigned", "unsigned int"):
            return v & 0xFFFFFFFF if ty != "int" else ((v + (1 << 31)) % (1 << 32)) - (1 << 31)
        if ty in ("etl::size_t", "size_t", "unsigned long", "unsigned long long", "etl::uint64_t"):
            return v & ((1 << 64) - 1)
        if ty == "bool":
            return 1 if v else 0
        return v

    def ev(e, env):
        steps[0] += 1
        if steps[0] > max_steps:
            raise NM("step limit")
        if e is None:
            raise NM("empty")
        k = e.get("k")
        if k == "int":
            return int(e["v"])
        if k == "bool":
            return 1 if e["v"] else 0
        if k == "char":
            return int(e["v"])
        if k == "cast":
            return cast(e.get("ty"), ev(e["e"], env))
        if k in ("construct", "initlist"):
            args = [a for a in e.get("a", []) if a is not None]
            if len(args) == 1 and args[0].get("k") == "initlist" and k == "construct":
                args = args[0]["a"]
            ty = e.get("ty") or ""
            if "[" in ty or "array" in ty or (k == "initlist" and len(args) > 1):
                return [ev(a, env) for a in args]
            if not args:
                return 0
            if len(args) == 1:
                return cast(ty, ev(args[0], env))
            raise NM("construction " + ty)
        if k == "ref":
            if e["n"] in env:
                return env[e["n"]]
            raise NM("name `%s`" % e["n"])
        if k == "idx":
            b, i = ev(e["b"], env), ev(e["i"], env)
            if isinstance(b, list) and 0 <= i < len(b):
                return b[i]
            raise NM("subscript")
        if k == "un":
            op = e["op"]
            if op in ("++", "--"):
                t = astx.strip_casts(e["e"])
                if t is None or t.get("k") != "ref" or t["n"] not in env:
                    raise NM("step target")
                old = env[t["n"]]
                env[t["n"]] = _wrap(old + (1 if op == "++" else -1), env, t["n"])
                return old if e.get("postfix") else env[t["n"]]
            if op == "~":
                lit = e["e"]
                while lit is not None and lit.get("k") == "paren":
                    lit = lit.get("e")
                if lit is not None and lit.get("k") == "int" and (lit.get("ty") or "").startswith("unsigned"):
                    # ~0U is a value of the literal's own (fixed) type, not of the word type
                    bits = 32 if lit.get("ty") in ("unsigned int", "unsigned") else 64
                    return ~int(lit["v"]) & ((1 << bits) - 1)
            v = ev(e["e"], env)
            if op == "!":
                return 0 if v else 1
            if op == "-":
                return -v
            if op == "~":
                return ~v
            if op == "+":
                return v
            raise NM("unary " + op)
        if k == "bin":
            op = e["op"]
            if op == "&&":
                return 1 if (ev(e["l"], env) and ev(e["r"], env)) else 0
            if op == "||":
                return 1 if (ev(e["l"], env) or ev(e["r"], env)) else 0
            if op == "=" or (op.endswith("=") and op not in ("==", "!=", "<=", ">=")):
                t = astx.strip_casts(e["l"])
                if t is None or t.get("k") != "ref" or t["n"] not in env:
                    raise NM("assignment target")
                r = ev(e["r"], env)
                v = r if op == "=" else _arith(op[:-1], env[t["n"]], r)
                env[t["n"]] = _wrap(v, env, t["n"])
                return env[t["n"]]
            a, b = ev(e["l"], env), ev(e["r"], env)
            if op in ("<", "<=", ">", ">=", "==", "!="):
                return 1 if {"<": a < b, "<=": a <= b, ">": a > b, ">=": a >= b, "==": a == b, "!=": a != b}[op] else 0
            return _arith(op, a, b)
        if k == "cond":
            return ev(e["t"] if ev(e["c"], env) else e["f"], env)
        if k == "paren":
            return ev(e.get("e"), env)
        if k == "call" and not e.get("a") and (e.get("f") or {}).get("k") == "ref":
            fq = (e["f"].get("qual") or "") + (e["f"].get("q") or "")
            for tp in tps:
                if "numeric_limits<%s>" % tp in fq.replace(" ", ""):
                    if e["f"]["n"] == "max":
                        return mask
                    if e["f"]["n"] in ("min", "lowest"):
                        return 0
        raise NM(astx.show(e, 30))

    widths = {}

    def _wrap(v, env, name):
        w = widths.get(name)
        return v & ((1 << w) - 1) if w else v

    def _arith(op, a, b):
        if op in ("/", "%") and b == 0:
            raise NM("division by zero")
        if op in ("<<", ">>") and not 0 <= b < 128:
            raise NM("shift count")
        return {"+": lambda: a + b, "-": lambda: a - b, "*": lambda: a * b, "/": lambda: a // b, "%": lambda: a % b,
                "&": lambda: a & b, "|": lambda: a | b, "^": lambda: a ^ b, "<<": lambda: a << b, ">>": lambda: a >> b}.get(
                    op, lambda: (_ for _ in ()).throw(NM("operator " + op)))()

    def run(st, env):
        if st is None:
            return
        steps[0] += 1
        if steps[0] > max_steps:
            raise NM("step limit")
        k = st.get("k")
        if k == "seq":
            for s0 in st["s"]:
                run(s0, env)
        elif k == "decl":
            for v in st["vars"]:
                if "other" in v:
                    continue
                env[v["n"]] = ev(v["init"], env) if v.get("init") is not None else 0
                ty = (v.get("ty") or "").replace("const ", "").strip()
                if ty in tps:
                    widths[v["n"]] = width
        elif k == "expr":
            ev(st["e"], env)
        elif k == "return":
            raise _Ret(ev(st["e"], env))
        elif k == "if":
            run(st.get("then") if ev(st["c"], env) else st.get("else"), env)
        elif k == "for":
            if st.get("init") is not None:
                run(st["init"], env)
            while st.get("c") is None or ev(st["c"], env):
                run(st.get("body"), env)
                if st.get("inc") is not None:
                    ev(st["inc"], env)
        elif k == "while":
            while ev(st["c"], env):
                run(st.get("body"), env)
        elif k == "do":
            while True:
                run(st.get("body"), env)
                if not ev(st["c"], env):
                    break
        elif k == "null":
            return
        else:
            raise NM("statement " + str(k))
    p0 = f["params"][0]
    env = {p0["n"]: arg & mask}
    if (p0.get("ty") or "").replace("const ", "").strip() in tps:
        widths[p0["n"]] = width
    try:
        run(f["body"], env)
    except _Ret as r:
        return r.v
    raise NM("no return")


def eval_expr(e, width, tparam="Int", env=None):
    """value of a closed expression over an unsigned type parameter `tparam` of `width` bits (NM when not understood)"""
    f = {"tparams": [{"k": "type", "n": tparam}], "params": [{"n": "__unused", "ty": tparam}], "body": {"k": "return", "e": e}}
    if env:
        # extra names are bound through leading declarations
        f["body"] = {"k": "seq", "s": [{"k": "decl", "vars": [{"n": n, "ty": tparam, "init": {"k": "int", "v": v}} for n, v in env.items()]},
                                       {"k": "return", "e": e}]}
    return evaluate(f, 0, width)


SPEC = {"popcount": lambda v, w: bin(v & ((1 << w) - 1)).count("1")}


def domain(width):
    m = (1 << width) - 1
    if width == 8:
        return range(256)
    vals = set([0, 1, m, m - 1, 1 << (width - 1), (1 << (width - 1)) - 1])
    for i in range(width):
        vals.add(1 << i)
        vals.add(m ^ (1 << i))
        for j in range(i + 1, width, max(1, width // 8)):
            vals.add((1 << i) | (1 << j))
            vals.add(m ^ ((1 << i) | (1 << j)))
    vals.add(0x5555555555555555 & m)
    vals.add(0xAAAAAAAAAAAAAAAA & m)
    vals.add(0x0F0F0F0F0F0F0F0F & m)
    vals.add(0x1234567890ABCDEF & m)
    return sorted(vals)


def check(chk, db, rule="INTFB"):
    n = 0
    for f in db.funcs:
        if f.get("body") is None or not f["n"].endswith("_fallback") or not f["file"].startswith("_bit/") or len(f["params"]) != 1:
            continue
        ident = f["n"][:-len("_fallback")]
        if ident not in SPEC:
            continue
        n += 1
        construct = astx.sig(f)
        chk.instance(rule)
        bad = unknown = None
        judged = 0
        for w in (8, 16, 32, 64):
            for v in domain(w):
                try:
                    got = evaluate(f, v, w)
                except NM as ex:
                    unknown = str(ex)
                    break
                judged += 1
                want = SPEC[ident](v, w)
                if got != want and bad is None:
                    bad = (w, v, got, want)
            if unknown:
                break
        if unknown:
            chk.obligation(rule, construct, None)
            chk.unknown_instance(rule, construct, "not evaluated: " + unknown)
            continue
        chk.obligation(rule, construct, bad is None, evaluations=judged)
        if bad:
            w, v, got, want = bad
            chk.violation(rule, construct, "fallback-differs", "%s: in constant evaluation %s(0x%x) of a %d-bit type is computed by this helper as "
                          "%s; it is exactly %s (the run-time path uses the builtin)" % (astx.loc(f), ident, v, w, got, want), {"where": astx.loc(f)})
    return n
