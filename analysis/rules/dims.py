"""Rule DIM (linalg): every multi-index access uses loop variables that range over an extent the preconditions equate with
the indexed dimension.

For `for (i = 0; i < X.extent(k); ++i)` the variable i ranges over (X, k). An access `M(..., i, ...)` at argument position j
is in bounds only if M.extent(j) == X.extent(k): either (M, j) is (X, k) itself or the function's preconditions
(`A.extent(i) == B.extent(j)`, `A.extents() == B.extents()`) put the two in one equivalence class (union-find).
A missing or mis-paired precondition (rows compared with the wrong vector) is reported at the access it leaves unprotected.
"""
from .. import astx


def _resolve(e, env):
    e = astx.strip_casts(e)
    seen = 0
    while e is not None and e.get("k") == "ref" and e.get("d") == "local" and e["n"] in env and seen < 5:
        e = astx.strip_casts(env[e["n"]])
        seen += 1
    return e


def _extent_of(e, env, params):
    """(object, dim) for `obj.extent(k)` with obj a parameter"""
    e = _resolve(e, env)
    if e is not None and e.get("k") == "call" and astx.callee(e)[0] == "extent" and astx.callee(e)[3] == "member" and len(e["a"]) == 1:
        o = astx.strip_casts(astx.callee(e)[2])
        k = astx.int_value(e["a"][0])
        if o is not None and o.get("k") == "ref" and o["n"] in params and k is not None:
            return (o["n"], k)
    return None


class UF:
    def __init__(self):
        self.p = {}

    def find(self, x):
        self.p.setdefault(x, x)
        while self.p[x] != x:
            self.p[x] = self.p[self.p[x]]
            x = self.p[x]
        return x

    def union(self, a, b):
        self.p[self.find(a)] = self.find(b)


def check(chk, db, prefixes, rule="DIM", floor=3):
    n = 0
    for f in db.funcs:
        if not any(f["file"].startswith(p) for p in prefixes) or f.get("body") is None or f.get("kind") != "function":
            continue
        params = [p["n"] for p in f["params"] if p.get("n")]
        env = {}
        for st in astx.walk_stmts(f["body"]):
            if st.get("k") == "decl":
                for v in st["vars"]:
                    if "other" not in v and v.get("init") is not None:
                        env[v["n"]] = v["init"]
        # loop variables
        ranges = {}
        for st in astx.walk_stmts(f["body"]):
            if st.get("k") == "for" and st.get("init") is not None and st["init"].get("k") == "decl" and len(st["init"]["vars"]) == 1 and st.get("c") is not None:
                v = st["init"]["vars"][0]["n"]
                c = astx.strip_casts(st["c"])
                bound = None
                if c.get("k") == "call" and astx.callee(c)[0] == "cmp_less" and len(c["a"]) == 2 and astx.strip_casts(c["a"][0]).get("n") == v:
                    bound = _extent_of(c["a"][1], env, params)
                elif c.get("k") == "bin" and c["op"] == "<" and astx.strip_casts(c["l"]).get("n") == v:
                    bound = _extent_of(c["r"], env, params)
                if bound:
                    ranges[v] = bound
        if not ranges:
            continue
        # equalities required by the preconditions (contract checks are `if (!(cond)) handler`)
        uf = UF()
        for st in astx.walk_stmts(f["body"]):
            if st.get("k") != "if" or "TETL_PRECONDITION" not in (st.get("m") or []):
                continue
            c = astx.strip_casts(st["c"])
            if c is not None and c.get("k") == "un" and c["op"] == "!":
                c = astx.strip_casts(c["e"])
            conj = [c]
            while any(x is not None and x.get("k") == "bin" and x["op"] == "&&" for x in conj):
                nxt = []
                for x in conj:
                    if x is not None and x.get("k") == "bin" and x["op"] == "&&":
                        nxt += [astx.strip_casts(x["l"]), astx.strip_casts(x["r"])]
                    else:
                        nxt.append(x)
                conj = nxt
            for x in conj:
                if x is None or x.get("k") != "bin" or x["op"] != "==":
                    continue
                a, b = _extent_of(x["l"], env, params), _extent_of(x["r"], env, params)
                if a and b:
                    uf.union(a, b)
                    continue
                la, lb = _resolve(x["l"], env), _resolve(x["r"], env)
                if la is not None and lb is not None and la.get("k") == "call" and lb.get("k") == "call" and \
                        astx.callee(la)[0] == "extents" and astx.callee(lb)[0] == "extents":
                    oa, ob = astx.strip_casts(astx.callee(la)[2]), astx.strip_casts(astx.callee(lb)[2])
                    if oa is not None and ob is not None and oa.get("k") == "ref" and ob.get("k") == "ref":
                        for k in range(4):
                            uf.union((oa["n"], k), (ob["n"], k))
        # accesses
        construct = astx.sig(f)
        n += 1
        chk.instance(rule)
        bad = None
        sites = 0
        for x in astx.all_exprs(f, into_lambdas=True):
            if x.get("k") != "call" or x["f"].get("k") != "ref" or x["f"].get("n") not in params or not x["a"]:
                continue
            m = x["f"]["n"]
            for j, a in enumerate(x["a"]):
                a0 = astx.strip_casts(a)
                if a0 is not None and a0.get("k") == "ref" and a0["n"] in ranges:
                    sites += 1
                    want = ranges[a0["n"]]
                    if uf.find((m, j)) != uf.find(want) and bad is None:
                        bad = (x, m, j, a0["n"], want)
        chk.obligation(rule, construct, bad is None, evaluations=max(1, sites))
        if bad:
            x, m, j, v, want = bad
            chk.violation(rule, construct, "dimension-not-equated", "%s: `%s` indexes dimension %d of `%s` with `%s`, which ranges over "
                          "%s.extent(%d); no precondition requires %s.extent(%d) == %s.extent(%d)" % (
                              astx.loc(f, x), astx.show(x, 30), j, m, v, want[0], want[1], m, j, want[0], want[1]), {"where": astx.loc(f)})
    if n < floor:
        chk.analysis_broken("%s: only %d index loops found in %s (floor %d)" % (rule, n, ", ".join(prefixes), floor))
    return n
