"""Rule family SIG: overloads and default arguments of a class agree with the std class it models.

Members are matched by name and parameter *roles* (string / C string / character / view-like / size / iterator / other);
for every matched overload each default argument must denote the same value. The std side is read from libstdc++'s own
declarations (parsed with the same extractor) on every run.
"""
import re

from .. import astx
from .. import db as D

_std = None


def std_db():
    global _std
    if _std is None:
        _std = D.load_source("#include <string>\n#include <string_view>\n#include <span>\n", root="include/c++/", tag="stddecl")
        if len(_std.records) < 300:
            raise D.AnalysisBroken("libstdc++ declarations could not be extracted (%d records)" % len(_std.records))
    return _std


def role(ty, cls_names):
    t = ty.replace("etl::", "").replace("std::", "")
    t = re.sub(r"\b(basic_inplace_string|basic_string|basic_string_view)::", "", t)
    if re.search(r"\bconst (_CharT|Char|CharT) ?\*|const_pointer", t):
        return "cstr"
    if re.search(r"(_CharT|Char|CharT) ?\*$|^pointer$", t.strip()):
        return "buf"
    if re.search(r"size_type", t):
        return "size"
    if any(re.search(r"\b%s\b" % c, t) for c in cls_names):
        return "str"
    if re.search(r"basic_string_view|string_view", t):
        return "view"
    if re.search(r"^(const )?(_Tp|StringView|T|SV) ?&$", t.strip()):
        return "viewlike"
    if re.search(r"^(const )?(_CharT|Char|CharT)$", t.strip()):
        return "char"
    if re.search(r"iterator", t):
        return "iter"
    if re.search(r"initializer_list", t):
        return "ilist"
    return "other:" + t.strip()


def norm_default(p):
    src = p.get("defsrc")
    if src is None:
        return None
    s = src.replace(" ", "")
    s = re.sub(r"^(size_type|std::size_t|size_t)[({](.*)[)}]$", r"\2", s)
    if s in ("npos", "basic_string::npos", "basic_string_view::npos", "size_type(-1)", "static_cast<size_type>(-1)"):
        return "npos"
    return s


def signature(m, cls_names):
    return tuple(role(p["ty"], cls_names) for p in m["params"])


def methods_of(db, rec_q):
    out = []
    for r in db.rec_by_q.get(rec_q, []):
        out += [m for m in r["methods"] if m.get("access", "public") == "public" and m["kind"] in ("method",)]
    return out


def check(chk, etl_db, etl_rec, std_rec, names=None, rule="SIG", min_matched=10):
    sd = std_db()
    em = methods_of(etl_db, etl_rec)
    sm = methods_of(sd, std_rec)
    if not em:
        chk.analysis_broken("SIG: class %s no longer exists" % etl_rec)
        return 0
    if not sm:
        chk.analysis_broken("SIG: %s not found in libstdc++'s declarations" % std_rec)
        return 0
    e_names = (etl_rec.split("::")[-1], "basic_inplace_string", "inplace_string")
    s_names = (std_rec.split("::")[-1], "basic_string")
    std_by = {}
    for m in sm:
        std_by.setdefault((m["n"], signature(m, s_names)), m)
    matched = 0
    for m in em:
        if names and m["n"] not in names:
            continue
        key = (m["n"], signature(m, e_names))
        s = std_by.get(key)
        if s is None:
            # view-like template parameter on either side
            alt = tuple("viewlike" if r in ("view",) else r for r in key[1])
            s = std_by.get((m["n"], alt))
        if s is None:
            continue
        matched += 1
        construct = "%s::%s(%s)" % (etl_rec, m["n"], ", ".join(p["ty"] for p in m["params"]))
        chk.instance(rule)
        diffs = []
        for i, (pe, ps) in enumerate(zip(m["params"], s["params"])):
            de, ds = norm_default(pe), norm_default(ps)
            if de != ds:
                diffs.append("parameter %d (%s): default %s, std %s" % (i, pe["n"] or key[1][i], de if de is not None else "none",
                                                                        ds if ds is not None else "none"))
        chk.obligation(rule, construct, not diffs, nontrivial=any("defsrc" in p for p in s["params"]))
        if diffs:
            chk.violation(rule, construct, "default-argument",
                          "include/etl/%s:%s: %s differs from %s::%s: %s" % (m["file"], m["line"], construct, std_rec, s["n"], "; ".join(diffs)),
                          {"std": [(p["ty"], p.get("defsrc")) for p in s["params"]]})
        else:
            chk.sample({"member": construct, "std": "%s::%s" % (std_rec, s["n"]),
                        "defaults": [norm_default(p) for p in m["params"]]})
    if matched < min_matched:
        chk.analysis_broken("SIG: only %d members of %s matched an overload of %s (floor %d)" % (matched, etl_rec, std_rec, min_matched))
    return matched
