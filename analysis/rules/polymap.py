"""Symbolic unrolling of a layout mapping's `operator()` that is written as a loop instead of a fold.

For a fixed rank R (1..4) the loop has a concrete trip count; its body is executed over polynomials in the symbols i0..i(R-1)
(the indices) and e0..e(R-1) (the extents). The returned polynomial must be identical to the closed form of the layout
([mdspan.layout.left] / [mdspan.layout.right]): sum_k i_k * prod_{m<k} e_m  resp.  sum_k i_k * prod_{m>k} e_m.
Anything outside the small statement/expression subset raises NotModelled (the caller reports UNKNOWN).
"""
from .. import astx


class NotModelled(Exception):
    pass


class Poly:
    def __init__(self, terms=None):
        self.t = dict((k, v) for k, v in (terms or {}).items() if v)

    @staticmethod
    def const(c):
        return Poly({(): c})

    @staticmethod
    def sym(n):
        return Poly({(n,): 1})

    def __add__(self, o):
        t = dict(self.t)
        for k, v in o.t.items():
            t[k] = t.get(k, 0) + v
        return Poly(t)

    def __sub__(self, o):
        t = dict(self.t)
        for k, v in o.t.items():
            t[k] = t.get(k, 0) - v
        return Poly(t)

    def __mul__(self, o):
        t = {}
        for k1, v1 in self.t.items():
            for k2, v2 in o.t.items():
                k = tuple(sorted(k1 + k2))
                t[k] = t.get(k, 0) + v1 * v2
        return Poly(t)

    def __eq__(self, o):
        return self.t == o.t

    def is_int(self):
        return all(k == () for k in self.t)

    def int(self):
        if not self.is_int():
            raise NotModelled("a symbolic value where an integer is needed")
        return self.t.get((), 0)

    def __repr__(self):
        if not self.t:
            return "0"
        out = []
        for k in sorted(self.t, key=lambda x: (len(x), x)):
            c = self.t[k]
            mon = "*".join(k)
            out.append(("%d" % c if not mon else (("" if c == 1 else "%d*" % c) + mon)))
        return " + ".join(out)


def closed_form(layout, R):
    p = Poly()
    for k in range(R):
        term = Poly.sym("i%d" % k)
        rng = range(0, k) if layout == "left" else range(k + 1, R)
        for m in rng:
            term = term * Poly.sym("e%d" % m)
        p = p + term
    return p


def stride_form(layout, R, r):
    term = Poly.const(1)
    rng = range(0, r) if layout == "left" else range(r + 1, R)
    for m in rng:
        term = term * Poly.sym("e%d" % m)
    return term


class _Return(Exception):
    def __init__(self, v):
        self.v = v


def evaluate(f, layout, R, max_steps=200):
    env = {}
    arrays = {}
    steps = [0]

    def ev(e):
        e = astx.strip_casts(e)
        while e is not None and (e.get("k") == "paren" or (e.get("k") in ("construct", "initlist") and len(e.get("a", [])) == 1
                                                             and (e["a"][0] is None or e["a"][0].get("k") != "pack"))):
            e = astx.strip_casts(e.get("e") if e.get("k") == "paren" else e["a"][0])
        if e is None:
            raise NotModelled("empty expression")
        k = e.get("k")
        iv = astx.int_value(e)
        if iv is not None:
            return Poly.const(iv)
        if k in ("construct", "initlist") and not e.get("a"):
            return Poly.const(0)
        if k == "sizeofpack":
            return Poly.const(R)
        if k == "ref":
            if e["n"] in env:
                return env[e["n"]]
            raise NotModelled("name `%s`" % e["n"])
        if k == "idx":
            b = astx.strip_casts(e["b"])
            i = ev(e["i"]).int()
            if b is not None and b.get("k") == "ref" and b["n"] in arrays:
                if not 0 <= i < len(arrays[b["n"]]):
                    raise NotModelled("index %d outside the index array" % i)
                return arrays[b["n"]][i]
            raise NotModelled("subscript of `%s`" % astx.show(b, 20))
        if k == "bin" and e["op"] in ("+", "-", "*"):
            a, b = ev(e["l"]), ev(e["r"])
            return a + b if e["op"] == "+" else (a - b if e["op"] == "-" else a * b)
        if k == "bin" and e["op"] in ("=", "+=", "-=", "*="):
            t = astx.strip_casts(e["l"])
            if t is None or t.get("k") != "ref":
                raise NotModelled("assignment target")
            v = ev(e["r"])
            if e["op"] != "=":
                cur = ev(e["l"])
                v = cur + v if e["op"] == "+=" else (cur - v if e["op"] == "-=" else cur * v)
            env[t["n"]] = v
            return v
        if k == "bin" and e["op"] == ",":
            ev(e["l"])
            return ev(e["r"])
        if k == "un" and e["op"] in ("++", "--"):
            t = astx.strip_casts(e["e"])
            if t is None or t.get("k") != "ref":
                raise NotModelled("step target")
            old = ev(e["e"])
            env[t["n"]] = old + Poly.const(1 if e["op"] == "++" else -1)
            return old if e.get("postfix") else env[t["n"]]
        if k == "call":
            nm = astx.callee(e)[0]
            if nm == "rank" and not e["a"]:
                return Poly.const(R)
            if nm in ("extent", "static_extent") and len(e["a"]) == 1:
                r = ev(e["a"][0]).int()
                if not 0 <= r < R:
                    raise NotModelled("extent(%d) of a rank-%d mapping" % (r, R))
                return Poly.sym("e%d" % r)
            if nm == "stride" and len(e["a"]) == 1:
                r = ev(e["a"][0]).int()
                if not 0 <= r < R:
                    raise NotModelled("stride(%d) of a rank-%d mapping" % (r, R))
                return stride_form(layout, R, r)
        raise NotModelled(astx.show(e, 40))

    def truth(c):
        c = astx.strip_casts(c)
        while c is not None and c.get("k") == "paren":
            c = astx.strip_casts(c.get("e"))
        if c is None:
            raise NotModelled("empty condition")
        if c.get("k") == "bin" and c["op"] in ("<", "<=", ">", ">=", "==", "!="):
            a, b = ev(c["l"]).int(), ev(c["r"]).int()
            return {"<": a < b, "<=": a <= b, ">": a > b, ">=": a >= b, "==": a == b, "!=": a != b}[c["op"]]
        if c.get("k") == "bin" and c["op"] in ("&&", "||"):
            a = truth(c["l"])
            return (a and truth(c["r"])) if c["op"] == "&&" else (a or truth(c["r"]))
        raise NotModelled("condition " + astx.show(c, 30))

    def run(st):
        steps[0] += 1
        if steps[0] > max_steps:
            raise NotModelled("too many steps")
        if st is None:
            return
        k = st.get("k")
        if k == "seq":
            for c in st["s"]:
                run(c)
        elif k == "decl":
            for v in st["vars"]:
                if "other" in v:
                    continue
                init = v.get("init")
                i0 = astx.strip_casts(init) if init is not None else None
                args = None
                if i0 is not None and i0.get("k") in ("construct", "initlist"):
                    args = i0.get("a", [])
                    if len(args) == 1 and args[0] is not None and args[0].get("k") == "initlist":
                        args = args[0]["a"]
                if args and any(a is not None and a.get("k") == "pack" for a in args):
                    arrays[v["n"]] = [Poly.sym("i%d" % k2) for k2 in range(R)]       # {static_cast<index_type>(indices)...}
                    continue
                if init is None:
                    env[v["n"]] = Poly.const(0)
                else:
                    env[v["n"]] = ev(init)
        elif k == "expr":
            ev(st["e"])
        elif k == "return":
            raise _Return(ev(st["e"]))
        elif k == "for":
            if st.get("init") is not None:
                run(st["init"]) if st["init"].get("k") in ("decl", "expr", "seq") else None
            n = 0
            while st.get("c") is None or truth(st["c"]):
                n += 1
                if n > 16:
                    raise NotModelled("loop does not terminate within 16 iterations")
                run(st.get("body"))
                if st.get("inc") is not None:
                    ev(st["inc"])
        elif k == "while":
            n = 0
            while truth(st["c"]):
                n += 1
                if n > 16:
                    raise NotModelled("loop does not terminate within 16 iterations")
                run(st.get("body"))
        elif k == "if":
            if st.get("constexpr"):
                try:
                    c = truth(st["c"])
                except NotModelled:
                    raise
                run(st.get("then") if c else st.get("else"))
            else:
                run(st.get("then") if truth(st["c"]) else st.get("else"))
        elif k == "null":
            return
        else:
            raise NotModelled("statement " + str(k))
    try:
        run(f["body"])
    except _Return as r:
        return r.v
    raise NotModelled("no return reached")
