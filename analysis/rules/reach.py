"""Call-graph reachability over the extracted template patterns (who-may-call rules).

Edges are resolved through the extractor's information: resolved callee (`q`), overload candidates (`cands`), dependent
member calls on the enclosing record (`dep` with a receiver that is `this` or of the record's own type), dependent calls
qualified with the traits parameter (`traits_type::x` / `Traits::x` -> etl::detail::char_traits_base::x) and constructions
of a record (constructor overloads of that arity).
"""
from .. import astx
from . import slots as SL

TRAITS_QUALS = ("traits_type::", "Traits::")
TRAITS_RECORD = "etl::detail::char_traits_base"


def _kinds_env(f):
    env = dict((p["n"], SL.kind_of(p["ty"])) for p in f["params"] if p.get("n") and not p.get("pack"))
    for st in astx.walk_stmts(f.get("body")):
        if st.get("k") == "decl":
            for v in st["vars"]:
                if "other" in v:
                    continue
                ty = v.get("ty") or ""
                k = SL.kind_of(ty) if ty and "auto" not in ty else None
                if (k is None or k == "c") and v.get("init") is not None:
                    k = _arg_kind(v["init"], env, f) or k
                env[v["n"]] = k
    return env


def _arg_kind(e, env, f):
    e0 = astx.strip_casts(e)
    if e0 is None:
        return None
    if e0.get("k") == "un" and e0.get("op") == "*" and astx.strip_casts(e0["e"]) is not None and astx.strip_casts(e0["e"]).get("k") == "this":
        return "s"
    if e0.get("k") == "this":
        return "p"
    if e0.get("k") in ("construct", "cast") and any(t in (e0.get("ty") or "") for t in ("string_view", "inplace_string", "StringView")):
        return "s"
    if e0.get("k") == "initlist":
        return "s"          # braced (pointer, count) / (first, last): a view or string temporary
    if e0.get("k") == "call" and astx.callee(e0)[0] in ("substr",):
        return "s"
    if e0.get("k") == "call" and astx.callee(e0)[0] in ("length", "strlen"):
        return "n"
    return SL.arg_kind(e, env, f)


def _fits(call_args, kenv, f):
    aks = [_arg_kind(a, kenv, f) for a in call_args]

    def pred(g):
        ps = g["params"]
        if any(p.get("pack") for p in ps):
            return True
        if len(ps) < len(aks) or len([p for p in ps if "def" not in p]) > len(aks):
            return False
        for ak, p in zip(aks, ps):
            gk = SL.kind_of(p["ty"])
            if ak is None or ak == gk:
                continue
            if ak == "p" and gk == "it":
                continue
            if ak in ("c", "n") and gk in ("c", "n"):
                continue        # characters and counts are both scalars: not told apart
            return False
        return True
    return pred


def edges_of(db, f):
    """[(callee qualified name, call node, overload predicate)]"""
    out = []
    rec = f.get("record")
    kenv = _kinds_env(f)
    for x in astx.all_exprs(f, into_lambdas=True):
        k = x.get("k")
        if k == "call":
            fn = x["f"]
            qual = fn.get("qual") or ""
            n = fn.get("n")
            if qual in TRAITS_QUALS and n:
                out.append((TRAITS_RECORD + "::" + n, x, lambda g: True))
                continue
            pred = _fits(x["a"], kenv, f)
            if fn.get("q"):
                qq = fn["q"]
                if not db.by_q.get(qq) and fn.get("k") == "mem" and astx.is_this(fn.get("b")) and rec and db.by_q.get(rec + "::" + n):
                    qq = rec + "::" + n       # canonical `type-parameter-i-j` spelling of a partial specialisation's member
                out.append((qq, x, lambda g: True))
                continue
            for c in sorted(set(fn.get("cands") or [])):
                out.append((c, x, pred))
            if fn.get("k") == "mem" and fn.get("dep") and n and rec:
                b = astx.strip_casts(fn.get("b"))
                own = astx.is_this(b)
                if not own and b is not None and b.get("k") == "ref":
                    ty = b.get("ty") or ""
                    own = rec.split("::")[-1].split("<")[0] in ty
                if own:
                    for rq in db.lineage(rec):
                        if db.by_q.get(rq + "::" + n):
                            out.append((rq + "::" + n, x, pred))
        elif k in ("construct",) and x.get("ty"):
            ty = x["ty"]
            args = x.get("a", [])
            if len(args) == 1 and args[0] is not None and args[0].get("k") == "initlist":
                args = args[0]["a"]
            for rq in db.rec_by_q:
                base = rq.split("::")[-1]
                if "<" in base:
                    continue
                if base and (ty == base or ty.startswith(base + "<") or ty.endswith("::" + base) or ("::" + base + "<") in ty):
                    pc = _fits(args, kenv, f)
                    for c in db.by_q.get(rq + "::<ctor>", []):
                        if len(c["params"]) == len(args) and pc(c):
                            out.append((rq + "::<ctor>#%d" % len(args), x, pc))
                            break
    return out


def reach(db, start, is_sink, stop=lambda q: False, max_depth=8):
    """BFS from function `start`; returns list of paths [(qualified name, ...)] that end in a sink (shortest per sink)."""
    found = {}
    seen = set()
    frontier = [(start, (astx.sig(start),))]
    depth = 0
    while frontier and depth < max_depth:
        nxt = []
        for f, path in frontier:
            for q, node, pred in edges_of(db, f):
                arity = None
                q0 = q
                if "#" in q:
                    q0, ar = q.split("#")
                    arity = int(ar)
                if is_sink(q0):
                    found.setdefault(q0, path + (q0,))
                    continue
                if stop(q0):
                    continue
                for g in db.by_q.get(q0, []):
                    if arity is not None and len(g["params"]) != arity:
                        continue
                    try:
                        if not pred(g):
                            continue
                    except Exception:
                        pass
                    if g.get("body") is None and not g.get("inits"):
                        continue
                    key = id(g)
                    if key in seen:
                        continue
                    seen.add(key)
                    nxt.append((g, path + (astx.sig(g),)))
        frontier = nxt
        depth += 1
    return list(found.values())
