"""Call-graph reachability over the extracted template patterns (who-may-call rules).

Edges are resolved through the extractor's information: resolved callee (`q`), overload candidates (`cands`), dependent
member calls on the enclosing record (`dep` with a receiver that is `this` or of the record's own type), dependent calls
qualified with the traits parameter (`traits_type::x` / `Traits::x` -> etl::detail::char_traits_base::x) and constructions
of a record (constructor overloads of that arity).
"""
from .. import astx

TRAITS_QUALS = ("traits_type::", "Traits::")
TRAITS_RECORD = "etl::detail::char_traits_base"


def edges_of(db, f):
    """[(callee qualified name, call node)]"""
    out = []
    rec = f.get("record")
    for x in astx.all_exprs(f, into_lambdas=True):
        k = x.get("k")
        if k == "call":
            fn = x["f"]
            qual = fn.get("qual") or ""
            n = fn.get("n")
            if qual in TRAITS_QUALS and n:
                out.append((TRAITS_RECORD + "::" + n, x))
                continue
            if fn.get("q"):
                out.append((fn["q"], x))
                continue
            for c in sorted(set(fn.get("cands") or [])):
                out.append((c, x))
            if fn.get("k") == "mem" and fn.get("dep") and n and rec:
                b = astx.strip_casts(fn.get("b"))
                own = astx.is_this(b)
                if not own and b is not None and b.get("k") == "ref":
                    ty = b.get("ty") or ""
                    own = rec.split("::")[-1].split("<")[0] in ty
                if own:
                    for rq in db.lineage(rec):
                        if db.by_q.get(rq + "::" + n):
                            out.append((rq + "::" + n, x))
        elif k in ("construct",) and x.get("ty"):
            ty = x["ty"]
            args = x.get("a", [])
            if len(args) == 1 and args[0] is not None and args[0].get("k") == "initlist":
                args = args[0]["a"]
            for rq in db.rec_by_q:
                base = rq.split("::")[-1]
                if "<" in base:
                    continue
                if base and (ty == base or ty.startswith(base + "<") or ty.endswith("::" + base) or ("::" + base + "<") in ty):
                    for c in db.by_q.get(rq + "::<ctor>", []):
                        if len(c["params"]) == len(args):
                            out.append((rq + "::<ctor>#%d" % len(args), x))
                            break
    return out


def reach(db, start, is_sink, stop=lambda q: False, max_depth=8):
    """BFS from function `start`; returns list of paths [(qualified name, ...)] that end in a sink (shortest per sink)."""
    found = {}
    seen = set()
    frontier = [(start, (astx.sig(start),))]
    depth = 0
    while frontier and depth < max_depth:
        nxt = []
        for f, path in frontier:
            for q, node in edges_of(db, f):
                arity = None
                q0 = q
                if "#" in q:
                    q0, ar = q.split("#")
                    arity = int(ar)
                if is_sink(q0):
                    found.setdefault(q0, path + (q0,))
                    continue
                if stop(q0):
                    continue
                for g in db.by_q.get(q0, []):
                    if arity is not None and len(g["params"]) != arity:
                        continue
                    if g.get("body") is None and not g.get("inits"):
                        continue
                    key = id(g)
                    if key in seen:
                        continue
                    seen.add(key)
                    nxt.append((g, path + (astx.sig(g),)))
        frontier = nxt
        depth += 1
    return list(found.values())
