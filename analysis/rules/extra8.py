"""Rules added after the tenth round of seeded changes.

SWAPSYM    member swap(other): the two arms of `if (C) A else B` are mirror images under this <-> other
GAPSHIFT   an insertion that appends `move(back())` and then opens the gap with move_backward / copy_backward shifts
           [pos, oldEnd - 1) to end at oldEnd (the moved-from last element is not shifted again)
DISTGUARD  a search loop guarded by `last - first >= X` that reads n = sLast - sFirst elements from `first` without comparing
           its cursor with `last` needs X >= n
PATIDX     extents::_dynamic_index evaluated for every static/dynamic pattern of rank <= 4: the slot of a dynamic extent is the
           number of dynamic extents in front of it
"""
import itertools
import re

from .. import astx
from . import sets as SP
from .iters import ref_name, _L, range_pairs


# ---- SWAPSYM ----------------------------------------------------------------------------------------------------------------
def _norm_role(e, other):
    """expression text with the receiver made explicit: THIS / OTHER"""
    if e is None:
        return ""
    if not isinstance(e, dict):
        return str(e)
    k = e.get("k")
    if k == "ref":
        if e.get("n") == other:
            return "OTHER"
        return (e.get("qual") or "") + e["n"]
    if k == "this":
        return "THIS"
    if k == "un" and e.get("op") == "*" and astx.is_this(astx.strip_casts(e["e"])):
        return "THIS"
    if k == "mem":
        b = e.get("b")
        if b is None or astx.is_this(b):
            return "THIS." + e["n"]
        return _norm_role(b, other) + "." + e["n"]
    if k == "call":
        return _norm_role(e["f"], other) + "(" + ", ".join(_norm_role(a, other) for a in e["a"]) + ")"
    if k == "bin":
        return "(" + _norm_role(e["l"], other) + " " + e["op"] + " " + _norm_role(e["r"], other) + ")"
    if k == "un":
        return e["op"] + _norm_role(e["e"], other)
    if k == "cast":
        return _norm_role(e["e"], other)
    if k in ("construct", "initlist", "parenlist"):
        return (e.get("ty") or "") + "{" + ", ".join(_norm_role(a, other) for a in e["a"] if a is not None) + "}"
    if k == "idx":
        return _norm_role(e["b"], other) + "[" + _norm_role(e["i"], other) + "]"
    if k == "cond":
        return "(" + _norm_role(e["c"], other) + " ? " + _norm_role(e["t"], other) + " : " + _norm_role(e["f"], other) + ")"
    return astx.show(e, 80)


def _mirror(s):
    return s.replace("THIS", "\0").replace("OTHER", "THIS").replace("\0", "OTHER")


def _stmts_text(st, other):
    """list of normalised statement texts of a branch (expression statements only); None when it has other statements"""
    if st is None:
        return []
    body = st["s"] if st.get("k") == "seq" else [st]
    out = []
    for s in body:
        if s is None or s.get("k") == "null":
            continue
        if s.get("k") != "expr":
            return None
        out.append(_norm_role(s["e"], other))
    return out


def check_swap_symmetry(f):
    """returns None (no two-armed branch of expression statements) | ('ok', n) | ('bad', (i, a, b))"""
    if f.get("body") is None or f["n"] != "swap" or len(f["params"]) != 1 or f.get("kind") not in ("method", None):
        return None
    other = f["params"][0]["n"]
    for st in astx.walk_stmts(f["body"]):
        if st.get("k") != "if" or st.get("else") is None or st.get("constexpr"):
            continue
        a, b = _stmts_text(st.get("then"), other), _stmts_text(st.get("else"), other)
        if a is None or b is None or not a or len(a) != len(b):
            continue
        if not any("OTHER" in x for x in a + b):
            continue
        for i, (x, y) in enumerate(zip(a, b)):
            if _mirror(x) != y:
                # only near-mirrors are subjects: every statement pair calls the same member on exchanged receivers
                head = lambda t: re.match(r"^((?:THIS|OTHER)(?:\.[A-Za-z_]\w*)+)\(", t)      # noqa: E731
                if all(head(_mirror(p)) and head(q) and head(_mirror(p)).group(1) == head(q).group(1) and
                       _mirror(p).count(",") == q.count(",") for p, q in zip(a, b)):
                    return ("bad", (st, i, x, y))
                return None
        return ("ok", len(a))
    return None


def swap_symmetry_area(chk, db, prefixes, rule="SWAPSYM"):
    n = 0
    for f in db.funcs:
        if f.get("body") is None or not any(f["file"].startswith(p) for p in prefixes):
            continue
        r = check_swap_symmetry(f)
        if r is None:
            continue
        n += 1
        construct = astx.sig(f)
        chk.instance(rule)
        chk.obligation(rule, construct, r[0] == "ok")
        if r[0] == "bad":
            st, i, x, y = r[1]
            chk.violation(rule, construct, "arms-not-mirrored",
                          "%s: swap treats its two operands alike, so the branch for `*this` longer / shorter must be the other branch "
                          "with the operands exchanged; statement %d is `%s` in one arm and `%s` in the other (mirror of the first: `%s`)"
                          % (astx.loc(f, st), i + 1, x.replace("THIS.", "").replace("OTHER", "other"),
                             y.replace("THIS.", "").replace("OTHER", "other"), _mirror(x).replace("THIS.", "").replace("OTHER", "other")),
                          {"where": astx.loc(f)})
    return n


# ---- GAPSHIFT ---------------------------------------------------------------------------------------------------------------
def _lin_pos(e, pp, inits, appended, depth=0):
    """linear form over <begin>, <end0> (end() on entry) and the position parameter; end() after k appends is <end0> + k"""
    e = astx.strip_casts(e)
    while e is not None and e.get("k") in ("construct", "initlist") and len(e.get("a", [])) == 1:
        e = astx.strip_casts(e["a"][0])
    if e is None or depth > 8:
        return None
    iv = astx.int_value(e)
    if iv is not None:
        return _L(c=iv)
    k = e.get("k")
    if k == "ref":
        if e["n"] == pp:
            return _L({pp: 1})
        if e.get("d") == "local" and e["n"] in inits:
            ini, app_at_decl = inits[e["n"]]
            return _lin_pos(ini, pp, inits, app_at_decl, depth + 1)
        return None
    if k == "bin" and e["op"] in ("+", "-"):
        a, b = _lin_pos(e["l"], pp, inits, appended, depth + 1), _lin_pos(e["r"], pp, inits, appended, depth + 1)
        if a is None or b is None:
            return None
        return a + b if e["op"] == "+" else a - b
    if k == "call":
        nm, q, recv, kind = astx.callee(e)
        own = recv is None or astx.is_this(astx.strip_casts(recv))
        if nm in ("begin", "cbegin", "data") and not e["a"] and own:
            return _L({"<begin>": 1})
        if nm in ("end", "cend") and not e["a"] and own:
            return _L({"<end0>": 1}, c=appended)
        if nm in ("next", "prev") and len(e["a"]) in (1, 2):
            a = _lin_pos(e["a"][0], pp, inits, appended, depth + 1)
            b = _lin_pos(e["a"][1], pp, inits, appended, depth + 1) if len(e["a"]) == 2 else _L(c=1)
            if a is None or b is None:
                return None
            return a + b if nm == "next" else a - b
        if nm in ("move", "forward", "to_address", "const_cast") and len(e["a"]) == 1:
            return _lin_pos(e["a"][0], pp, inits, appended, depth + 1)
    return None


def check_gap_shift(f):
    """returns None | list of (call, verdict True/False/None, message)"""
    if f.get("body") is None:
        return None
    pos_params = [p["n"] for p in f["params"] if p.get("n") and re.search(r"iterator|pointer|\*", p["ty"]) and
                  re.match(r"^(pos|position|p|where|it)$", p["n"])]
    if len(pos_params) != 1:
        return None
    pp = pos_params[0]
    shifts = [x for x in astx.all_exprs(f, into_lambdas=False) if x.get("k") == "call" and
              astx.callee(x)[0] in ("move_backward", "copy_backward") and len(x["a"]) == 3]
    if not shifts:
        return None
    ids = set(id(x) for x in shifts)
    out = {}
    for p in SP.paths(f["body"]):
        appended = 0
        from_back = False
        inits = {}
        for ev in p:
            exprs = []
            if ev[0] in ("expr", "ret", "cond") and len(ev) > 1 and ev[1] is not None:
                exprs.append(ev[1])
            if ev[0] == "decl" and ev[1].get("init") is not None:
                exprs.append(ev[1]["init"])
                inits[ev[1]["n"]] = (ev[1]["init"], appended)
            for e in exprs:
                for x in astx.walk_expr(e):
                    if x.get("k") != "call":
                        continue
                    nm, q, recv, kind = astx.callee(x)
                    own = recv is None or astx.is_this(astx.strip_casts(recv))
                    if nm in ("emplace_back", "push_back", "unchecked_emplace_back", "unchecked_push_back") and own:
                        appended += 1
                        src = astx.show(x, 80)
                        if re.search(r"\bback\(\)", src):
                            from_back = True
                    if id(x) in ids and id(x) not in out:
                        a = _lin_pos(x["a"][0], pp, inits, appended)
                        b = _lin_pos(x["a"][1], pp, inits, appended)
                        c = _lin_pos(x["a"][2], pp, inits, appended)
                        if a is None or b is None or c is None or appended == 0:
                            out[id(x)] = (x, None, "the shift's arguments are not linear forms of the position and end()")
                            continue
                        E0 = _L({"<end0>": 1})
                        if from_back and appended == 1:
                            ok = (a == _L({pp: 1})) and (b == E0 - _L(c=1)) and (c == E0)
                            want = "(%s, end() - 2, end() - 1)" % pp
                        else:
                            ok = (a == _L({pp: 1})) and (b == E0) and (c == E0 + _L(c=appended))
                            want = "(%s, end() - %d, end())" % (pp, appended)
                        out[id(x)] = (x, ok, "" if ok else "after %d appended element(s)%s the gap at `%s` is opened by shifting %s; `%s` "
                                      "%s" % (appended, " built from move(back())" if from_back else "", pp, want, astx.show(x, 70),
                                              "moves the already moved-from last element into the new last slot" if from_back else
                                              "shifts a different range"))
    return list(out.values())


def gap_shift_area(chk, db, prefixes, rule="GAPSHIFT"):
    n = 0
    for f in db.funcs:
        if f.get("body") is None or not any(f["file"].startswith(p) for p in prefixes):
            continue
        r = check_gap_shift(f)
        if not r:
            continue
        for x, ok, msg in r:
            n += 1
            label = "%s :: `%s`" % (astx.sig(f), astx.show(x, 60))
            chk.instance(rule)
            chk.obligation(rule, label, ok)
            if ok is False:
                chk.violation(rule, label, "wrong-range-shifted", "%s: %s" % (astx.loc(f, x), msg), {"where": astx.loc(f)})
            elif ok is None:
                chk.unknown_instance(rule, label, msg)
    return n


# ---- DISTGUARD --------------------------------------------------------------------------------------------------------------
def check_dist_guard(f):
    """returns None | list of (loop, verdict, message)"""
    if f.get("body") is None:
        return None
    pairs = range_pairs(f)
    if len(pairs) < 2:
        return None
    inits = {}
    for st in astx.walk_stmts(f["body"]):
        if st.get("k") == "decl":
            for v in st["vars"]:
                if "other" not in v and v.get("init") is not None and "const" in (v.get("ty") or "const"):
                    inits[v["n"]] = v["init"]

    def lin(e, depth=0):
        """linear form over <D:first> = end(first) - first and <N:s> = end(s) - s"""
        e = astx.strip_casts(e)
        while e is not None and e.get("k") in ("construct", "initlist") and len(e.get("a", [])) == 1:
            e = astx.strip_casts(e["a"][0])
        if e is None or depth > 6:
            return None
        iv = astx.int_value(e)
        if iv is not None:
            return _L(c=iv)
        if e.get("k") == "ref" and e.get("d") == "local" and e["n"] in inits:
            return lin(inits[e["n"]], depth + 1)
        if e.get("k") == "bin" and e["op"] == "-":
            l, r = ref_name(e["l"]), ref_name(e["r"])
            if r in pairs and pairs[r] == l:
                return _L({"<D:%s>" % r: 1})
        if e.get("k") == "call" and astx.callee(e)[0] == "distance" and len(e["a"]) == 2:
            l, r = ref_name(e["a"][0]), ref_name(e["a"][1])
            if l in pairs and pairs[l] == r:
                return _L({"<D:%s>" % l: 1})
        if e.get("k") == "bin" and e["op"] in ("+", "-"):
            a, b = lin(e["l"], depth + 1), lin(e["r"], depth + 1)
            if a is None or b is None:
                return None
            return a + b if e["op"] == "+" else a - b
        return None
    out = []
    for lp in [st for st in astx.walk_stmts(f["body"]) if st.get("k") in ("for", "while") and st.get("c") is not None]:
        c = astx.strip_casts(lp["c"])
        if c is None or c.get("k") != "bin" or c["op"] not in (">=", ">", "<=", "<"):
            continue
        l, r = lin(c["l"]), lin(c["r"])
        if l is None or r is None:
            continue
        op = c["op"]
        if op in ("<=", "<"):
            l, r, op = r, l, {"<=": ">=", "<": ">"}[op]
        dsyms = [s0 for s0 in l.d if s0.startswith("<D:")]
        if len(dsyms) != 1 or l != _L({dsyms[0]: 1}):
            continue
        hay = dsyms[0][3:-1]
        bound = r + _L(c=1) if op == ">" else r          # the loop runs while D >= bound
        # an inner lockstep loop over the second range that dereferences a copy of the haystack cursor without an end test
        needle = None
        for inner in [st for st in astx.walk_stmts(lp.get("body")) if st.get("k") in ("for", "while") and st.get("c") is not None]:
            ctext = astx.show(inner["c"], 200)
            for s0, e0 in pairs.items():
                if s0 != hay and re.search(r"\b%s\b" % re.escape(e0), ctext) and not re.search(r"\b%s\b" % re.escape(pairs[hay]), ctext):
                    derefs = [x for x in astx.walk_stmt_exprs(inner, into_lambdas=False) if x.get("k") == "un" and x["op"] == "*"]
                    if derefs:
                        needle = s0
        if needle is None:
            continue
        need = _L({"<D:%s>" % needle: 1})
        diff = bound - need
        verdict = None
        if not diff.d:
            verdict = diff.c >= 0
        out.append((lp, verdict, "" if verdict else "the loop runs while `%s`, i.e. while at least %s elements are left, and then reads as many "
                    "elements as the second range holds without comparing its cursor with `%s`: the last candidate position reads one "
                    "element behind the range" % (astx.show(lp["c"], 50), "n - 1" if verdict is False else "?", pairs[hay])))
    return out or None


def dist_guard_area(chk, db, prefixes, rule="DISTGUARD"):
    n = 0
    for f in db.funcs:
        if f.get("body") is None or not any(f["file"].startswith(p) for p in prefixes):
            continue
        r = check_dist_guard(f)
        if not r:
            continue
        for lp, ok, msg in r:
            n += 1
            label = "%s :: loop at line %s" % (astx.sig(f), lp.get("line"))
            chk.instance(rule)
            chk.obligation(rule, label, ok)
            if ok is False:
                chk.violation(rule, label, "distance-guard-too-weak", "%s: %s" % (astx.loc(f, lp), msg), {"where": astx.loc(f)})
            elif ok is None:
                chk.unknown_instance(rule, label, "the guard is not a linear form of the two range lengths")
    return n


# ---- PATIDX -----------------------------------------------------------------------------------------------------------------
DYN = (1 << 64) - 1


class _NM(Exception):
    pass


class _Ret(Exception):
    def __init__(self, v):
        Exception.__init__(self, "return")
        self.v = v


def eval_pattern_function(f, pattern, arg, statics=None, max_steps=2000):
    """Evaluate a static member of etl::extents<I, Extents...> that depends only on the pattern (tuple of extents, DYN for
    dynamic ones) and one rank argument. Supports: fold expressions over the packs of an immediately invoked lambda
    (Idxs = 0..R-1, Extents = pattern), ?:, comparisons, arithmetic, casts; immediately invoked parameterless lambdas with local
    arrays, for loops and assignments; `_static_extents[r]`, `sizeof...(Extents)`, rank(), dynamic_extent."""
    R = len(pattern)
    steps = [0]
    statics = statics or {}

    def ev(e, env, packs):
        steps[0] += 1
        if steps[0] > max_steps:
            raise _NM("step limit")
        e = astx.strip_casts(e)
        while e is not None and e.get("k") in ("construct", "initlist") and len(e.get("a", [])) == 1 and \
                not (e.get("ty") or "").startswith("array") and "array<" not in (e.get("ty") or ""):
            e = astx.strip_casts(e["a"][0])
        if e is None:
            raise _NM("empty")
        k = e.get("k")
        iv = astx.int_value(e) if k in ("int", "bool") else None
        if iv is not None:
            return iv
        if k in ("construct", "initlist"):
            ty = e.get("ty") or ""
            if "array<" in ty or ty.startswith("array"):
                return {}            # value-initialised array: a map index -> value, 0 by default
            if not e.get("a"):
                return 0
            if len(e["a"]) == 1:
                return ev(e["a"][0], env, packs)
            raise _NM("construction " + ty)
        if k == "ref":
            n = e["n"]
            if n in env:
                return env[n]
            if n in packs:
                return packs[n]
            if n == "dynamic_extent":
                return DYN
            if n == "_rank":
                return R
            if n == "_static_extents":
                return dict(enumerate(pattern))
            if n in statics and statics[n] is not None:
                return ev(statics[n], {}, {})
            raise _NM("name `%s`" % n)
        if k == "mem" and e.get("n") == "_static_extents":
            return dict(enumerate(pattern))
        if k == "sizeofpack":
            return R
        if k == "idx":
            b = ev(e["b"], env, packs)
            i = ev(e["i"], env, packs)
            if isinstance(b, dict):
                return b.get(i, 0)
            raise _NM("subscript of a non-array")
        if k == "un" and e["op"] == "!":
            return 0 if ev(e["e"], env, packs) else 1
        if k == "un" and e["op"] in ("++", "--"):
            t = astx.strip_casts(e["e"])
            if t is None or t.get("k") != "ref" or t["n"] not in env:
                raise _NM("step of a non-local")
            old = env[t["n"]]
            env[t["n"]] = old + (1 if e["op"] == "++" else -1)
            return old if e.get("postfix") else env[t["n"]]
        if k == "bin":
            op = e["op"]
            if op in ("=", "+=", "-="):
                v = ev(e["r"], env, packs)
                t = astx.strip_casts(e["l"])
                if t is not None and t.get("k") == "ref" and t["n"] in env:
                    cur = env[t["n"]]
                    env[t["n"]] = v if op == "=" else (cur + v if op == "+=" else cur - v)
                    return env[t["n"]]
                if t is not None and t.get("k") == "idx":
                    b = ev(t["b"], env, packs)
                    i = ev(t["i"], env, packs)
                    if isinstance(b, dict):
                        cur = b.get(i, 0)
                        b[i] = v if op == "=" else (cur + v if op == "+=" else cur - v)
                        return b[i]
                raise _NM("assignment target")
            if op == "&&":
                return 1 if (ev(e["l"], env, packs) and ev(e["r"], env, packs)) else 0
            if op == "||":
                return 1 if (ev(e["l"], env, packs) or ev(e["r"], env, packs)) else 0
            a, b = ev(e["l"], env, packs), ev(e["r"], env, packs)
            if isinstance(a, dict) or isinstance(b, dict):
                raise _NM("array operand")
            if op in ("+", "-", "*"):
                return {"+": a + b, "-": a - b, "*": a * b}[op] & DYN
            if op in ("<", "<=", ">", ">=", "==", "!="):
                return 1 if {"<": a < b, "<=": a <= b, ">": a > b, ">=": a >= b, "==": a == b, "!=": a != b}[op] else 0
            raise _NM("operator " + op)
        if k == "cond":
            return ev(e["t"] if ev(e["c"], env, packs) else e["f"], env, packs)
        if k == "fold":
            # (E op ... op init): E expanded over every pack it mentions, in lockstep
            op = e.get("op")
            pat = e.get("l") if e.get("l") is not None and _mentions_pack(e.get("l")) else e.get("r")
            init = e.get("r") if pat is e.get("l") else e.get("l")
            acc = ev(init, env, packs) if init is not None else {"+": 0, "*": 1, "&&": 1, "||": 0}.get(op)
            if acc is None:
                raise _NM("fold without init")
            for i in range(R):
                v = ev(pat, env, dict(packs, Idxs=i, Is=i, I=i, Extents=pattern[i]))
                acc = {"+": lambda: acc + v, "*": lambda: acc * v, "&&": lambda: 1 if (acc and v) else 0,
                       "||": lambda: 1 if (acc or v) else 0}.get(op, lambda: (_ for _ in ()).throw(_NM("fold operator " + str(op))))()
            return acc
        if k == "call":
            fn = astx.strip_casts(e["f"])
            if fn is not None and fn.get("k") == "lambda":
                lam = fn
                sub = {}
                params = [p0 for p0 in lam.get("params", [])]
                for p0, a in zip(params, e["a"]):
                    if "index_sequence" in (p0.get("ty") or ""):
                        continue
                    sub[p0["n"]] = ev(a, env, packs)
                try:
                    run(lam.get("body"), sub, packs)
                except _Ret as r:
                    return r.v
                raise _NM("lambda without return")
            nm = astx.callee(e)[0]
            if nm == "rank" and not e["a"]:
                return R
            if nm == "static_extent" and len(e["a"]) == 1:
                return pattern[ev(e["a"][0], env, packs)]
            raise _NM("call `%s`" % astx.show(e, 30))
        raise _NM(astx.show(e, 30))

    def _mentions_pack(x):
        return any(y.get("k") == "ref" and y.get("n") in ("Idxs", "Is", "I", "Extents") for y in astx.walk_expr(x))

    def run(st, env, packs):
        if st is None:
            return
        steps[0] += 1
        if steps[0] > max_steps:
            raise _NM("step limit")
        k = st.get("k")
        if k == "seq":
            for s in st["s"]:
                run(s, env, packs)
        elif k == "decl":
            for v in st["vars"]:
                if "other" in v:
                    continue
                env[v["n"]] = ev(v["init"], env, packs) if v.get("init") is not None else 0
        elif k == "expr":
            ev(st["e"], env, packs)
        elif k == "return":
            raise _Ret(ev(st["e"], env, packs))
        elif k == "if":
            br = st.get("then") if ev(st["c"], env, packs) else st.get("else")
            run(br, env, packs)
        elif k == "for":
            if st.get("init") is not None:
                run(st["init"], env, packs)
            while st.get("c") is None or ev(st["c"], env, packs):
                run(st.get("body"), env, packs)
                if st.get("inc") is not None:
                    ev(st["inc"], env, packs)
        elif k == "while":
            while ev(st["c"], env, packs):
                run(st.get("body"), env, packs)
        elif k == "null":
            return
        else:
            raise _NM("statement " + str(k))
    env = {f["params"][0]["n"]: arg} if f.get("params") else {}
    try:
        run(f["body"], env, {})
    except _Ret as r:
        if isinstance(r.v, dict):
            raise _NM("array result")
        return r.v
    raise _NM("no return")


def check_dynamic_index(chk, db, rule="PATIDX", record="etl::extents"):
    fs = [g for g in db.funcs if g.get("record") == record and g["n"] == "_dynamic_index" and g.get("body") is not None]
    if not fs:
        return 0
    rec = db.record(record) or {}
    statics = dict((sm["n"], sm.get("init")) for sm in rec.get("statics", []) or [])
    n = 0
    for f in fs:
        n += 1
        construct = astx.sig(f)
        chk.instance(rule)
        bad = unknown = None
        judged = 0
        for R in range(1, 5):
            for pat in itertools.product((2, DYN), repeat=R):
                for i in range(R):
                    if pat[i] != DYN:
                        continue
                    try:
                        got = eval_pattern_function(f, pat, i, statics)
                    except _NM as ex:
                        unknown = str(ex)
                        break
                    judged += 1
                    want = sum(1 for j in range(i) if pat[j] == DYN)
                    if got != want and bad is None:
                        bad = (pat, i, got, want)
                if unknown:
                    break
            if unknown:
                break
        if unknown:
            chk.obligation(rule, construct, None)
            chk.unknown_instance(rule, construct, "not evaluated: " + unknown)
            continue
        chk.obligation(rule, construct, bad is None, evaluations=judged)
        if bad:
            pat, i, got, want = bad
            ptxt = "<" + ", ".join("dyn" if x == DYN else str(x) for x in pat) + ">"
            chk.violation(rule, construct, "wrong-slot", "%s: for the pattern %s extent %d is stored in slot %d of the dynamic-extent "
                          "array; it is the dynamic extent number %d (the number of dynamic extents in front of it)"
                          % (astx.loc(f), ptxt, i, got, want), {"where": astx.loc(f)})
    return n


def positive_controls(chk, D, rules=("SWAPSYM", "GAPSHIFT", "DISTGUARD")):
    import os
    fx_path = os.path.join(D.VERIF, "fixtures", "extra8_pos.hpp")
    fx = D.load_source('#include "%s"\n' % fx_path, root=os.path.dirname(fx_path) + "/", tag="fixture-extra8")
    by = {}
    for g in fx.funcs:
        by.setdefault(g["n"], []).append(g)

    def one(name, rec=None):
        for g in by.get(name, []):
            if rec is None or (g.get("record") or "").endswith(rec):
                return g
        return None
    if "SWAPSYM" in rules:
        b, g = one("swap", "fixture::swapper"), one("swap", "fixture::good_swapper")
        rb = check_swap_symmetry(b) if b else None
        rg = check_swap_symmetry(g) if g else None
        if not (rb and rb[0] == "bad"):
            chk.analysis_broken("SWAPSYM: the positive control fixture::swapper::swap was not reported (%s)" % (rb,))
        if not (rg and rg[0] == "ok"):
            chk.analysis_broken("SWAPSYM: the negative control fixture::good_swapper::swap was not proved (%s)" % (rg,))
    if "GAPSHIFT" in rules:
        b, g = one("insert_bad"), one("insert_good")
        rb = check_gap_shift(b) if b else None
        rg = check_gap_shift(g) if g else None
        if not (rb and any(v is False for _x, v, _m in rb)):
            chk.analysis_broken("GAPSHIFT: the positive control fixture::seq::insert_bad was not reported (%s)" % ([(v, m) for _x, v, m in rb or []],))
        if not (rg and all(v is True for _x, v, _m in rg)):
            chk.analysis_broken("GAPSHIFT: the negative control fixture::seq::insert_good was not proved (%s)" % ([(v, m) for _x, v, m in rg or []],))
    if "STALEREP" in rules:
        b, g = one("unique_copy_bad"), one("unique_copy_good")
        rb = check_stale_rep(b) if b else None
        rg = check_stale_rep(g) if g else None
        if not rb:
            chk.analysis_broken("STALEREP: the positive control fixture::unique_copy_bad was not reported (%s)" % (rb,))
        if rg is None or rg:
            chk.analysis_broken("STALEREP: the negative control fixture::unique_copy_good was not proved (%s)" % (rg,))
    if "PREVBOUND" in rules:
        b, g = one("exchange_bad"), one("exchange_good")
        rb = check_prev_bound(b) if b else None
        rg = check_prev_bound(g) if g else None
        if not rb:
            chk.analysis_broken("PREVBOUND: the positive control fixture::exchange_bad was not reported (%s)" % (rb,))
        if rg is None or rg:
            chk.analysis_broken("PREVBOUND: the negative control fixture::exchange_good was not proved (%s)" % (rg,))
    if "DISTGUARD" in rules:
        b, g = one("search_bad"), one("search_good")
        rb = check_dist_guard(b) if b else None
        rg = check_dist_guard(g) if g else None
        if not (rb and any(v is False for _x, v, _m in rb)):
            chk.analysis_broken("DISTGUARD: the positive control fixture::search_bad was not reported (%s)" % ([(v, m) for _x, v, m in rb or []],))
        if not (rg and all(v is True for _x, v, _m in rg)):
            chk.analysis_broken("DISTGUARD: the negative control fixture::search_good was not proved (%s)" % ([(v, m) for _x, v, m in rg or []],))


# ---- TRAITSORD: characters are ordered through Traits, never with the built-in `<` -------------------------------------------
ORDER_ALGOS_NOFUNCTOR = {"lexicographical_compare": 4, "lexicographical_compare_three_way": 4, "min_element": 2, "max_element": 2,
                         "is_sorted": 2, "lower_bound": 3, "upper_bound": 3}


def check_traits_order(f):
    """[string.view.comparison] / [char.traits]: the ordering of two strings is Traits::compare's, i.e. Traits::lt's on the
    first differing character - for `char` that is the order of `unsigned char`. Code that orders characters with the built-in
    `<` (directly on two character reads, or through an ordering algorithm called without a comparator) disagrees for
    characters >= 0x80 where plain char is signed. Equality (`==`) is not concerned.
    returns None (nothing that orders characters) | list of (node, what)"""
    if f.get("body") is None:
        return None
    out = []
    subject = f["n"] in ("operator<", "operator>", "operator<=", "operator>=", "operator<=>", "compare")

    def is_char_read(e):
        e = astx.strip_casts(e)
        if e is None:
            return False
        if e.get("k") == "un" and e.get("op") == "*":
            return True
        if e.get("k") == "idx":
            return True
        if e.get("k") == "call" and astx.callee(e)[0] in ("unsafe_at", "at", "front", "back", "operator[]"):
            return True
        return False
    for x in astx.all_exprs(f, into_lambdas=True):
        if x.get("k") == "call":
            nm = astx.callee(x)[0]
            if nm in ORDER_ALGOS_NOFUNCTOR and len(x["a"]) == ORDER_ALGOS_NOFUNCTOR[nm]:
                subject = True
                out.append((x, "`%s` is called without a comparator and orders the characters with the built-in `<`" % astx.show(x, 70)))
        if x.get("k") == "bin" and x["op"] in ("<", ">", "<=", ">=") and is_char_read(x["l"]) and is_char_read(x["r"]):
            subject = True
            out.append((x, "`%s` orders two characters with the built-in `%s`" % (astx.show(x, 50), x["op"])))
    return out if subject else None


def traits_order_area(chk, db, files, rule="TRAITSORD", skip_records=("etl::detail::char_traits_base",)):
    n = 0
    for f in db.funcs:
        if f.get("body") is None or f["file"] not in files or f.get("record") in skip_records:
            continue
        r = check_traits_order(f)
        if r is None:
            continue
        n += 1
        construct = astx.sig(f)
        chk.instance(rule)
        chk.obligation(rule, construct, not r)
        for node, what in r[:1]:
            chk.violation(rule, construct, "built-in-character-order",
                          "%s: %s; the standard orders strings with Traits::compare / Traits::lt, which for char is the order of "
                          "unsigned char: a character >= 0x80 sorts in front of 'a' here and behind it in std" % (astx.loc(f, node), what),
                          {"where": astx.loc(f)})
    return n


# ---- SELFMOVE: an element is never move-assigned onto itself ------------------------------------------------------------------
def check_self_move(f):
    """`*d = move(*s)` with d and s the same position moves an element onto itself (for a type whose move assignment empties
    its source the element is lost; the std algorithms take care never to do it: remove_if finds the first match first,
    unique tests `++result != first`). Positions are tracked on every structural path as (base, offset): `auto d = first`
    gives d the position of first, `++x` / `x++` add one, any other assignment a fresh base; `d != s` tested true separates
    them. The assignment is reported when both operands denote the same (base, offset) on a first-iteration path.
    returns None (no move-assignment through two cursors) | list of (node, d, s)"""
    if f.get("body") is None:
        return None
    sites = []
    for x in astx.all_exprs(f, into_lambdas=False):
        if x.get("k") == "bin" and x["op"] == "=":
            l = astx.strip_casts(x["l"])
            r = astx.strip_casts(x["r"])
            if l is None or r is None or l.get("k") != "un" or l["op"] != "*":
                continue
            if not (r.get("k") == "call" and astx.callee(r)[0] == "move" and len(r["a"]) == 1):
                continue
            ra = astx.strip_casts(r["a"][0])
            if ra is None or ra.get("k") != "un" or ra["op"] != "*":
                continue
            sites.append(x)
    if not sites:
        return None
    ids = set(id(x) for x in sites)
    bad = []
    fresh = [0]

    def cursor(e):
        """(name, uses value before its own step?) of `x`, `x++`, `++x`"""
        e = astx.strip_casts(e)
        if e is not None and e.get("k") == "un" and e["op"] in ("++", "--"):
            n = ref_name(e["e"])
            return (n, bool(e.get("postfix")), 1 if e["op"] == "++" else -1) if n else None
        n = ref_name(e)
        return (n, True, 0) if n else None
    for p in SP.paths(f["body"]):
        pos = {}
        for prm in f["params"]:
            if prm.get("n"):
                pos[prm["n"]] = (prm["n"], 0)
        separated = set()

        def assign(n, src):
            sn = ref_name(src) if src is not None else None
            if sn in pos:
                pos[n] = pos[sn]
            else:
                fresh[0] += 1
                pos[n] = ("#%d" % fresh[0], 0)
            for pr in list(separated):
                if n in pr:
                    separated.discard(pr)

        def effects(e):
            for x in _post_order(e):
                if id(x) in ids:
                    l = astx.strip_casts(x["l"])
                    ra = astx.strip_casts(astx.strip_casts(x["r"])["a"][0])
                    cd, cs = cursor(l["e"]), cursor(ra["e"])
                    if cd and cs and cd[0] in pos and cs[0] in pos and cd[0] != cs[0]:
                        pd, ps = pos[cd[0]], pos[cs[0]]
                        # the step inside the operand has already been applied by the post-order walk: undo for postfix
                        od = pd[1] - (cd[2] if cd[1] else 0)
                        os_ = ps[1] - (cs[2] if cs[1] else 0)
                        if pd[0] == ps[0] and od == os_ and frozenset((cd[0], cs[0])) not in separated and \
                                not any(b[0] is x for b in bad):
                            bad.append((x, cd[0], cs[0]))
                if x.get("k") == "un" and x["op"] in ("++", "--"):
                    n = ref_name(x["e"])
                    if n in pos:
                        pos[n] = (pos[n][0], pos[n][1] + (1 if x["op"] == "++" else -1))
                        for pr in list(separated):
                            if n in pr:
                                separated.discard(pr)
                if x.get("k") == "bin" and x["op"] == "=" and ref_name(x["l"]):
                    assign(ref_name(x["l"]), x["r"])
                if x.get("k") == "bin" and x["op"] in ("+=", "-=") and ref_name(x["l"]) in pos:
                    fresh[0] += 1
                    pos[ref_name(x["l"])] = ("#%d" % fresh[0], 0)
        for ev in p:
            if ev[0] == "backedge-cond":
                break               # only the first iteration is exact
            if ev[0] == "cond":
                effects(ev[1])
                from .arith import atoms as _atoms
                for op, l, r in _atoms(ev[1], ev[2]):
                    cl, cr = cursor(l), cursor(r)
                    if op == "!=" and cl and cr:
                        separated.add(frozenset((cl[0], cr[0])))
            elif ev[0] == "decl":
                if ev[1].get("init") is not None:
                    effects(ev[1]["init"])
                assign(ev[1]["n"], ev[1].get("init"))
            elif ev[0] in ("expr", "ret") and ev[1] is not None:
                effects(ev[1])
    return bad


def _post_order(e):
    if e is None or not isinstance(e, dict) or e.get("k") == "lambda":
        return
    for c in astx.children(e):
        for y in _post_order(c):
            yield y
    yield e


def self_move_area(chk, db, prefixes, rule="SELFMOVE"):
    n = 0
    for f in db.funcs:
        if f.get("body") is None or not any(f["file"].startswith(p) for p in prefixes):
            continue
        r = check_self_move(f)
        if r is None:
            continue
        n += 1
        construct = astx.sig(f)
        chk.instance(rule)
        chk.obligation(rule, construct, not r)
        for node, d, s in r[:1]:
            chk.violation(rule, construct, "element-moved-onto-itself",
                          "%s: on the first pass `%s` and `%s` denote the same element, so `%s` move-assigns it onto itself (an element "
                          "whose move assignment empties its source is lost; std::remove_if / std::unique never self-move)"
                          % (astx.loc(f, node), d, s, astx.show(node, 50)), {"where": astx.loc(f)})
    return n


# ---- FOREIGNSIZE: a raw size store through another object does not drop live elements ------------------------------------------
DESTROYERS = {"unsafe_destroy", "unsafe_destroy_all", "erase", "clear", "pop_back", "resize", "destroy", "destroy_at", "destroy_n"}


def check_foreign_size(f):
    """SLOTS-D judges `unsafe_set_size` on `*this`. The same call on another object of the class (a parameter, or a reference
    local bound to `*this` / the parameter) shrinks that object: on the path to it something must have destroyed that object's
    tail (a destroying call on the same receiver), unless the new size is the receiver's own size plus something.
    returns None | list of (call, receiver, verdict)"""
    if f.get("body") is None:
        return None
    out = []
    seen = set()
    for p in SP.paths(f["body"]):
        destroyed = set()
        for ev in p:
            exprs = []
            if ev[0] in ("expr", "ret", "cond") and len(ev) > 1 and ev[1] is not None:
                exprs.append(ev[1])
            if ev[0] == "decl" and ev[1].get("init") is not None:
                exprs.append(ev[1]["init"])
            for e in exprs:
                for x in astx.walk_expr(e):
                    if x.get("k") != "call":
                        continue
                    nm, q, recv, kind = astx.callee(x)
                    r0 = astx.strip_casts(recv) if recv is not None else None
                    rn = ref_name(r0) if r0 is not None else None
                    if rn is None:
                        continue
                    if nm in DESTROYERS:
                        destroyed.add(rn)
                    if nm == "unsafe_set_size" and len(x["a"]) == 1 and id(x) not in seen:
                        grows = any(y.get("k") == "call" and astx.callee(y)[0] == "size" and ref_name(astx.callee(y)[2]) == rn
                                    for y in astx.walk_expr(x["a"][0])) and "+" in astx.show(x["a"][0], 60) and "-" not in astx.show(x["a"][0], 60)
                        ok = grows or rn in destroyed
                        seen.add(id(x))
                        out.append((x, rn, ok))
    return out or None


def foreign_size_area(chk, db, prefixes, rule="FOREIGNSIZE"):
    n = 0
    for f in db.funcs:
        if f.get("body") is None or not any(f["file"].startswith(p) for p in prefixes):
            continue
        r = check_foreign_size(f)
        if not r:
            continue
        for call, rn, ok in r:
            n += 1
            label = "%s :: `%s`" % (astx.sig(f), astx.show(call, 50))
            chk.instance(rule)
            chk.obligation(rule, label, ok)
            if not ok:
                chk.violation(rule, label, "size-dropped-without-destroy",
                              "%s: `%s` sets the element count of `%s` directly; nothing on this path destroyed the elements that fall "
                              "out of the new size, so they are never destroyed (and a later append constructs over them)"
                              % (astx.loc(f, call), astx.show(call, 50), rn), {"where": astx.loc(f)})
    return n


# ---- CONDORDER: the count is consulted before the element it guards -----------------------------------------------------------
def check_cond_order(f):
    """A counted C-string routine may read at most `count` elements of its source: `*src != 0 and n != count` reads element
    n before it knows that n < count, i.e. element `count` (one past a full, unterminated field) in the last evaluation.
    In every `&&` condition the operand that tests the count comes before an operand that dereferences a pointer parameter.
    returns None | list of (cond node, deref node)"""
    from .iters import COUNT_NAME
    if f.get("body") is None:
        return None
    ptrs = set(p["n"] for p in f["params"] if p.get("n") and p["ty"].strip().endswith("*"))
    counts = [p["n"] for p in f["params"] if p.get("n") and COUNT_NAME.match(p["n"]) and "*" not in p["ty"] and "&" not in p["ty"]]
    if not ptrs or len(counts) != 1:
        return None
    cnt = counts[0]
    # locals compared with the count are counters
    counters = set([cnt])
    for x in astx.all_exprs(f, into_lambdas=False):
        if x.get("k") == "bin" and x["op"] in ("!=", "<", "==", "<=", ">", ">="):
            l, r = ref_name(x["l"]), ref_name(x["r"])
            if l == cnt and r:
                counters.add(r)
            if r == cnt and l:
                counters.add(l)
    local_ptrs = set()
    for st in astx.walk_stmts(f["body"]):
        if st.get("k") == "decl":
            for v in st["vars"]:
                if "*" in (v.get("ty") or "") and v.get("n"):
                    local_ptrs.add(v["n"])
    allp = ptrs | local_ptrs

    def derefs(e):
        out = []
        for y in astx.walk_expr(e):
            if y.get("k") == "un" and y["op"] == "*":
                t = astx.strip_casts(y["e"])
                while t is not None and t.get("k") == "un" and t["op"] in ("++", "--"):
                    t = astx.strip_casts(t["e"])
                if ref_name(t) in allp:
                    out.append(y)
            if y.get("k") == "idx" and ref_name(y["b"]) in allp:
                out.append(y)
        return out

    def tests_count(e):
        return any(y.get("k") == "ref" and y.get("n") in counters for y in astx.walk_expr(e))
    out = []
    subject = False
    conds = [st["c"] for st in astx.walk_stmts(f["body"]) if st.get("k") in ("for", "while", "do", "if") and st.get("c") is not None]
    for c in conds:
        for x in astx.walk_expr(c):
            if x.get("k") == "bin" and x["op"] == "&&":
                dl, dr = derefs(x["l"]), derefs(x["r"])
                cl, cr = tests_count(x["l"]), tests_count(x["r"])
                if (dl and cr) or (dr and cl):
                    subject = True
                if dl and cr and not cl:
                    out.append((x, dl[0]))
    return out if subject else None


def cond_order_area(chk, db, prefixes, rule="CONDORDER"):
    n = 0
    for f in db.funcs:
        if f.get("body") is None or not any(f["file"].startswith(p) for p in prefixes):
            continue
        r = check_cond_order(f)
        if r is None:
            continue
        n += 1
        construct = astx.sig(f)
        chk.instance(rule)
        chk.obligation(rule, construct, not r)
        for node, d in r[:1]:
            chk.violation(rule, construct, "element-read-before-count-test",
                          "%s: in `%s` the element `%s` is read before the count is consulted: after `count` elements the condition "
                          "reads the element one past the counted field (out of bounds for a full, unterminated field; not a constant "
                          "expression there)" % (astx.loc(f, node), astx.show(node, 70), astx.show(d, 20)), {"where": astx.loc(f)})
    return n


# ---- FWDMOVE: a forwarding reference is forwarded, not moved -------------------------------------------------------------------
def check_forward_move(f):
    """`template <class U> f(U&& v)`: v binds to lvalues as well; `etl::move(v)` turns the caller's lvalue into an rvalue and
    the callee steals from it (push_back(x) would empty x). Such a parameter is passed on with `etl::forward<U>(v)`.
    returns None (no forwarding-reference parameter) | list of move(...) nodes applied to one"""
    tps = [tp["n"] for tp in (f.get("tparams") or []) if tp.get("k") == "type"]
    if not tps or f.get("body") is None:
        return None
    # `U&& v` and the pack form `Args&&... args` (each element of the pack is a forwarding reference of its own)
    fw = [p["n"] for p in f["params"] if p.get("n") and re.match(r"^(%s)\s*&&\s*(\.\.\.)?$" % "|".join(map(re.escape, tps)), p["ty"].strip())]
    if not fw:
        return None
    out = []
    exprs = list(astx.all_exprs(f, into_lambdas=True))
    for x in exprs:
        if x.get("k") == "call" and astx.callee(x)[0] == "move" and len(x["a"]) == 1 and ref_name(x["a"][0]) in fw:
            out.append(x)
    return out


# one named exception: forward_like<T>(x) exists to give x the value category of *another* type, it moves by design
FWDMOVE_EXEMPT = {"etl::forward_like"}


def forward_move_area(chk, db, prefixes, rule="FWDMOVE"):
    n = 0
    for f in db.funcs:
        if f.get("body") is None or not any(f["file"].startswith(p) for p in prefixes) or f.get("q") in FWDMOVE_EXEMPT:
            continue
        r = check_forward_move(f)
        if r is None:
            continue
        n += 1
        construct = astx.sig(f)
        chk.instance(rule)
        chk.obligation(rule, construct, not r)
        for node in r[:1]:
            chk.violation(rule, construct, "forwarding-reference-moved",
                          "%s: `%s` moves from a forwarding reference: when the caller passes an lvalue its object is moved from "
                          "(std::vector::push_back(x) copies x); the parameter is to be passed on with etl::forward"
                          % (astx.loc(f, node), astx.show(node, 40)), {"where": astx.loc(f)})
    return n


# ---- ALIASSTR: an argument that may refer to the string itself is read before the string is modified ---------------------------
STR_MUTATORS = {"unsafe_set_size", "clear", "resize", "push_back", "pop_back", "append", "erase", "insert", "insert_impl", "replace",
                "fill", "rotate", "assign"}


def check_alias_string(f, own_record):
    """std::basic_string's assign / append / insert / replace accept a string or a character pointer that refers to the
    string itself (`s.assign(s, 1, 3)`, `s = s.c_str() + 1`). On every structural path of such a member no read of that
    parameter follows a call that modifies `*this` (a raw size store, which also writes the terminator; a traits copy / move /
    assign into data(); clear / erase / append ...). A statement that reads the parameter *as an argument of* the modifying
    call itself is fine (arguments are evaluated first). returns None | list of (read node, mutation node, param)"""
    if f.get("body") is None or f.get("record") != own_record or f["n"] in ("<ctor>", "<dtor>", "swap", "operator=") and False:
        return None
    if f["n"] in ("<ctor>", "<dtor>", "swap"):
        return None
    short = own_record.split("::")[-1]
    params = []
    for p0 in f["params"]:
        ty = p0.get("ty", "")
        if not p0.get("n"):
            continue
        if (short in ty and "&" in ty and "&&" not in ty) or re.search(r"const_pointer|const\s+Char\s*\*|Char\s+const\s*\*", ty):
            params.append(p0["n"])
    if not params:
        return None
    bad = []
    for p in SP.paths(f["body"]):
        mut = None
        for ev in p:
            exprs = []
            if ev[0] in ("expr", "ret", "cond") and len(ev) > 1 and ev[1] is not None:
                exprs.append(ev[1])
            if ev[0] == "decl" and ev[1].get("init") is not None:
                exprs.append(ev[1]["init"])
            for e in exprs:
                reads = [y for y in astx.walk_expr(e, into_lambdas=True) if y.get("k") == "ref" and y.get("d") == "param" and y.get("n") in params]
                if reads and mut is not None and not any(b[0] is reads[0] for b in bad):
                    bad.append((reads[0], mut, reads[0]["n"]))
                for c in SP.calls_in(e):
                    nm, q, recv, kind = astx.callee(c)
                    r0 = astx.strip_casts(recv) if recv is not None else None
                    own = r0 is None or astx.is_this(r0)
                    is_mut = False
                    if nm in STR_MUTATORS and own and kind == "member":
                        is_mut = True
                    if nm in ("copy", "move", "assign") and len(c["a"]) == 3 and "traits" in astx.show(c["f"], 40).lower():
                        a0 = astx.show(c["a"][0], 40)
                        if re.search(r"\bdata\(\)|\bbegin\(\)|\bend\(\)", a0) and not any(pn in a0 for pn in params):
                            is_mut = True
                    if is_mut and mut is None:
                        mut = c
    return bad


def alias_string_area(chk, db, own_record, rule="ALIASSTR"):
    n = 0
    for f in db.funcs:
        r = check_alias_string(f, own_record)
        if r is None:
            continue
        n += 1
        construct = astx.sig(f)
        chk.instance(rule)
        chk.obligation(rule, construct, not r)
        for rd, mut, pn in r[:1]:
            chk.violation(rule, construct, "argument-read-after-self-modification",
                          "%s: `%s` is read after `%s` has already modified the string; std::basic_string accepts an argument that "
                          "refers to the string itself (`s.assign(s, 1, 3)`, `s = s.c_str() + 1`), whose characters (and terminator "
                          "position) have changed by then" % (astx.loc(f, rd), pn, astx.show(mut, 50)), {"where": astx.loc(f)})
    return n


# ---- STALEREP: a cached group representative is refreshed when the group changes -----------------------------------------------
def check_stale_rep(f):
    """`auto value = *first;` followed by a loop that advances `first`, compares `value` with `*first` through the functor
    (or ==) and writes to an output on the branch where they differ: the cached element stands for the *current group*
    (unique_copy, and the run-length family), so it must be assigned inside that loop. A local that is never assigned there
    keeps standing for the first group for ever. returns None | list of (local, loop)"""
    if f.get("body") is None:
        return None
    its = set(p["n"] for p in f["params"] if p.get("n") and re.search(r"It\d*$|Iter\d*$|Iterator$|\*$", p["ty"].replace("const ", "").strip()))
    if not its:
        return None
    fps = set(p["n"] for p in f["params"] if p.get("n") and re.match(r"^(Compare|Predicate|BinaryPredicate|BinaryPred|Pred|Comp)\b",
                                                                     p["ty"].replace("const ", "").strip()))
    cached = {}
    for st in astx.walk_stmts(f["body"]):
        if st.get("k") == "decl":
            for v in st["vars"]:
                i0 = astx.strip_casts(v.get("init")) if v.get("init") is not None else None
                if i0 is not None and i0.get("k") == "un" and i0["op"] == "*" and ref_name(i0["e"]) in its and "&" not in (v.get("ty") or ""):
                    cached[v["n"]] = ref_name(i0["e"])
    if not cached:
        return None
    out = []
    subject = False
    for lp in [st for st in astx.walk_stmts(f["body"]) if st.get("k") in ("for", "while", "do")]:
        exprs = list(astx.walk_stmt_exprs(lp.get("body"), into_lambdas=False))
        for part in ("c", "inc"):
            if lp.get(part) is not None:
                exprs += list(astx.walk_expr(lp[part]))
        for name, cur in cached.items():
            advances = any(x.get("k") == "un" and x["op"] == "++" and ref_name(x["e"]) == cur for x in exprs)
            compared = False
            for x in exprs:
                if x.get("k") == "call":
                    fn = astx.strip_casts(x["f"])
                    if fn is not None and fn.get("k") == "ref" and fn.get("n") in fps and any(ref_name(a) == name for a in x["a"]):
                        compared = True
                if x.get("k") == "bin" and x["op"] in ("==", "!=") and (ref_name(x["l"]) == name or ref_name(x["r"]) == name):
                    compared = True
            writes = any(x.get("k") == "bin" and x["op"] == "=" and astx.strip_casts(x["l"]) is not None and
                         astx.strip_casts(x["l"]).get("k") == "un" and astx.strip_casts(x["l"])["op"] == "*" for x in exprs)
            if not (advances and compared and writes):
                continue
            subject = True
            assigned = any(x.get("k") == "bin" and x["op"] == "=" and ref_name(x["l"]) == name for x in exprs)
            if not assigned:
                out.append((name, lp))
    return out if subject else None


def stale_rep_area(chk, db, prefixes, rule="STALEREP"):
    n = 0
    for f in db.funcs:
        if f.get("body") is None or not any(f["file"].startswith(p) for p in prefixes):
            continue
        r = check_stale_rep(f)
        if r is None:
            continue
        n += 1
        construct = astx.sig(f)
        chk.instance(rule)
        chk.obligation(rule, construct, not r)
        for name, lp in r[:1]:
            chk.violation(rule, construct, "cached-element-never-refreshed",
                          "%s: `%s` caches the first element and is compared with every later one, but the loop that writes a new "
                          "group never assigns it: later groups are compared with the first group's element"
                          % (astx.loc(f, lp), name), {"where": astx.loc(f)})
    return n


# ---- FIELDSWAP: a member swap of a plain aggregate exchanges member by member ---------------------------------------------------
def check_field_swap(db, f):
    """pair::swap ([pairs.pair]: "swaps first with p.first and second with p.second"): for reference members a whole-object
    exchange (`other = exchange(*this, move(other))`) copies through the references and both objects end up with one side's
    values. Every data member of the record is mentioned as `other.<member>` in the body.
    returns None | list of members never exchanged individually"""
    if f.get("body") is None or f["n"] != "swap" or len(f["params"]) != 1 or not f.get("record"):
        return None
    rec = db.record(f["record"])
    if rec is None:
        return None
    fields = [fd["n"] for fd in rec.get("fields", []) if fd.get("n")]
    if len(fields) < 2 or rec.get("bases"):
        return None
    other = f["params"][0]["n"]
    touched = set()
    for x in astx.all_exprs(f, into_lambdas=True):
        if x.get("k") == "mem" and x.get("n") in fields:
            b = astx.strip_casts(x.get("b")) if x.get("b") is not None else None
            if b is not None and b.get("k") == "ref" and b.get("n") == other:
                touched.add(x["n"])
    return [m for m in fields if m not in touched]


def field_swap_area(chk, db, prefixes, rule="FIELDSWAP"):
    n = 0
    for f in db.funcs:
        if f.get("body") is None or not any(f["file"].startswith(p) for p in prefixes):
            continue
        r = check_field_swap(db, f)
        if r is None:
            continue
        n += 1
        construct = astx.sig(f)
        chk.instance(rule)
        chk.obligation(rule, construct, not r)
        if r:
            chk.violation(rule, construct, "members-not-exchanged",
                          "%s: swap never exchanges the member(s) %s with the other object's individually; a whole-object exchange "
                          "assigns through reference members, so pair<T&, U&>::swap leaves both referenced objects with one side's "
                          "values" % (astx.loc(f), ", ".join(r)), {"where": astx.loc(f)})
    return n


# ---- REFQMOVE: an rvalue-qualified accessor hands its members on as rvalues --------------------------------------------------
def check_refq_move(f):
    """A member function qualified `&&` (or `const&&`) that returns a reference gives access to a sub-object of an expiring
    object: the member it returns or indexes further is wrapped in etl::move (or forward / static_cast<T&&>), as in its `&`
    sibling it is not. A bare member in the returned expression makes `move(v)[i]` an lvalue: copies instead of moves.
    returns None | list of member nodes returned bare"""
    if f.get("body") is None or f.get("refq") not in ("&&", "const &&", "const&&") or not f.get("record"):
        return None
    ret = (f.get("ret") or "")
    if "&&" not in ret and "decltype(auto)" not in ret and "auto" not in ret:
        return None
    out = []
    subject = False
    for st in astx.walk_stmts(f["body"]):
        if st.get("k") != "return" or st.get("e") is None:
            continue
        wrapped = set()
        for x in astx.walk_expr(st["e"]):
            if x.get("k") == "call" and astx.callee(x)[0] in ("move", "forward", "forward_like"):
                for y in astx.walk_expr(x):
                    wrapped.add(id(y))
            if x.get("k") == "cast" and "&&" in (x.get("ty") or ""):
                for y in astx.walk_expr(x):
                    wrapped.add(id(y))
        for x in astx.walk_expr(st["e"]):
            if x.get("k") == "mem" and x.get("dk") == "field" and (x.get("b") is None or astx.is_this(x.get("b"))):
                subject = True
                if id(x) not in wrapped:
                    out.append(x)
            if x.get("k") == "ref" and x.get("d") in ("field", "member"):
                subject = True
                if id(x) not in wrapped:
                    out.append(x)
    return out if subject else None


def refq_move_area(chk, db, prefixes, rule="REFQMOVE"):
    n = 0
    for f in db.funcs:
        if f.get("body") is None or not any(f["file"].startswith(p) for p in prefixes):
            continue
        r = check_refq_move(f)
        if r is None:
            continue
        n += 1
        construct = astx.sig(f)
        chk.instance(rule)
        chk.obligation(rule, construct, not r)
        for node in r[:1]:
            chk.violation(rule, construct, "member-returned-as-lvalue",
                          "%s: the `&&`-qualified accessor hands `%s` on without etl::move: the sub-object of an expiring object is "
                          "given out as an lvalue, so a move from `std::move(obj)` copies and a visitor sees T& instead of T&&"
                          % (astx.loc(f, node), astx.show(node, 30)), {"where": astx.loc(f)})
    return n


# ---- PREVBOUND: "one before the end" is a loop bound only for a non-empty range -------------------------------------------------
def check_prev_bound(f):
    """`auto const back = prev(last); for (i = first; i != back; ++i)`: for an empty range `back` lies in front of `first`, and
    an inequality test never meets it (an ordering test `i < back` would). Such a loop needs `first != last` on its path.
    returns None | list of (loop, bound name)"""
    if f.get("body") is None:
        return None
    pairs = range_pairs(f)
    if not pairs:
        return None
    ends = dict((e, b) for b, e in pairs.items())
    bounds = {}
    for st in astx.walk_stmts(f["body"]):
        if st.get("k") == "decl":
            for v in st["vars"]:
                i0 = astx.strip_casts(v.get("init")) if v.get("init") is not None else None
                if i0 is None:
                    continue
                if i0.get("k") == "call" and astx.callee(i0)[0] == "prev" and len(i0["a"]) == 1 and ref_name(i0["a"][0]) in ends:
                    bounds[v["n"]] = ref_name(i0["a"][0])
                if i0.get("k") == "bin" and i0["op"] == "-" and ref_name(i0["l"]) in ends:
                    try:
                        if astx.int_value(astx.strip_casts(i0["r"])) == 1:
                            bounds[v["n"]] = ref_name(i0["l"])
                    except Exception:
                        pass
    if not bounds:
        return None
    out = []
    subject = False
    from .arith import atoms as _atoms
    for lp in [st for st in astx.walk_stmts(f["body"]) if st.get("k") in ("for", "while") and st.get("c") is not None]:
        c = astx.strip_casts(lp["c"])
        if c is None or c.get("k") != "bin" or c["op"] != "!=":
            continue
        bn = None
        for a, b in ((c["l"], c["r"]), (c["r"], c["l"])):
            if ref_name(b) in bounds and ref_name(a):
                bn = ref_name(b)
        if bn is None:
            continue
        subject = True
        end = bounds[bn]
        begin = ends[end]
        dominated = True
        for p in SP.paths(f["body"]):
            known = False
            reached = False
            for ev in p:
                if ev[0] == "cond" and ev[1] is lp["c"]:
                    reached = True
                    break
                if ev[0] == "cond":
                    for op, l, r in _atoms(ev[1], ev[2]):
                        if op == "!=" and {ref_name(l), ref_name(r)} == {begin, end}:
                            known = True
            if reached and not known:
                dominated = False
        if not dominated:
            out.append((lp, bn))
    return out if subject else None


def prev_bound_area(chk, db, prefixes, rule="PREVBOUND"):
    n = 0
    for f in db.funcs:
        if f.get("body") is None or not any(f["file"].startswith(p) for p in prefixes):
            continue
        r = check_prev_bound(f)
        if r is None:
            continue
        n += 1
        construct = astx.sig(f)
        chk.instance(rule)
        chk.obligation(rule, construct, not r)
        for lp, bn in r[:1]:
            chk.violation(rule, construct, "bound-in-front-of-an-empty-range",
                          "%s: the loop runs until its cursor meets `%s`, the position one before the end; for an empty range that "
                          "position lies in front of the begin and `!=` never meets it: elements outside the range are compared and "
                          "swapped" % (astx.loc(f, lp), bn), {"where": astx.loc(f)})
    return n
