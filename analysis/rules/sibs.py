"""Rule SIB: the cv/ref-qualified overloads of one member compute the same function.

`f() &`, `f() const&`, `f() &&`, `f() const&&` (and the const / non-const pair of an accessor) differ only in the value
category and constness they hand on. After erasing what is allowed to differ -- `move` / `forward` / `as_const`, casts,
cv-qualifiers and references in type names, `c`-prefixed iterator accessors (`cbegin` for `begin`), alias declarations and
the arguments of the contract handler (they carry `__LINE__`) -- the bodies of all members of such a family are the same
tree, or one member delegates to its sibling (`const_cast<T*>(this)->f(...)`, `as_const(*this).f(...)`).
A family whose members still differ is reported with the first differing sub-expression (a cross-check between sibling
implementations of one interface; nothing is compared with a frozen text: an edit applied to all members alike is silent).
"""
import json
import os
import re

from .. import astx
from .. import db as D

DROP = {"line", "src", "sd", "i", "cands", "ovl", "implicit", "arrow", "adl", "q", "d", "dk", "dep", "end", "col", "targs", "qual", "unres", "ck", "temp",
        "copymove", "m", "text", "const"}
WRAP = {"move", "forward", "as_const"}
HANDLERS = {"assert_handler", "call_assert_handler", "default_assert_handler", "raise", "terminate"}
C_NAMES = {"cbegin": "begin", "cend": "end", "crbegin": "rbegin", "crend": "rend"}


def norm_ty(t):
    if not isinstance(t, str):
        return t
    t = re.sub(r"\bconst_", "", t)
    t = re.sub(r"\bconst\b|\bvolatile\b|&", "", t)
    return re.sub(r"\s+", "", t)


def norm(e):
    if isinstance(e, list):
        return [y for y in (norm(x) for x in e) if y is not None]
    if not isinstance(e, dict):
        return e
    k = e.get("k")
    if k == "call":
        n = astx.callee(e)[0]
        if n in WRAP and len(e["a"]) == 1:
            return norm(e["a"][0])
        if n in HANDLERS:
            return {"k": "call", "handler": n}
    if k in ("cast", "paren"):
        return norm(e["e"])
    if k == "decl" and all("other" in v for v in e.get("vars", [])):
        return None
    if k == "this":
        return {"k": "this"}
    out = {}
    for kk, v in e.items():
        if kk in DROP:
            continue
        if kk == "ty":
            out[kk] = norm_ty(v)
        elif kk == "n" and isinstance(v, str):
            out[kk] = C_NAMES.get(v, v)
        elif kk == "b" and isinstance(v, dict) and v.get("k") == "this":
            continue                    # implicit and explicit `this->` are the same receiver
        else:
            out[kk] = norm(v)
    return out


def first_diff(a, b, path=""):
    if type(a) != type(b):
        return path, a, b
    if isinstance(a, dict):
        for k in sorted(set(a) | set(b)):
            if a.get(k) != b.get(k):
                return first_diff(a.get(k), b.get(k), path + "." + k)
    if isinstance(a, list):
        if len(a) != len(b):
            return path + "[length]", a, b
        for i, (x, y) in enumerate(zip(a, b)):
            if x != y:
                return first_diff(x, y, path + "[%d]" % i)
    return path, a, b


def show(x):
    if isinstance(x, list):
        return "(" + ", ".join(show(y) for y in x) + ")"
    if isinstance(x, dict) and x.get("k"):
        try:
            return astx.show(x, 60)
        except Exception:
            pass
    return json.dumps(x)[:80]


def _subst(e, env):
    """replace references to const locals by their (normalised) initialisers"""
    if isinstance(e, list):
        return [_subst(x, env) for x in e]
    if not isinstance(e, dict):
        return e
    if e.get("k") == "ref" and e.get("n") in env:
        return env[e["n"]]
    return dict((k, _subst(v, env)) for k, v in e.items())


def _atoms(c, taken):
    """normalised (atom, polarity) pairs a condition contributes when it evaluates to `taken`; None when it is a disjunction
    that cannot be split"""
    c0 = c
    while isinstance(c0, dict) and c0.get("k") == "un" and c0.get("op") == "!":
        taken = not taken
        c0 = c0["e"]
    if isinstance(c0, dict) and c0.get("k") == "bin" and c0.get("op") in ("&&", "||"):
        if (c0["op"] == "&&") == taken:
            l, r = _atoms(c0["l"], taken), _atoms(c0["r"], taken)
            if l is not None and r is not None:
                return l + r
        return [(json.dumps(c0, sort_keys=True), taken)]
    return [(json.dumps(c0, sort_keys=True), taken)]


def path_signature(f):
    """the function as a set of structural paths: (sorted test atoms with polarity, effects in order, returned expression),
    with const locals substituted and negations folded into the polarity. Two bodies with the same signature make the same
    decisions and return the same expressions, whatever the order and nesting of their tests."""
    from . import sets as SP
    sig = set()
    try:
        paths = SP.normalised_paths(f["body"])
    except Exception:
        return None
    if not paths or len(paths) > 64:
        return None
    for p in paths:
        env = {}
        conds, effects, ret = [], [], None
        for ev in p:
            if ev[0] == "decl":
                v = ev[1]
                if v.get("init") is not None and not v.get("bindings"):
                    env[v["n"]] = _subst(norm(v["init"]), env)
                else:
                    effects.append(json.dumps(("decl", v.get("n"), _subst(norm(v.get("init")), env)), sort_keys=True))
            elif ev[0] in ("cond", "backedge-cond"):
                a = _atoms(_subst(norm(ev[1]), env), ev[2] if ev[0] == "cond" else True)
                conds += [(x, bool(t), ev[0]) for x, t in (a or [])]
            elif ev[0] == "expr":
                effects.append(json.dumps(_subst(norm(ev[1]), env), sort_keys=True))
            elif ev[0] == "ret":
                ret = json.dumps(_subst(norm(ev[1]), env), sort_keys=True) if ev[1] is not None else "void"
            else:
                effects.append(ev[0])
        sig.add((tuple(sorted(set(conds))), tuple(effects), ret))
    return frozenset(sig)


def delegates_to_sibling(f):
    """the body is `return <sibling of the same name>(...)` on this object seen through a cast / as_const"""
    b = f.get("body")
    if not b or b.get("k") != "seq" or len(b["s"]) != 1 or b["s"][0].get("k") != "return":
        return False
    e = astx.strip_casts(b["s"][0].get("e"))
    while e is not None and e.get("k") == "un" and e.get("op") in ("*", "&"):
        e = astx.strip_casts(e["e"])
    if e is None or e.get("k") != "call":
        return False
    n, _q, recv, kind = astx.callee(e)
    if n != f["n"] or kind != "member":
        return False
    r = astx.strip_casts(recv)
    while r is not None and r.get("k") == "call" and astx.callee(r)[0] in WRAP and len(r["a"]) == 1:
        r = astx.strip_casts(r["a"][0])
    while r is not None and r.get("k") == "un" and r.get("op") == "*":
        r = astx.strip_casts(r["e"])
    return r is None or astx.is_this(r)


def families(db, prefixes):
    fam = {}
    for f in db.funcs:
        if f.get("body") is None or not any(f["file"].startswith(p) for p in prefixes):
            continue
        if f.get("kind") == "function":
            # free functions overloaded on the cv/ref-qualification of a parameter (`get<I>(tuple&)`, `get<I>(tuple&&)`, ...)
            key = (f["file"], "", f["q"], tuple(norm_ty(p["ty"]) for p in f["params"]), len(f.get("tparams") or []),
                   norm_ty(f.get("ret") or ""))
            fam.setdefault(key, []).append(f)
            continue
        if f.get("kind") != "method" or not f.get("record") or f.get("static"):
            continue
        # the result type is part of the interface: `operator[] const -> bool` and `operator[] -> reference` are not siblings
        key = (f["file"], f["record"], f["n"], tuple(norm_ty(p["ty"]) for p in f["params"]), len(f.get("tparams") or []),
               norm_ty(f.get("ret") or ""))
        fam.setdefault(key, []).append(f)
    out = []
    for key, fs in sorted(fam.items()):
        fs = sorted(fs, key=lambda g: g["line"])
        # partial specialisations share the record's spelled name: a repeated qualifier combination starts a new family
        groups, cur, seen = [], [], set()
        for g in fs:
            q = (bool(g.get("const")), g.get("refq") or "", tuple(p["ty"] for p in g["params"]) if g.get("kind") == "function" else ())
            if q in seen:
                groups.append(cur)
                cur, seen = [], set()
            cur.append(g)
            seen.add(q)
        groups.append(cur)
        for grp in groups:
            if len(grp) >= 2:
                out.append((key, grp))
    return out


def check(chk, db, prefixes, rule="SIB"):
    n = 0
    bad = []
    for key, grp in families(db, prefixes):
        n += 1
        chk.instance(rule)
        if key[1]:
            construct = "%s::%s(%s) {%s}" % (key[1], key[2], ", ".join(key[3]), " | ".join(
                (("const" if g.get("const") else "") + (g.get("refq") or "")) or "-" for g in grp))
        else:
            construct = "%s(%s) {%d overloads by cv/ref of the parameters}" % (key[2], ", ".join(key[3]), len(grp))
        plain = [g for g in grp if not delegates_to_sibling(g)]
        ns = [(g, norm(g["body"])) for g in plain]
        # majority body is the reference; with two members there is no majority: report the pair
        diff = None
        if ns:
            keys = [json.dumps(x, sort_keys=True) for _g, x in ns]
            ref_i = max(range(len(keys)), key=lambda i: (keys.count(keys[i]), -i))
            ref_sig = None
            for i, (g, x) in enumerate(ns):
                if keys[i] != keys[ref_i]:
                    # same decisions and results in another arrangement (inverted test, reordered branches, named locals)?
                    if ref_sig is None:
                        ref_sig = path_signature(ns[ref_i][0])
                    sg = path_signature(g)
                    if ref_sig is not None and sg is not None and sg == ref_sig:
                        continue
                    p, a, b = first_diff(ns[ref_i][1], x)
                    diff = (ns[ref_i][0], g, a, b)
                    break
        chk.obligation(rule, construct, diff is None, evaluations=len(grp))
        if diff:
            rg, g, a, b = diff
            bad.append(construct)
            chk.violation(rule, construct, "siblings-disagree", "%s: this overload computes `%s` where its sibling at line %s computes `%s`; "
                          "the cv/ref-qualified overloads of one member may differ only in move/forward/const" % (
                              astx.loc(g), show(b), rg["line"], show(a)), {"where": astx.loc(g), "sibling": astx.loc(rg)})
    return n, bad


FIXTURE = os.path.join(D.VERIF, "fixtures", "sib_pos.hpp")


def positive_control(chk, rule="SIB"):
    """the rule's expected count on the library is zero: the fixture's deviant overload must be reported on every run"""
    class _Quiet:
        def __init__(self):
            self.v = []

        def instance(self, *a, **k):
            pass

        def obligation(self, *a, **k):
            pass

        def violation(self, rule, construct, *a, **k):
            self.v.append(construct)
    fx = D.load_source('#include "%s"\n' % FIXTURE, root=os.path.dirname(FIXTURE) + "/", tag="fixture-sib")
    q = _Quiet()
    n, bad = check(q, fx, [""], rule)
    if n < 2 or len(bad) != 1 or "bad_get" not in bad[0]:
        chk.analysis_broken("%s: positive control not reported as expected (families %d, reported %r)" % (rule, n, bad))
