"""Rule family CALL1 (DESIGN.md 5 C20): call wrappers invoke their target exactly once on every path and forward every
argument pack exactly once with the value category that matches the overload."""
from .. import astx
from . import sets as SP

INVOKERS = {"invoke", "invoke_r", "invoke_memptr", "apply", "bind_front_caller", "apply_impl", "make_from_tuple_impl"}


def is_invocation(c, fields, params, lambdas_as_invocation=True):
    f = c["f"]
    k = f.get("k")
    nm, q, recv, kind = astx.callee(c)
    if nm in INVOKERS:
        return True
    if k == "mem":
        # call through a data member (function pointer / callable member) of this or of a member
        if f.get("dk") == "field":
            return True
        if (f.get("dep") or f.get("unres")) and f["n"] in fields and astx.is_this(f.get("b")):
            return True
        b = astx.strip_casts(f.get("b"))
        if b is not None and b.get("k") == "mem" and b["n"] in fields and f["n"].endswith("_ptr"):
            return True
        return False
    if k == "ref" and f.get("d") in ("param", "local") and f["n"] in params:
        return True
    if k == "ref" and f.get("d") == "nttp":
        return True
    if k in ("bin",) and f.get("op") in (".*", "->*"):
        return True
    if k == "call":
        # etl::forward<F>(f)(args...) / etl::move(f)(args...)
        n2 = astx.callee(f)[0]
        if n2 in ("forward", "move") and f["a"]:
            a0 = astx.strip_casts(f["a"][0])
            if a0 is not None and ((a0.get("k") == "ref" and a0["n"] in params) or (a0.get("k") == "mem" and a0["n"] in fields)):
                return True
    if k == "un" and f.get("op") == "*":
        return True
    if k == "other":
        return True
    return False


def invocations_on_path(path, fields, params, tparams=()):
    n = 0
    calls = []
    for ev in path:
        for e in SP.event_exprs(ev):
            for x in astx.walk_expr(e, into_lambdas=True):
                if x.get("k") == "construct" and x.get("ty") in tparams:
                    calls.append(x)     # construction of the target type (make_from_tuple)
            for c in SP.calls_in(e):
                if is_invocation(c, fields, params):
                    # an inner call that is an argument of another invocation (invoke(forward<F>(f)...)) counts once
                    n += 1
                    calls.append(c)
    # nested: forward<F>(f)(...) inside invoke(...)? not in this code base; de-duplicate identical nodes
    uniq = []
    for c in calls:
        if not any(c is u for u in uniq):
            uniq.append(c)
    # a lambda bound to a local and handed to another invocation (auto call = [&](...) {...}; apply(move(call), tuple)) is
    # part of that invocation: the calls in its body are nested, exactly as if the lambda were written in the argument
    lambda_locals = {}
    for ev in path:
        if ev[0] == "decl" and ev[1].get("init") is not None and astx.strip_casts(ev[1]["init"]) is not None and \
                astx.strip_casts(ev[1]["init"]).get("k") == "lambda":
            lambda_locals[ev[1]["n"]] = ev[1]["init"]
    # drop invocations that are arguments of another counted invocation
    outer = []
    for c in uniq:
        inside = False
        for d in uniq:
            if d is c:
                continue
            if any(x is c for a in d["a"] for x in astx.walk_expr(a, into_lambdas=True)):
                inside = True
            for a in d["a"]:
                for y in astx.walk_expr(a, into_lambdas=True):
                    if y.get("k") == "ref" and y.get("n") in lambda_locals and \
                            any(x is c for x in astx.walk_expr(lambda_locals[y["n"]], into_lambdas=True)):
                        inside = True
        if not inside:
            outer.append(c)
    return outer


def pack_uses(f):
    """{pack name: [(expression kind, node)]} for every function parameter pack"""
    packs = dict((p["n"], p) for p in f["params"] if p.get("pack") and p["n"])
    uses = dict((n, []) for n in packs)
    for x in astx.all_exprs(f):
        if x.get("k") == "pack":
            inner = astx.strip_casts(x["e"])
            names = [y["n"] for y in astx.walk_expr(x["e"], into_lambdas=True) if y.get("k") == "ref" and y["n"] in packs]
            for n in set(names):
                form = "other"
                if inner is not None and inner.get("k") == "call" and astx.callee(inner)[0] == "forward":
                    form = "forward"
                elif x["e"].get("k") == "cast" and x["e"]["ty"].endswith("&&"):
                    form = "forward"
                elif inner is not None and inner.get("k") == "ref":
                    form = "plain"
                uses[n].append((form, x))
    # lambda captures [&args...] are not uses
    return packs, uses


def member_value_categories(f, fields):
    """for each use of a data member as (part of) the invoked target or its bound arguments: wrapped in move?"""
    out = []
    for x in astx.all_exprs(f):
        if x.get("k") != "call":
            continue
        nm = astx.callee(x)[0]
        if nm not in INVOKERS:
            continue
        for a in x["a"]:
            a0 = astx.strip_casts(a)
            moved = False
            if a0 is not None and a0.get("k") == "call" and astx.callee(a0)[0] in ("move",) and a0["a"]:
                moved = True
                a0 = astx.strip_casts(a0["a"][0])
            if a0 is not None and a0.get("k") == "mem" and astx.is_this(a0.get("b")) and a0["n"] in fields:
                out.append((a0["n"], moved, x))
    return out


def check_wrapper(chk, db, f, negated=False, rule="CALL1"):
    construct = astx.sig(f)
    rec = db.record(f["record"]) if f.get("record") else None
    fields = set(fd["n"] for fd in rec["fields"]) if rec else set()
    params = set(p["n"] for p in f["params"])
    chk.instance(rule)
    problems = []
    ps = SP.paths(f["body"])
    if not ps:
        chk.unknown_instance(rule, construct, "no structural path")
        return
    tps = tuple(tp["n"] for tp in (f.get("tparams") or []) if tp.get("k") == "type")
    for p in ps:
        inv = invocations_on_path(p, fields, params, tps if f["n"] == "make_from_tuple" else ())
        returns_value = any(ev[0] == "ret" and ev[1] is not None for ev in p)
        if len(inv) != 1:
            # paths that return a member access (pointer to data member) are not calls
            if len(inv) == 0 and returns_value and any(
                    ev[0] == "ret" and ev[1] is not None and astx.strip_casts(ev[1]).get("k") == "bin" and
                    astx.strip_casts(ev[1]).get("op") in (".*", "->*") for ev in p):
                continue
            problems.append(("invocation-count", "a path invokes the target %d times (%s)" % (
                len(inv), ", ".join(astx.show(c, 50) for c in inv) or "no call"), inv[0] if inv else None))
            break
    packs, uses = pack_uses(f)
    for n, us in uses.items():
        # a pack must be expanded exactly once on each path; structurally: once per exclusive branch
        per_path_max = 0
        for p in ps:
            cnt = 0
            for ev in p:
                for e in SP.event_exprs(ev):
                    for x in astx.walk_expr(e, into_lambdas=True):
                        if x.get("k") == "pack" and any(y.get("k") == "ref" and y["n"] == n for y in astx.walk_expr(x["e"], into_lambdas=True)):
                            cnt += 1
            per_path_max = max(per_path_max, cnt)
            if cnt != 1 and p and any(invocations_on_path(p, fields, params)):
                problems.append(("pack-forwarding", "parameter pack `%s` is expanded %d times on a path" % (n, cnt), None))
                break
        forms = set(fm for fm, _ in us)
        if packs[n]["ty"].endswith("&&...") and forms - {"forward"}:
            problems.append(("pack-forwarding", "forwarding-reference pack `%s` is passed on without etl::forward" % n, None))
    # value category of stored members
    rq = f.get("refq", "")
    for name, moved, call in member_value_categories(f, fields):
        if rq == "&&" and not moved:
            problems.append(("value-category", "rvalue-qualified overload passes member `%s` as an lvalue" % name, call))
        if rq in ("&", "") and moved and f.get("kind") == "method" and f["n"] == "operator()":
            problems.append(("value-category", "lvalue-qualified overload moves from member `%s`" % name, call))
    # result returned unchanged / negated exactly once
    for st in astx.walk_stmts(f["body"]):
        if st.get("k") == "return" and st.get("e") is not None:
            e = astx.strip_casts(st["e"])
            negs = 0
            while e is not None and e.get("k") == "un" and e["op"] == "!":
                negs += 1
                e = astx.strip_casts(e["e"])
            if negated and negs != 1:
                problems.append(("result", "the result is negated %d times" % negs, st))
            if not negated and negs:
                problems.append(("result", "the result is negated", st))
    ok = not problems
    chk.obligation(rule, construct, ok, evaluations=len(ps))
    for kind, msg, node in problems[:3]:
        chk.violation(rule, construct, kind, "%s: %s" % (astx.loc(f, node if isinstance(node, dict) else None), msg), {"where": astx.loc(f)})
    if ok:
        chk.sample({"wrapper": construct, "paths": len(ps), "packs": sorted(packs)})
