"""Rule PARAM: every named parameter of a function in the property's area is consulted by the function.

A named parameter that is never read cannot influence the result: a delegating overload that drops an argument
(`rfind(s, pos)` calling `rfind(view(s))`) computes a different function. Unnamed parameters and tag types are exempt.
The library names exactly the parameters it uses (one tag parameter in 3.8k is the only exception on the pinned tree).
"""
import re

from .. import astx

TAG = re.compile(r"(_t|_tag|tag|_arg)$")


def check(chk, db, prefixes, rule="PARAM", floor=20):
    n = 0
    for f in db.funcs:
        if not any(f["file"].startswith(p) for p in prefixes) or f.get("body") is None:
            continue
        named = [p for p in f["params"] if p.get("n")]
        if not named:
            continue
        used = set()
        for x in astx.all_exprs(f, into_lambdas=True):
            if x.get("k") == "ref":
                used.add(x["n"])
            if x.get("k") == "pack":
                for y in astx.walk_expr(x.get("e"), into_lambdas=True):
                    if y.get("k") == "ref":
                        used.add(y["n"])
        n += 1
        construct = astx.sig(f)
        chk.instance(rule)
        unused = []
        for p in named:
            ty = p["ty"].replace("const ", "").replace("&", "").strip()
            if p["n"] in used or TAG.search(ty.split("::")[-1].split("<")[0]):
                continue
            unused.append(p)
        chk.obligation(rule, construct, not unused, evaluations=len(named))
        for p in unused[:1]:
            chk.violation(rule, construct, "parameter-ignored", "%s: the parameter `%s` (%s) is never read: the result cannot depend on it" % (
                astx.loc(f), p["n"], p["ty"]), {"where": astx.loc(f)})
    if n < floor:
        chk.analysis_broken("%s: only %d functions with named parameters in %s (floor %d)" % (rule, n, ", ".join(prefixes), floor))
    return n
