"""Rule INITFORM: a value of a template-parameter type that is built from a forwarded argument pack is
direct-non-list-initialised (`T(args...)`, `::new (p) T(args...)`), as the standard specifies for emplace / in_place
construction, construct_at and make_from_tuple. `T{args...}` selects an initializer_list constructor when T has one that
fits (make_from_tuple<vector<int>>(tuple{3, 7}) would hold {3, 7} instead of three sevens) and rejects narrowing.
Only sites whose argument list contains a pack expansion are instances: a fixed-arity `T{}` / `T{x}` is not judged."""
from .. import astx


def _has_pack(args):
    for a in args:
        if a is None:
            continue
        if a.get("k") == "pack":
            return True
    return False


def check(chk, db, prefixes, rule="INITFORM", floor=0):
    n = 0
    for f in db.funcs:
        if not any(f["file"].startswith(p) for p in prefixes):
            continue
        tps = set(tp["n"] for tp in (f.get("tparams") or []) if tp.get("k") == "type")
        rec = db.record(f["record"]) if f.get("record") else None
        if rec:
            tps |= set(tp.get("n") for tp in (rec.get("tparams") or []) if tp.get("k") == "type")
        for x in astx.all_exprs(f, into_lambdas=True):
            k = x.get("k")
            ty = (x.get("ty") or "").replace("const ", "").strip()
            if ty not in tps:
                continue
            listed = None
            if k in ("construct", "cast") and "list" in x:
                args = x.get("a") or ([x.get("e")] if x.get("e") is not None else [])
                if len(args) == 1 and args[0] is not None and args[0].get("k") == "initlist":
                    args = args[0].get("a", [])
                if _has_pack(args):
                    listed = bool(x["list"])
            elif k == "new" and x.get("init") is not None:
                ini = x["init"]
                if ini.get("k") in ("parenlist", "initlist") and _has_pack(ini.get("a", [])):
                    listed = ini.get("k") == "initlist"
            if listed is None:
                continue
            n += 1
            label = "%s :: `%s`" % (astx.sig(f), astx.show(x, 60))
            chk.instance(rule)
            chk.obligation(rule, label, not listed)
            if listed:
                chk.violation(rule, label, "list-initialised", "%s: `%s` list-initialises a `%s` from a forwarded pack; the standard "
                              "specifies direct-non-list-initialisation (an initializer_list constructor of %s would be preferred)" % (
                                  astx.loc(f, x), astx.show(x, 60), ty, ty), {"where": astx.loc(f)})
    if n < floor:
        chk.analysis_broken("%s: only %d forwarded-pack constructions found in %s (floor %d)" % (rule, n, ", ".join(prefixes), floor))
    return n
