"""Rule family LIFE (DESIGN.md 5 C03): lifecycle typestate of owning types, decided on token paths.

Tokens are derived from primitive effects in the (inlined) guard program of a member function:
  C(root, source)   placement new / construct_at / uninitialized_* into storage of `root`
  D(root)           destructor call / destroy_at / destroy(_n) / ranges::destroy on storage of `root`
  S(root, field)    store to a liveness-state field of `root` (the field the public observers size()/index()/
                    operator bool read)
Calls through function-pointer members (vtable slots) are expanded through the slot's signature, which is derived from
the lambdas that initialise the slot.
"""
from .. import astx
from .. import prog as P
from .. import terms as T

MAX_PATHS = 256


class Tok:
    __slots__ = ("k", "root", "src", "field", "info", "rhs")

    def __init__(self, k, root, src=None, field=None, info=None, rhs=None):
        self.k, self.root, self.src, self.field, self.info, self.rhs = k, root, src, field, info, rhs

    def __repr__(self):
        if self.k == "C":
            return "C(%s<-%s)" % (self.root, self.src)
        if self.k == "S":
            return "S(%s.%s)" % (self.root, self.field)
        return "%s(%s)" % (self.k, self.root)


def state_fields(db, rec_q):
    """fields the public observers of rec_q (and its possible bases) read: the liveness state."""
    out = set()
    for rq in db.lineage(rec_q):
        for name in ("size", "index", "has_value", "get_size", "operator bool", "empty"):
            for f in db.by_q.get(rq + "::" + name, []):
                e = T.one_line_return(f)
                for x in astx.walk_expr(e):
                    if x.get("k") == "mem" and astx.is_this(x.get("b")) and x.get("dk") == "field":
                        out.add(x["n"])
    return out


def slot_signatures(db):
    """(record, field) -> list of signatures; a signature is a list of (kind, dst param index, src param index)."""
    sigs = {}
    for f in db.funcs:
        if f.get("kind") != "ctor":
            continue
        for ini in f.get("inits") or []:
            if not ini.get("field"):
                continue
            lam = None
            for x in astx.walk_expr(ini.get("e"), into_lambdas=False):
                if x.get("k") == "lambda":
                    lam = x
                    break
            if lam is None:
                continue
            pseudo = {"q": f["record"] + "::" + ini["field"], "n": ini["field"], "file": f["file"], "line": lam.get("line"),
                      "params": [dict(p, n=p["n"] or ("p%d" % i)) for i, p in enumerate(lam.get("params", []))],
                      "body": lam["body"], "kind": "function", "tparams": []}
            names = [p["n"] for p in pseudo["params"]]
            b = P.Builder(db, max_depth=2)
            try:
                prog, ctx = b.build(pseudo)
            except Exception:
                continue
            toks = []
            for nd in P.flatten(prog):
                if nd[0] == "effect" and nd[2].get("token") in ("construct", "destroy"):
                    r = nd[2].get("root")
                    s = nd[2].get("source_root")
                    toks.append(("C" if nd[2]["token"] == "construct" else "D",
                                 names.index(r) if r in names else None, names.index(s) if s in names else None))
                elif nd[0] == "effect" and nd[2].get("opaque") and nd[2].get("callable") is None and "call" in (nd[2].get("what") or ""):
                    toks.append(("CALL", None, None))
            sigs.setdefault((f["record"], ini["field"]), []).append(toks)
    return sigs


def self_comparison(c, alias_param):
    """+1 if the condition is `this == &p` (true under aliasing), -1 for `this != &p`, 0 otherwise."""
    neg = 1
    e = c
    while e is not None and e.get("k") == "un" and e["op"] == "!":
        neg = -neg
        e = e["e"]
    if e is None or e.get("k") != "bin" or e["op"] not in ("==", "!="):
        return 0
    sides = [astx.strip_casts(e["l"]), astx.strip_casts(e["r"])]

    def is_this(x):
        return x is not None and x.get("k") == "this"

    def is_addr(x):
        if x is None:
            return False
        if x.get("k") == "un" and x["op"] == "&":
            y = astx.strip_casts(x["e"])
            return y is not None and y.get("k") == "ref" and y["n"] == alias_param
        if x.get("k") == "call" and astx.callee(x)[0] == "addressof" and x["a"]:
            y = astx.strip_casts(x["a"][0])
            return y is not None and y.get("k") == "ref" and y["n"] == alias_param
        return False
    if (is_this(sides[0]) and is_addr(sides[1])) or (is_this(sides[1]) and is_addr(sides[0])):
        return neg if e["op"] == "==" else -neg
    return 0


def token_paths(prog, sigs, owner_state, alias_param=None):
    """Enumerate token sequences along the structural paths of a program (if: both arms, loop: zero or one
    iteration). Returns (paths, truncated)."""
    paths = [[]]
    truncated = False

    def extend(ps, toks):
        return [p + toks for p in ps]

    def walk(nodes, ps):
        nonlocal truncated
        live = ps           # paths still running
        done = []           # paths ended by return
        for nd in nodes:
            if not live:
                break
            k = nd[0]
            if k == "effect":
                info = nd[2]
                tk = info.get("token")
                if tk == "construct":
                    live = extend(live, [Tok("C", info.get("root"), info.get("source_root"), info=info)])
                elif tk == "destroy":
                    live = extend(live, [Tok("D", info.get("root"), info=info)])
                elif tk == "state" and info.get("field"):
                    live = extend(live, [Tok("S", info.get("root"), field=info["field"], info=info, rhs=info.get("rhs"))])
                elif info.get("slot"):
                    cand = sigs.get((info.get("slot_record"), info["slot"]), [])
                    sig = max(cand, key=len) if cand else None
                    if sig is None:
                        live = extend(live, [Tok("?", info.get("slot_holder"), info=info)])
                    else:
                        args = info.get("slot_args", [])
                        toks = []
                        for (kk, d, s) in sig:
                            if kk == "CALL":
                                toks.append(Tok("CALL", args[0] if args else "?", info=info))
                            else:
                                toks.append(Tok(kk, args[d] if d is not None and d < len(args) else "?",
                                                args[s] if s is not None and s < len(args) else None, info=info))
                        live = extend(live, toks)
                elif info.get("algorithm") in ("swap", "exchange") and info.get("call"):
                    # etl::swap(a.f, b.f) / exchange(a.f, v): state stores
                    for a in info["call"]["a"][:2 if info["algorithm"] == "swap" else 1]:
                        a0 = astx.strip_casts(a)
                        if a0 is not None and a0.get("k") == "mem":
                            root = "this" if astx.is_this(a0.get("b")) else astx.show(a0.get("b"))
                            live = extend(live, [Tok("S", root, field=a0["n"], info=info)])
                elif info.get("opaque"):
                    live = extend(live, [Tok("?", "?", info=info)])
            elif k == "inline":
                l2, d2 = walk(nd[2], live)
                live = l2 + d2      # a return inside the callee only ends the callee
            elif k == "branch":
                sc = self_comparison(nd[4].get("cond_ast"), alias_param) if alias_param else 0
                if sc > 0:
                    a_l, a_d = walk(nd[2], live)
                    b_l, b_d = [], []
                elif sc < 0:
                    a_l, a_d = [], []
                    b_l, b_d = walk(nd[3], live)
                else:
                    a_l, a_d = walk(nd[2], live)
                    b_l, b_d = walk(nd[3], live)
                live = a_l + b_l
                done += a_d + b_d
            elif k == "loop":
                a_l, a_d = walk(nd[2], live)
                live = live + a_l
                done += a_d
            elif k == "ret":
                done += live
                live = []
            if len(live) + len(done) > MAX_PATHS:
                truncated = True
                live = live[:MAX_PATHS // 2]
                done = done[:MAX_PATHS // 2]
        return live, done

    live, done = walk(prog, paths)
    return live + done, truncated


def show_path(p):
    return " ".join(repr(t) for t in p) or "(no lifecycle effect)"


def build(db, f, depth=4):
    b = P.Builder(db, max_depth=depth, versioning=False)
    prog, ctx = b.build(f)
    return prog, b


def member_functions(db, rec_q):
    return [f for f in db.funcs if f.get("record") == rec_q]


def const_source_rule(chk, db, sigs, rule="SRC"):
    """SRC: a member whose source parameter is a const lvalue reference to (an instance of) its own class template leaves the
    source's lifetime state alone: it never uses a function-pointer slot whose derived signature destroys its *source*
    operand (relocation). Slots are those found by slot_signatures(); uses are calls through the slot or the slot being
    passed on as a value (delegating constructors)."""
    destroying = {}
    for (rec, field), variants in sigs.items():
        for v in variants:
            for kind, a, b in v:
                if kind == "D" and a is not None and a >= 1:
                    destroying.setdefault(field, set()).add(rec)
    n = 0
    if not destroying:
        chk.analysis_broken("%s: no slot with a source-destroying signature derived (relocate slot vanished?)" % rule)
        return 0
    owners = set()
    for f in db.funcs:
        for x in astx.all_exprs(f):
            if x.get("k") == "mem" and x.get("n") in destroying and f.get("record"):
                owners.add(f["record"])
    for f in db.funcs:
        rec = f.get("record")
        if rec not in owners or (f.get("body") is None and not f.get("inits")):
            continue
        base = rec.split("::")[-1].split("<")[0]
        src = [p["n"] for p in f["params"] if base + "<" in p["ty"].replace(" ", "") or p["ty"].replace("const ", "").replace("&", "").strip() == base]
        consts = [p["n"] for p in f["params"] if p["n"] in src and p["ty"].strip().startswith("const ") and p["ty"].strip().endswith("&")
                  and not p["ty"].strip().endswith("&&")]
        if not consts:
            continue
        n += 1
        construct = astx.sig(f)
        chk.instance(rule)
        bad = None
        for x in astx.all_exprs(f):
            if x.get("k") == "mem" and x.get("n") in destroying:
                bad = x
                break
        chk.obligation(rule, construct, bad is None)
        if bad is not None:
            chk.violation(rule, construct, "const-source-relocated",
                          "%s: `%s` is used in a member whose source `%s` is a const reference; the slot's signature %s destroys its source operand" % (
                              astx.loc(f, bad), astx.show(bad, 40), consts[0],
                              [list(t) for v in sigs[(sorted(destroying[bad["n"]])[0], bad["n"])] for t in v]), {"where": astx.loc(f)})
    return n
