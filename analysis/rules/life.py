"""Rule family LIFE (DESIGN.md 5 C03): lifecycle typestate of owning types, decided on token paths.

Tokens are derived from primitive effects in the (inlined) guard program of a member function:
  C(root, source)   placement new / construct_at / uninitialized_* into storage of `root`
  D(root)           destructor call / destroy_at / destroy(_n) / ranges::destroy on storage of `root`
  S(root, field)    store to a liveness-state field of `root` (the field the public observers size()/index()/
                    operator bool read)
Calls through function-pointer members (vtable slots) are expanded through the slot's signature, which is derived from
the lambdas that initialise the slot.
"""
from .. import astx
from .. import prog as P
from .. import terms as T

MAX_PATHS = 256


class Tok:
    __slots__ = ("k", "root", "src", "field", "info", "rhs")

    def __init__(self, k, root, src=None, field=None, info=None, rhs=None):
        self.k, self.root, self.src, self.field, self.info, self.rhs = k, root, src, field, info, rhs

    def __repr__(self):
        if self.k == "C":
            return "C(%s<-%s)" % (self.root, self.src)
        if self.k == "S":
            return "S(%s.%s)" % (self.root, self.field)
        return "%s(%s)" % (self.k, self.root)


def state_fields(db, rec_q):
    """fields the public observers of rec_q (and its possible bases) read: the liveness state."""
    out = set()
    for rq in db.lineage(rec_q):
        for name in ("size", "index", "has_value", "get_size", "operator bool", "empty"):
            for f in db.by_q.get(rq + "::" + name, []):
                e = T.one_line_return(f)
                for x in astx.walk_expr(e):
                    if x.get("k") == "mem" and astx.is_this(x.get("b")) and x.get("dk") == "field":
                        out.add(x["n"])
    return out


def slot_signatures(db):
    """(record, field) -> list of signatures; a signature is a list of (kind, dst param index, src param index)."""
    sigs = {}
    for f in db.funcs:
        if f.get("kind") != "ctor":
            continue
        for ini in f.get("inits") or []:
            if not ini.get("field"):
                continue
            lam = None
            for x in astx.walk_expr(ini.get("e"), into_lambdas=False):
                if x.get("k") == "lambda":
                    lam = x
                    break
            if lam is None:
                continue
            pseudo = {"q": f["record"] + "::" + ini["field"], "n": ini["field"], "file": f["file"], "line": lam.get("line"),
                      "params": [dict(p, n=p["n"] or ("p%d" % i)) for i, p in enumerate(lam.get("params", []))],
                      "body": lam["body"], "kind": "function", "tparams": []}
            names = [p["n"] for p in pseudo["params"]]
            b = P.Builder(db, max_depth=2)
            try:
                prog, ctx = b.build(pseudo)
            except Exception:
                continue
            toks = []
            for nd in P.flatten(prog):
                if nd[0] == "effect" and nd[2].get("token") in ("construct", "destroy"):
                    r = nd[2].get("root")
                    s = nd[2].get("source_root")
                    toks.append(("C" if nd[2]["token"] == "construct" else "D",
                                 names.index(r) if r in names else None, names.index(s) if s in names else None))
                elif nd[0] == "effect" and nd[2].get("opaque") and nd[2].get("callable") is None and "call" in (nd[2].get("what") or ""):
                    toks.append(("CALL", None, None))
            sigs.setdefault((f["record"], ini["field"]), []).append(toks)
    return sigs


def self_comparison(c, alias_param):
    """+1 if the condition is `this == &p` (true under aliasing), -1 for `this != &p`, 0 otherwise."""
    neg = 1
    e = c
    while e is not None and e.get("k") == "un" and e["op"] == "!":
        neg = -neg
        e = e["e"]
    if e is None or e.get("k") != "bin" or e["op"] not in ("==", "!="):
        return 0
    sides = [astx.strip_casts(e["l"]), astx.strip_casts(e["r"])]

    def is_this(x):
        return x is not None and x.get("k") == "this"

    def is_addr(x):
        if x is None:
            return False
        if x.get("k") == "un" and x["op"] == "&":
            y = astx.strip_casts(x["e"])
            return y is not None and y.get("k") == "ref" and y["n"] == alias_param
        if x.get("k") == "call" and astx.callee(x)[0] == "addressof" and x["a"]:
            y = astx.strip_casts(x["a"][0])
            return y is not None and y.get("k") == "ref" and y["n"] == alias_param
        return False
    if (is_this(sides[0]) and is_addr(sides[1])) or (is_this(sides[1]) and is_addr(sides[0])):
        return neg if e["op"] == "==" else -neg
    return 0


def token_paths(prog, sigs, owner_state, alias_param=None):
    """Enumerate token sequences along the structural paths of a program (if: both arms, loop: zero or one
    iteration). Returns (paths, truncated)."""
    paths = [[]]
    truncated = False

    def extend(ps, toks):
        return [p + toks for p in ps]

    def walk(nodes, ps):
        nonlocal truncated
        live = ps           # paths still running
        done = []           # paths ended by return
        for nd in nodes:
            if not live:
                break
            k = nd[0]
            if k == "effect":
                info = nd[2]
                tk = info.get("token")
                if tk == "construct":
                    live = extend(live, [Tok("C", info.get("root"), info.get("source_root"), info=info)])
                elif tk == "destroy":
                    live = extend(live, [Tok("D", info.get("root"), info=info)])
                elif tk == "state" and info.get("field"):
                    live = extend(live, [Tok("S", info.get("root"), field=info["field"], info=info, rhs=info.get("rhs"))])
                elif info.get("slot"):
                    cand = sigs.get((info.get("slot_record"), info["slot"]), [])
                    sig = max(cand, key=len) if cand else None
                    if sig is None:
                        live = extend(live, [Tok("?", info.get("slot_holder"), info=info)])
                    else:
                        args = info.get("slot_args", [])
                        toks = []
                        for (kk, d, s) in sig:
                            if kk == "CALL":
                                toks.append(Tok("CALL", args[0] if args else "?", info=info))
                            else:
                                toks.append(Tok(kk, args[d] if d is not None and d < len(args) else "?",
                                                args[s] if s is not None and s < len(args) else None, info=info))
                        live = extend(live, toks)
                elif info.get("algorithm") in ("swap", "exchange") and info.get("call"):
                    # etl::swap(a.f, b.f) / exchange(a.f, v): state stores
                    for a in info["call"]["a"][:2 if info["algorithm"] == "swap" else 1]:
                        a0 = astx.strip_casts(a)
                        if a0 is not None and a0.get("k") == "mem":
                            root = "this" if astx.is_this(a0.get("b")) else astx.show(a0.get("b"))
                            live = extend(live, [Tok("S", root, field=a0["n"], info=info)])
                elif info.get("opaque"):
                    live = extend(live, [Tok("?", "?", info=info)])
            elif k == "inline":
                l2, d2 = walk(nd[2], live)
                live = l2 + d2      # a return inside the callee only ends the callee
            elif k == "branch":
                sc = self_comparison(nd[4].get("cond_ast"), alias_param) if alias_param else 0
                if sc > 0:
                    a_l, a_d = walk(nd[2], live)
                    b_l, b_d = [], []
                elif sc < 0:
                    a_l, a_d = [], []
                    b_l, b_d = walk(nd[3], live)
                else:
                    a_l, a_d = walk(nd[2], live)
                    b_l, b_d = walk(nd[3], live)
                live = a_l + b_l
                done += a_d + b_d
            elif k == "loop":
                a_l, a_d = walk(nd[2], live)
                live = live + a_l
                done += a_d
            elif k == "ret":
                done += live
                live = []
            if len(live) + len(done) > MAX_PATHS:
                truncated = True
                live = live[:MAX_PATHS // 2]
                done = done[:MAX_PATHS // 2]
        return live, done

    live, done = walk(prog, paths)
    return live + done, truncated


def show_path(p):
    return " ".join(repr(t) for t in p) or "(no lifecycle effect)"


def build(db, f, depth=4):
    b = P.Builder(db, max_depth=depth, versioning=False)
    prog, ctx = b.build(f)
    return prog, b


def member_functions(db, rec_q):
    return [f for f in db.funcs if f.get("record") == rec_q]


def const_source_rule(chk, db, sigs, rule="SRC"):
    """SRC: a member whose source parameter is a const lvalue reference to (an instance of) its own class template leaves the
    source's lifetime state alone: it never uses a function-pointer slot whose derived signature destroys its *source*
    operand (relocation). Slots are those found by slot_signatures(); uses are calls through the slot or the slot being
    passed on as a value (delegating constructors)."""
    destroying = {}
    for (rec, field), variants in sigs.items():
        for v in variants:
            for kind, a, b in v:
                if kind == "D" and a is not None and a >= 1:
                    destroying.setdefault(field, set()).add(rec)
    n = 0
    if not destroying:
        chk.analysis_broken("%s: no slot with a source-destroying signature derived (relocate slot vanished?)" % rule)
        return 0
    owners = set()
    for f in db.funcs:
        for x in astx.all_exprs(f):
            if x.get("k") == "mem" and x.get("n") in destroying and f.get("record"):
                owners.add(f["record"])
    for f in db.funcs:
        rec = f.get("record")
        if rec not in owners or (f.get("body") is None and not f.get("inits")):
            continue
        base = rec.split("::")[-1].split("<")[0]
        src = [p["n"] for p in f["params"] if base + "<" in p["ty"].replace(" ", "") or p["ty"].replace("const ", "").replace("&", "").strip() == base]
        consts = [p["n"] for p in f["params"] if p["n"] in src and p["ty"].strip().startswith("const ") and p["ty"].strip().endswith("&")
                  and not p["ty"].strip().endswith("&&")]
        if not consts:
            continue
        n += 1
        construct = astx.sig(f)
        chk.instance(rule)
        bad = None
        for x in astx.all_exprs(f):
            if x.get("k") == "mem" and x.get("n") in destroying:
                bad = x
                break
        chk.obligation(rule, construct, bad is None)
        if bad is not None:
            chk.violation(rule, construct, "const-source-relocated",
                          "%s: `%s` is used in a member whose source `%s` is a const reference; the slot's signature %s destroys its source operand" % (
                              astx.loc(f, bad), astx.show(bad, 40), consts[0],
                              [list(t) for v in sigs[(sorted(destroying[bad["n"]])[0], bad["n"])] for t in v]), {"where": astx.loc(f)})
    return n


# ---- VT: the vtable through which a slot is called describes the object in the storage it is applied to -----------
class _VTState:
    def __init__(self, is_ctor, others):
        self.vt = {"this": None if is_ctor else "A"}
        self.content = {"this": "EMPTY" if is_ctor else "A"}
        for i, o in enumerate(others):
            tag = "B" if i == 0 else "B%d" % i
            self.vt[o] = tag
            self.content[o] = tag
        self.locals = {}          # local storage objects -> content
        self.problems = []


def vt_rule(chk, db, sigs, rule="VT"):
    """Owners that dispatch through a table of function pointers (`_vtable->slot(storage, ...)`): an abstract interpretation
    of every constructor / assignment / swap / destructor over (vtable value per object, content tag per storage) in
    evaluation order. A slot taken from vtable V may only be applied to a source storage whose content is described by V,
    and at every exit each object's vtable describes its own storage. Finds slots read after the vtable was exchanged, and
    relocations through the partner's vtable."""
    slot_fields = {}
    for (rec, field), variants in sigs.items():
        if any(v for v in variants):
            slot_fields.setdefault(field, []).extend(variants)
    slot_names = set(n for n, v in slot_fields.items() if any(t[0] in ("C", "D") for var in v for t in var))
    if not slot_names:
        chk.analysis_broken("%s: no construct/destroy slots derived" % rule)
        return 0
    owners = set()
    for f in db.funcs:
        if f.get("record") and any(x.get("k") == "mem" and x.get("n") in slot_names for x in astx.all_exprs(f)):
            owners.add(f["record"])
    n = 0
    for f in db.funcs:
        rec = f.get("record")
        if rec not in owners or (f.get("body") is None):
            continue
        if f["n"] not in ("<ctor>", "<dtor>", "operator=", "swap"):
            continue
        base = rec.split("::")[-1].split("<")[0]
        others = [p["n"] for p in f["params"] if base + "<" in p["ty"].replace(" ", "") or p["ty"].replace("const ", "").replace("&", "").strip() == base]
        construct = astx.sig(f)
        n += 1
        chk.instance(rule)
        problems = []
        unknown = None
        is_ctor = f["n"] == "<ctor>"

        def obj_of(e):
            """'this' | other name | local name for an expression designating an owner object or storage"""
            e = astx.strip_casts(e)
            if e is None:
                return None
            if astx.is_this(e):
                return "this"
            if e.get("k") == "ref":
                return e["n"]
            return None

        def storage_of(e, st):
            """object name whose storage the expression addresses: addressof(_storage) / addressof(other._storage) / addressof(tmp)"""
            e = astx.strip_casts(e)
            if e is None:
                return None
            if e.get("k") == "call" and astx.callee(e)[0] == "addressof" and e["a"]:
                return storage_of(e["a"][0], st)
            if e.get("k") == "un" and e.get("op") == "&":
                return storage_of(e["e"], st)
            if e.get("k") == "mem" and "storage" in e.get("n", ""):
                return obj_of(e.get("b")) if not astx.is_this(e.get("b")) else "this"
            if e.get("k") == "ref" and e["n"] in st.locals:
                return e["n"]
            if e.get("k") == "ref" and e.get("d") == "param":
                return ("param", e["n"])
            return None

        def vt_eval(e, st):
            """symbolic vtable value of an expression (with side effects of exchange)"""
            e = astx.strip_casts(e)
            if e is None:
                return None
            k = e.get("k")
            if k in ("initlist", "parenlist", "construct") and len(e.get("a", [])) == 1:
                return vt_eval(e["a"][0], st)
            if k == "mem" and "vtable" in e.get("n", ""):
                o = "this" if astx.is_this(e.get("b")) else obj_of(e.get("b"))
                return st.vt.get(o, "?")
            if k == "call":
                nm = astx.callee(e)[0]
                if nm == "exchange" and len(e["a"]) == 2:
                    tgt = astx.strip_casts(e["a"][0])
                    old = vt_eval(tgt, st)
                    new = vt_eval(e["a"][1], st)
                    if tgt is not None and tgt.get("k") == "mem":
                        o = "this" if astx.is_this(tgt.get("b")) else obj_of(tgt.get("b"))
                        st.vt[o] = new
                    return old
                if nm == "addressof" and e["a"]:
                    txt = astx.show(e["a"][0], 60)
                    if "empty_vtable" in txt:
                        return "EMPTY"
                    a0 = astx.strip_casts(e["a"][0])
                    if a0 is not None and a0.get("k") == "ref":
                        return "V:" + a0["n"]
                    return "?"
                if nm in ("move", "forward") and e["a"]:
                    return vt_eval(e["a"][0], st)
            if k == "ref" and e.get("d") == "param":
                return ("param", e["n"])
            return "?"

        def apply_slot(vt, slot, args, st, node):
            sig = None
            for var in slot_fields.get(slot, []):
                if var:
                    sig = var
            if sig is None:
                return
            if vt in (None, "?") or isinstance(vt, tuple):
                return
            stor = [storage_of(a, st) for a in args]
            for kind, a, b in sig:
                if kind == "CALL":
                    continue

                def content(s):
                    if s is None or isinstance(s, tuple):
                        return "?"
                    return st.locals.get(s) if s in st.locals else st.content.get(s, "?")

                def setc(s, v):
                    if s is None or isinstance(s, tuple):
                        return
                    if s in st.locals:
                        st.locals[s] = v
                    else:
                        st.content[s] = v
                if kind == "C" and a is not None and b is not None and a < len(stor) and b < len(stor):
                    src = content(stor[b])
                    if src not in ("?",) and vt != src and not (vt == "EMPTY" and src == "EMPTY"):
                        problems.append((node, "`%s` is taken from the vtable of %s but is applied to a storage that holds %s" % (
                            slot, _vt_name(vt), _vt_name(src))))
                    setc(stor[a], vt if vt != "EMPTY" else "EMPTY")
                elif kind == "D" and a is not None and a < len(stor):
                    cur = content(stor[a])
                    if cur not in ("?",) and vt != cur:
                        problems.append((node, "`%s` of the vtable of %s destroys a storage that holds %s" % (slot, _vt_name(vt), _vt_name(cur))))
                    setc(stor[a], "EMPTY")

        def visit(e, st):
            """evaluate an expression for its effects, arguments left to right"""
            e0 = astx.strip_casts(e)
            if e0 is None:
                return
            k = e0.get("k")
            if k == "call":
                fn = e0["f"]
                nm = astx.callee(e0)[0]
                if fn.get("k") == "mem" and fn.get("n") in slot_fields:
                    vt = vt_eval(fn.get("b"), st)
                    for a in e0["a"]:
                        visit(a, st)
                    apply_slot(vt, fn["n"], e0["a"], st, e0)
                    return
                if fn.get("k") == "ref" and fn.get("d") == "param" and fn.get("n") in st.locals.get("__slots__", {}):
                    vt, slot = st.locals["__slots__"][fn["n"]]
                    apply_slot(vt, slot, e0["a"], st, e0)
                    return
                if nm == "swap" and len(e0["a"]) == 2:
                    a, b = astx.strip_casts(e0["a"][0]), astx.strip_casts(e0["a"][1])
                    if a is not None and b is not None and a.get("k") == "mem" and b.get("k") == "mem" and "vtable" in a.get("n", ""):
                        oa = "this" if astx.is_this(a.get("b")) else obj_of(a.get("b"))
                        ob = "this" if astx.is_this(b.get("b")) else obj_of(b.get("b"))
                        st.vt[oa], st.vt[ob] = st.vt.get(ob, "?"), st.vt.get(oa, "?")
                        return
                if nm == "exchange":
                    vt_eval(e0, st)
                    return
                for a in e0["a"]:
                    visit(a, st)
                # a private helper of the same object (destroy_target()): its single path is interpreted in place
                own_call = (fn.get("k") == "mem" and astx.is_this(fn.get("b"))) or (fn.get("k") == "ref" and fn.get("d") in ("unresolved", "CXXMethod"))
                if own_call and nm and nm not in ("<ctor>", "<dtor>", "operator=", "swap") and getattr(st, "depth", 0) < 2:
                    helpers = [g for g in db.methods(rec, nm) if g.get("body") is not None and len(g["params"]) == len(e0["a"]) and not g["params"]]
                    if len(helpers) == 1:
                        from . import sets as SP2
                        hp = SP2.paths(helpers[0]["body"])
                        if len(hp) == 1:
                            st.depth = getattr(st, "depth", 0) + 1
                            for ev in hp[0]:
                                for ee in SP2.event_exprs(ev):
                                    visit(ee, st)
                            st.depth -= 1
                return
            if k == "bin" and e0["op"] == "=":
                l = astx.strip_casts(e0["l"])
                if l is not None and l.get("k") == "mem" and "vtable" in l.get("n", ""):
                    v = vt_eval(e0["r"], st)
                    o = "this" if astx.is_this(l.get("b")) else obj_of(l.get("b"))
                    st.vt[o] = v
                    return
                visit(e0["r"], st)
                return
            if k == "new" and e0.get("placement"):
                s = storage_of(e0["placement"][0], st)
                if s == "this":
                    st.content["this"] = "NEW"
                return
            for c in astx.children(e0):
                visit(c, st)

        from . import sets as SP_
        for p in SP_.paths(f["body"]):
            st = _VTState(is_ctor, others)
            # member initialisers, in order
            for ini in (f.get("inits") or []) if is_ctor else []:
                e = ini.get("e")
                args = e.get("a", []) if e is not None else []
                if ini.get("field") and "vtable" in ini["field"]:
                    st.vt["this"] = vt_eval(e, st)
                elif not ini.get("field") and len(args) == 3:
                    # delegation to the private (vtable, process, storage) constructor: arguments left to right
                    v1 = vt_eval(args[0], st)
                    pr = astx.strip_casts(args[1])
                    slot = None
                    if pr is not None and pr.get("k") == "mem" and pr.get("n") in slot_fields:
                        slot = (vt_eval(pr.get("b"), st), pr["n"])
                    st.vt["this"] = v1
                    if slot:
                        apply_slot(slot[0], slot[1], [{"k": "mem", "n": "_storage", "b": {"k": "this"}}, args[2]], st, e)
                    else:
                        unknown = "delegation whose slot argument is not a slot of a vtable"
            slot_params = {}
            for ev in p:
                if ev[0] == "decl":
                    v = ev[1]
                    if "storage" in (v.get("ty") or ""):
                        st.locals[v["n"]] = "EMPTY"
                    elif v.get("init") is not None:
                        visit(v["init"], st)
                    continue
                for e in SP_.event_exprs(ev):
                    visit(e, st)
            # exit: every object's vtable describes its storage; temporaries are empty
            if "NEW" in st.content.values():
                # the closure constructor: placement new of the target + its own static vtable
                if st.vt.get("this") in (None, "?", "EMPTY"):
                    problems.append((None, "a target is constructed but the vtable is %s" % _vt_name(st.vt.get("this"))))
                continue
            for o, v in st.vt.items():
                c = st.content.get(o, "?")
                if v in ("?",) or isinstance(v, tuple) or c == "?":
                    continue
                if f["n"] == "<dtor>" and o == "this":
                    if c != "EMPTY":
                        problems.append((None, "the destructor leaves %s in the storage" % _vt_name(c)))
                    continue
                if v is None:
                    problems.append((None, "the vtable of *this is never set"))
                elif v != c:
                    problems.append((None, "at exit %s has the vtable of %s but its storage holds %s" % (
                        "*this" if o == "this" else "`%s`" % o, _vt_name(v), _vt_name(c))))
            for lname, c in st.locals.items():
                if lname != "__slots__" and c not in ("EMPTY", "?"):
                    problems.append((None, "the temporary storage `%s` still holds %s at exit" % (lname, _vt_name(c))))
        uniq = []
        for node, msg in problems:
            if msg not in [m for _n, m in uniq]:
                uniq.append((node, msg))
        chk.obligation(rule, construct, False if uniq else (None if unknown else True))
        for node, msg in uniq[:2]:
            chk.violation(rule, construct, "vtable-mismatch", "%s: %s" % (astx.loc(f, node if isinstance(node, dict) else None), msg), {"where": astx.loc(f)})
        if not uniq and unknown:
            chk.unknown_instance(rule, construct, unknown)
    return n


def _vt_name(v):
    return {"A": "*this's target", "B": "the source's target", "EMPTY": "nothing (the empty table)", None: "nothing (unset)",
            "NEW": "the newly constructed target"}.get(v, str(v))
