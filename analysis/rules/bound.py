"""Rule family BOUND (DESIGN.md 5 C02-3, C08, C10): every access through a (pointer, length) buffer is in bounds.

At each indexed access `p[e]` / `*(p + e)` whose base designates a registered buffer an obligation `0 <= e < len`
(`<= len` for one-past positions that are only formed, not accessed) is planted in the function's program; the program
is then evaluated over all finite models: first-iteration states can REFUTE (concrete, replayable witness), states of
later iterations are over-approximated by fresh atoms constrained by the loop condition and the back-edge facts and can
only PROVE.
"""
from .. import astx
from .. import prog as P
from .. import terms as T
from . import guard as G


class Site:
    def __init__(self, info, term):
        self.info = info
        self.term = term
        self.verdict = "PROVED"
        self.witness = None
        self.reached = 0


def make_hook(buffers, sites, extra_hook=None):
    """buffers: {root name: (bound term builder(ctx) -> term, description)}"""
    def hook(builder, fr, out, node, access, stmt):
        if access == "range-write":
            return
        if access == "node":
            if extra_hook:
                extra_hook(builder, fr, out, node, stmt, sites)
            return
        k = node.get("k")
        if k == "idx":
            base, idx = node["b"], node["i"]
        else:
            inner = astx.strip_casts(node["e"])
            if inner is not None and inner.get("k") == "bin" and inner["op"] == "+":
                base, idx = inner["l"], inner["r"]
            else:
                return
        root = builder.root(base, fr)
        b0 = astx.strip_casts(base)
        key = None
        if root in buffers and b0 is not None and b0.get("k") == "ref":
            key = root
        elif b0 is not None and b0.get("k") == "mem" and astx.is_this(b0.get("b")) and ("this." + b0["n"]) in buffers:
            key = "this." + b0["n"]
            # only when the frame's receiver is the analysed object
            if fr.ctx.this_name != "this":
                key = None
        if key is None:
            return
        bound = buffers[key][0](fr.ctx)
        # value of the index before its own side effects
        i0 = idx
        if i0.get("k") == "un" and i0["op"] in ("++", "--") and i0.get("postfix"):
            it = builder.term(i0["e"], fr)
        elif i0.get("k") == "un" and i0["op"] in ("++", "--"):
            it = (("+" if i0["op"] == "++" else "-"), builder.term(i0["e"], fr), T.c(1))
        else:
            it = builder.term(i0, fr)
        it = P.simplify(it)
        t = ("cmp", "<", it, bound)
        info = builder.info(fr, stmt if isinstance(stmt, dict) else node, what="%s %s[%s]" % (access, buffers[key][1], astx.show(idx)),
                            buffer=key, access=access, index=T.show(it), bound=T.show(bound))
        base_id = "%s:%s:%s" % (" > ".join(info.get("callpath") or [info["func"]]), access, astx.show(node, 60))
        stmt_key = id(stmt) if stmt is not None else id(node)
        ords = builder.__dict__.setdefault("_site_ord", {})
        seen = ords.setdefault(base_id, [])
        if stmt_key not in seen:
            seen.append(stmt_key)
        info["site_id"] = "%s#%d" % (base_id, seen.index(stmt_key))
        site = Site(info, t)
        sites.append(site)
        out.append(("oblige", t, dict(info, site=len(sites) - 1)))
    return hook


def subst_prog(prog, mapping):
    out = []
    for nd in prog:
        k = nd[0]
        if k in ("guard", "oblige", "assume"):
            out.append((k, T.subst(nd[1], mapping), nd[2]))
        elif k == "branch":
            out.append((k, T.subst(nd[1], mapping), subst_prog(nd[2], mapping), subst_prog(nd[3], mapping), nd[4]))
        elif k == "loop":
            info = dict(nd[6])
            info["back_edge_facts"] = [T.subst(x, mapping) for x in info.get("back_edge_facts", [])]
            out.append((k, T.subst(nd[1], mapping), subst_prog(nd[2], mapping), T.subst(nd[3], mapping),
                        subst_prog(nd[4], mapping), nd[5], info))
        elif k == "inline":
            out.append((k, nd[1], subst_prog(nd[2], mapping), nd[3]))
        else:
            out.append(nd)
    return out


def site_contexts(prog):
    """{site index: set of atom names its reachability/value depends on} (see module docstring)."""
    out = {}

    def walk(nodes, ctx_atoms):
        acc = set(ctx_atoms)
        for nd in nodes:
            k = nd[0]
            if k == "oblige":
                out[nd[2]["site"]] = set(acc) | set(T.atoms(nd[1]))
            elif k in ("guard", "assume"):
                acc |= set(T.atoms(nd[1]))
            elif k == "branch":
                c = set(T.atoms(nd[1]))
                walk(nd[2], acc | c)
                walk(nd[3], acc | c)
                if any(x[0] == "ret" for x in P.flatten(nd[2])) or any(x[0] == "ret" for x in P.flatten(nd[3])):
                    acc |= c
            elif k == "loop":
                c1 = set(T.atoms(nd[1]))
                cg = set(T.atoms(nd[3]))
                for f in nd[6].get("back_edge_facts", []):
                    cg |= set(T.atoms(f))
                walk(nd[2], acc | c1)
                walk(nd[4], acc | cg)
            elif k == "inline":
                acc = walk(nd[2], acc)
        return acc

    walk(prog, set())
    return out


def linked_sort_choices(atom_sorts):
    """sort instantiations for atoms of unknown sort; loop/exit atoms follow their variable."""
    base = dict((n, s) for n, s in atom_sorts.items() if "@" not in n)
    for sc in G.sort_choices(base):
        full = dict(sc)
        for n, s in atom_sorts.items():
            if "@" in n and s == "?":
                v = n.split("@")[0]
                full[n] = sc.get(v, atom_sorts.get(v) if atom_sorts.get(v) not in (None, "?") else "u")
        yield full


def decide(db, func, buffers, static_conds=None, max_depth=3, assume=None, fixed_atoms=None, extra_hook=None):
    """Returns ({site_id: merged site}, number of models evaluated)."""
    variants = G.build_variants(db, func, static_conds or {}, max_depth=max_depth)
    merged = {}
    nmodels = 0
    for choice, _prog, _ctx, _b in variants:
        sites = []
        hook = make_hook(buffers, sites, extra_hook)
        b = P.Builder(db, max_depth=max_depth, static_conds=static_conds or {}, oblige_hook=hook)
        b.choice = dict(choice)
        prog, ctx = b.build(func)
        if fixed_atoms:
            prog = subst_prog(prog, dict((n, T.c(v)) for n, v in fixed_atoms.items()))
        atom_sorts = P.prog_atoms(prog)
        entry = dict((n, s) for n, s in atom_sorts.items() if "#" not in n)
        base_atoms = dict((n, s) for n, s in entry.items() if "@L" not in n and "@X" not in n)
        ctxs = site_contexts(prog)
        clusters = {}
        for si, need in ctxs.items():
            need = frozenset(n for n in need if n in entry)
            clusters.setdefault(need, []).append(si)
        clr_atoms = set(nd[6].get("clr") for nd in P.flatten(prog) if nd[0] == "loop" and nd[6].get("clr"))
        for si, need in ctxs.items():
            gen = set(n for n in need if "@" in n)
            # a generalised state is a real state when it only involves counters of counting loops (see prog.counting_var)
            sites[si].exact_general = bool(gen) and gen <= clr_atoms
        for s in sites:
            s.p1 = {"t": 0, "f": None, "n": None}
            s.p2 = {"t": 0, "f": None, "n": None}
        for sc in linked_sort_choices(entry):
            atoms_i = dict((n, sc.get(n, s)) for n, s in base_atoms.items())
            prog_i = G.inst_prog(prog, sc)
            invs = G.object_invariants(atoms_i) + G.variant_invariants(db, choice) + [T.instantiate_sorts(a, sc) for a in (assume or [])]
            consts = set()
            for nd in P.flatten(prog_i):
                if nd[0] in ("guard", "branch", "oblige"):
                    T.constants_in(nd[1], consts)
            for m in T.models(atoms_i, invs, constants=consts):
                nmodels += 1
                _collect(P.run(prog_i, m), sites, m, False, None)
            for need, members in clusters.items():
                allv = dict((n, sc.get(n, entry[n])) for n in need)
                inv_c = [iv for iv in invs if set(T.atoms(iv)) <= set(allv)]
                for m in T.models(allv, inv_c, constants=consts, limit=120000):
                    nmodels += 1
                    _collect(P.run(prog_i, m, general=True, data_free=True), sites, m, True, set(members))
        for s in sites:
            if s.p1["f"] is not None:
                s.verdict, s.witness = "REFUTED", s.p1["f"]
            elif s.p2["f"] is not None:
                s.verdict, s.witness = "UNKNOWN", "not provable for a later loop iteration / after a loop: " + s.p2["f"]
            elif s.p2["n"] is not None:
                s.verdict, s.witness = "UNKNOWN", "index or bound not expressible: " + s.p2["n"]
            else:
                s.verdict, s.witness = "PROVED", None
            s.variant = G._variant_text(choice)
            sid = s.info["site_id"]
            old = merged.get(sid)
            rank = {"REFUTED": 3, "UNKNOWN": 2, "PROVED": 1}
            if old is None or rank[s.verdict] > rank[old.verdict]:
                s.reached += old.reached if old else 0
                merged[sid] = s
            else:
                old.reached += s.reached
    return merged, nmodels


def _collect(tr, sites, m, general, members):
    for ev in tr.events:
        if ev[0] != "oblige":
            continue
        info, truth, unc = ev[1], ev[2], ev[3]
        if members is not None and info["site"] not in members:
            continue
        s = sites[info["site"]]
        s.reached += 1
        rec = s.p2 if general else s.p1
        if truth is True:
            rec["t"] += 1
        elif truth is None:
            if rec["n"] is None:
                rec["n"] = T.show_model(m)
        else:
            if general and not unc and getattr(s, "exact_general", False):
                if s.p1["f"] is None:
                    s.p1["f"] = T.show_model(m) + " (loop counters range over [init, bound): every such iteration is reached for suitable element values)"
            elif general or unc:
                if s.p2["f"] is None:
                    s.p2["f"] = T.show_model(m)
            elif rec["f"] is None:
                rec["f"] = T.show_model(m)
