"""Arithmetic typestate rules shared by several properties (C02 / C10 / C13 / C17):

NEGMIN   a signed accumulator that the function itself believes may hold numeric_limits<T>::min() (it compares it with
         that value) or whose sign it tests right after negating it, is negated only on paths on which the minimum has been
         excluded. `-min` is signed overflow: undefined at run time, not a constant expression at compile time.
SHRNEG   `x >> n` / `x & mask` used as quotient / remainder of a value that may be negative floors where `/` and `%`
         truncate: a right shift whose left operand is of a signed or template-dependent type needs a dominating sign guard.
ACCTYPE  accumulate / reduce / inner_product / transform_reduce deduce the accumulator from the initial value: an `int`
         literal as initial value over elements of a template-dependent (possibly wider) type narrows every partial result.

All three are decided on the structural paths of the AST (rules/sets.py paths()); expected count on the library is zero, the
positive controls live in fixtures/arith_pos.hpp."""
import re

from .. import astx
from . import sets as SP


def _ref(e):
    e = astx.strip_casts(e)
    while e is not None and e.get("k") == "paren":
        e = astx.strip_casts(e.get("e"))
    if e is not None and e.get("k") == "ref" and e.get("d") in ("param", "local"):
        return e["n"]
    return None


def _is_minus_one(e):
    try:
        return astx.int_value(astx.strip_casts(e)) == -1
    except Exception:
        return False


def _is_zero(e):
    try:
        return astx.int_value(astx.strip_casts(e)) == 0
    except Exception:
        return False


def _is_min(e):
    s = astx.show(e, 120) if e is not None else ""
    return "numeric_limits" in s and re.search(r"::\s*(min|lowest)\s*\(", s) is not None


def negation_of(e):
    """name of the variable negated by expression node e (not recursive), else None"""
    if e is None or not isinstance(e, dict):
        return None
    k = e.get("k")
    if k == "un" and e.get("op") == "-":
        return _ref(e["e"])
    if k == "bin" and e.get("op") == "*=" and _is_minus_one(e["r"]):
        return _ref(e["l"])
    if k == "bin" and e.get("op") == "*":
        if _is_minus_one(e["r"]):
            return _ref(e["l"])
        if _is_minus_one(e["l"]):
            return _ref(e["r"])
    if k == "bin" and e.get("op") == "-" and _is_zero(e["l"]):
        return _ref(e["r"])
    return None


FLIP = {"<": ">", "<=": ">=", ">": "<", ">=": "<=", "==": "==", "!=": "!="}
NEG = {"<": ">=", "<=": ">", ">": "<=", ">=": "<", "==": "!=", "!=": "=="}


def atoms(c, taken):
    """comparisons (op, l, r) known to hold when condition c evaluates to `taken` (conjunctive part only)"""
    c = astx.strip_casts(c)
    while c is not None and c.get("k") == "paren":
        c = astx.strip_casts(c.get("e"))
    if c is None:
        return []
    if c.get("k") == "un" and c.get("op") == "!":
        return atoms(c["e"], not taken)
    if c.get("k") == "bin" and c["op"] == "&&":
        return atoms(c["l"], True) + atoms(c["r"], True) if taken else []
    if c.get("k") == "bin" and c["op"] == "||":
        return atoms(c["l"], False) + atoms(c["r"], False) if not taken else []
    if c.get("k") == "bin" and c["op"] in FLIP:
        return [(c["op"] if taken else NEG[c["op"]], c["l"], c["r"])]
    return []


def all_atoms(c):
    """every comparison inside c regardless of polarity"""
    return [x for x in astx.walk_expr(c) if x.get("k") == "bin" and x.get("op") in FLIP]


def _types(f):
    t = dict((p["n"], p.get("ty", "")) for p in f.get("params", []))
    for s in astx.walk_stmts(f["body"]):
        if s.get("k") == "decl":
            for v in s["vars"]:
                if "n" in v:
                    t[v["n"]] = v.get("ty", "")
        if s.get("k") in ("for", "if") and s.get("init") and s["init"].get("k") == "decl":
            for v in s["init"].get("vars", []):
                if "n" in v:
                    t[v["n"]] = v.get("ty", "")
    return t


UNSIGNED = re.compile(r"\b(unsigned|size_t|size_type|uint\d*_t|uint_least\d+_t|uint_fast\d+_t|uintmax_t|uintptr_t|UInt|bool|byte)\b")
FLOATY = re.compile(r"\b(float|double|Float|Real)\b")


def check_negmin(chk, f, rule="NEGMIN"):
    """returns None (no subject) | list of (var, node, reason) violations (empty = holds)"""
    if f.get("body") is None:
        return None
    negs = {}
    for x in astx.all_exprs(f, into_lambdas=False):
        v = negation_of(x)
        if v:
            negs.setdefault(v, []).append(x)
    if not negs:
        return None
    types = _types(f)
    cands = set(v for v in negs if not UNSIGNED.search(types.get(v, "")) and not FLOATY.search(types.get(v, "")))
    if not cands:
        return None
    # belief: the function compares the variable with numeric_limits<T>::min()
    belief_min = set()
    for x in astx.all_exprs(f, into_lambdas=False):
        if x.get("k") == "bin" and x.get("op") in FLIP:
            for a, b in ((x["l"], x["r"]), (x["r"], x["l"])):
                if _ref(a) in cands and _is_min(b):
                    belief_min.add(_ref(a))
    bad = []
    subj = [bool(belief_min)]
    for p in SP.paths(f["body"]):
        notmin = dict((v, False) for v in cands)
        fresh_neg = {}            # var -> negation node, while no guard / assignment came in between

        def effects(e):
            for x in astx.walk_expr(e):
                v = negation_of(x)
                if v in cands:
                    if not notmin[v]:
                        fresh_neg[v] = x
                        if v in belief_min and not any(b[1] is x for b in bad):
                            bad.append((v, x, "`%s` is negated on a path on which it may still equal numeric_limits<T>::min() "
                                              "(the function itself compares it with that value elsewhere)" % v))
                if x.get("k") == "bin" and x.get("op") in ("=", "+=", "-=", "/=", "%=") or \
                        (x.get("k") == "bin" and x.get("op") == "*=" and negation_of(x) is None):
                    ln = _ref(x["l"])
                    if ln in cands and negation_of(astx.strip_casts(x["r"])) != ln and not \
                            any(negation_of(y) == ln for y in astx.walk_expr(x["r"])):
                        notmin[ln] = False
                        fresh_neg.pop(ln, None)

        for ev in p:
            if ev[0] in ("cond", "backedge-cond"):
                effects(ev[1])
                # a sign / minimum test of a value that was negated unguarded detects the overflow after it has happened
                for x in all_atoms(ev[1]):
                    for a, b in ((x["l"], x["r"]), (x["r"], x["l"])):
                        v = _ref(a)
                        if v in fresh_neg and (_is_zero(b) or _is_min(b)) and not any(bb[1] is fresh_neg[v] for bb in bad):
                            subj[0] = True
                            bad.append((v, fresh_neg[v], "`%s` is negated and only afterwards tested (`%s`): when it holds "
                                                         "numeric_limits<T>::min() the negation has already overflowed"
                                        % (v, astx.show(x, 50))))
                if ev[0] == "cond":
                    for op, l, r in atoms(ev[1], ev[2]):
                        for a, b, o in ((l, r, op), (r, l, FLIP[op])):
                            v = _ref(a)
                            if v not in cands:
                                continue
                            if _is_min(b) and o in ("!=", ">"):
                                notmin[v] = True
                            if _is_zero(b) and o in (">", ">=", "=="):
                                notmin[v] = True
            elif ev[0] == "decl":
                v = ev[1]
                if v.get("init") is not None:
                    effects(v["init"])
                if v.get("n") in cands:
                    notmin[v["n"]] = False
            elif ev[0] in ("expr", "ret") and ev[1] is not None:
                effects(ev[1])
    return bad if (subj[0] or bad) else None


# ---- SHRNEG -----------------------------------------------------------------------------------------------------------------
def check_shrneg(chk, f, rule="SHRNEG"):
    """`x >> n` where x is a parameter / local of a signed or deduced integer type and the same function also divides or
    takes a remainder (the shift stands in for a division): requires `x >= 0` (or `x > 0`, `!(x < 0)`) on the path, or an
    `if constexpr (unsigned...)` / is_unsigned guard. returns None | list of (var, node, reason)"""
    if f.get("body") is None:
        return None
    types = _types(f)
    shifts = []
    for x in astx.all_exprs(f, into_lambdas=False):
        if x.get("k") == "bin" and x.get("op") in (">>", ">>="):
            v = _ref(x["l"])
            if v and not UNSIGNED.search(types.get(v, "")) and not FLOATY.search(types.get(v, "")):
                shifts.append((v, x))
    if not shifts:
        return None
    divides = any(x.get("k") == "bin" and x.get("op") in ("/", "%") for x in astx.all_exprs(f, into_lambdas=False))
    if not divides:
        return None
    bad = []
    node_ids = set(id(x) for _v, x in shifts)
    for p in SP.paths(f["body"]):
        nonneg = {}
        unsigned_ctx = False
        for ev in p:
            if ev[0] == "cond":
                s = astx.show(ev[1], 120)
                if re.search(r"is_unsigned|unsigned_integral", s) and ev[2]:
                    unsigned_ctx = True
                if re.search(r"is_signed|signed_integral", s) and "unsigned" not in s and not ev[2]:
                    unsigned_ctx = True
                for op, l, r in atoms(ev[1], ev[2]):
                    for a, b, o in ((l, r, op), (r, l, FLIP[op])):
                        v = _ref(a)
                        if v and _is_zero(b) and o in (">", ">=", "=="):
                            nonneg[v] = True
            exprs = []
            if ev[0] in ("cond", "backedge-cond", "expr", "ret") and len(ev) > 1 and ev[1] is not None:
                exprs.append(ev[1])
            if ev[0] == "decl" and ev[1].get("init") is not None:
                exprs.append(ev[1]["init"])
            for e in exprs:
                for x in astx.walk_expr(e):
                    if id(x) in node_ids:
                        v = _ref(x["l"])
                        if not unsigned_ctx and not nonneg.get(v) and not any(b[1] is x for b in bad):
                            bad.append((v, x, "`%s` shifts a value of type `%s` that may be negative: an arithmetic shift rounds "
                                              "towards minus infinity where the division it replaces truncates towards zero"
                                        % (astx.show(x, 50), types.get(v, "?"))))
    return bad


# ---- ACCTYPE ----------------------------------------------------------------------------------------------------------------
FOLDS = {"accumulate": 2, "reduce": 2, "inner_product": 3, "transform_reduce": None}


def check_acctype(chk, f, elem_types=None, rule="ACCTYPE"):
    """calls of the fold algorithms inside f whose initial value is a plain `int` literal while the folded range holds
    elements of another (template-dependent or wider) type. returns list of (call, reason); None when f has no such call"""
    if f.get("body") is None:
        return None
    out = []
    seen = False
    for x in astx.all_exprs(f, into_lambdas=True):
        if x.get("k") != "call":
            continue
        nm = astx.callee(x)[0]
        if nm not in FOLDS:
            continue
        args = x.get("a") or []
        idx = FOLDS[nm]
        if idx is None:
            # transform_reduce(first, last, init, ...) or (first1, last1, first2, init, ...): the first non-iterator-looking literal
            idx = 3 if len(args) >= 4 and _plain_int(args[3]) is not None else 2
        if len(args) <= idx:
            continue
        seen = True
        lit = _plain_int(args[idx])
        if lit is None:
            continue
        # element type of the range: a member / local container of words
        src = astx.show(args[0], 60)
        out.append((x, "`%s` folds `%s...` into an accumulator of type int (deduced from the literal `%s`): partial results "
                       "of a wider element type are truncated to int" % (astx.show(x, 70), src, lit)))
    return out if seen else None


def _plain_int(e):
    """the literal text when e is a literal of type int that is not explicitly converted to another type, else None"""
    e0 = e
    while e0 is not None and e0.get("k") == "cast":
        if e0.get("ck") in ("static", "functional", "cstyle", "reinterpret", "const"):
            return None
        e0 = e0["e"]
    if e0 is not None and e0.get("k") == "int" and (e0.get("ty") or "int") == "int":
        return str(e0.get("v"))
    return None


# ---- area wrappers -----------------------------------------------------------------------------------------------------------
def _in(f, prefixes):
    return f.get("body") is not None and any(f["file"].startswith(p) for p in prefixes)


def negmin_area(chk, db, prefixes, rule="NEGMIN"):
    n = 0
    for f in db.funcs:
        if not _in(f, prefixes):
            continue
        r = check_negmin(chk, f, rule)
        if r is None:
            continue
        n += 1
        construct = astx.sig(f)
        chk.instance(rule)
        chk.obligation(rule, construct, not r)
        for v, node, why in r[:2]:
            chk.violation(rule, construct, "negates-minimum", "%s: %s" % (astx.loc(f, node), why), {"where": astx.loc(f)})
    return n


def shrneg_area(chk, db, prefixes, rule="SHRNEG"):
    n = 0
    for f in db.funcs:
        if not _in(f, prefixes):
            continue
        r = check_shrneg(chk, f, rule)
        if r is None:
            continue
        n += 1
        construct = astx.sig(f)
        chk.instance(rule)
        chk.obligation(rule, construct, not r)
        for v, node, why in r[:2]:
            chk.violation(rule, construct, "shift-for-signed-division", "%s: %s" % (astx.loc(f, node), why), {"where": astx.loc(f)})
    return n


def acctype_area(chk, db, prefixes, rule="ACCTYPE"):
    n = 0
    for f in db.funcs:
        if not _in(f, prefixes):
            continue
        r = check_acctype(chk, f, rule=rule)
        if r is None:
            continue
        n += 1
        construct = astx.sig(f)
        chk.instance(rule)
        chk.obligation(rule, construct, not r)
        for node, why in r[:2]:
            chk.violation(rule, construct, "int-accumulator", "%s: %s" % (astx.loc(f, node), why), {"where": astx.loc(f)})
    return n


FIXTURE = None


def positive_controls(chk, D, rules=("NEGMIN", "SHRNEG", "ACCTYPE")):
    """the three rules expect zero reports on the library: each must report its control in fixtures/arith_pos.hpp"""
    import os
    fx_path = os.path.join(D.VERIF, "fixtures", "arith_pos.hpp")
    fx = D.load_source('#include "%s"\n' % fx_path, root=os.path.dirname(fx_path) + "/", tag="fixture-arith")
    fxf = dict((g["n"], g) for g in fx.funcs)
    want = {"NEGMIN": [("negate_then_test", check_negmin), ("negate_before_min_check", check_negmin)],
            "SHRNEG": [("quot_by_shift", check_shrneg)],
            "ACCTYPE": [("any_word_set", check_acctype)]}
    neg = {"NEGMIN": [("negate_after_min_check", check_negmin)], "SHRNEG": [("quot_by_shift_guarded", check_shrneg)],
           "ACCTYPE": [("any_word_set_typed", check_acctype)]}
    for r in rules:
        for name, fn in want[r]:
            g = fxf.get(name)
            res = fn(chk, g) if g is not None else None
            if not res:
                chk.analysis_broken("%s: the positive control fixture::%s was not reported" % (r, name))
        for name, fn in neg[r]:
            g = fxf.get(name)
            res = fn(chk, g) if g is not None else None
            if g is None or res:
                chk.analysis_broken("%s: the negative control fixture::%s was reported (%s)" % (r, name, res))
