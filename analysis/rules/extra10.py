"""Round-13 rules (seeded changes of the `types` style: right for the tested instantiation, wrong for another one).

MEMSHORT   a bytewise primitive (memcmp / memcpy / memmove and their builtins) applied to elements of a template type is
           guarded by the trait that makes bytes and values agree: equality needs unique object representations (or an
           integral type), ordering needs a one-byte unsigned type, copying needs trivially copyable *and* the same type on
           both sides. `is_trivial` / `is_trivially_copyable` say nothing about `==` or `<` (-0.0 == 0.0, NaN, padding, a
           user-defined operator==, signed bytes).
SELFGUARD  a compound assignment whose operation is not idempotent (`^=`, `-=`, `+=`, ...) is not skipped when the argument is
           the object itself: `x ^= x` clears, it does not keep.
TRAITREF   a property trait (is_trivially_destructible, is_trivially_copyable, ...) is not asked of `decltype(*it)` - an
           lvalue reference type, for which these traits are vacuously true.
FIELDCAST  a value stored into a size / count member is converted to that member's type, not to a fixed narrower builtin type.
FLOATRATIO compile-time rational arithmetic stays in integers: no conversion of a numerator / denominator to a floating type.
"""
import re
from .. import astx

MEM_RE = re.compile(r"^(__builtin_)?w?mem(cmp|cpy|move)$")
EQ_TRAITS = ("has_unique_object_representations", "is_integral", "is_unsigned", "unsigned_integral", "integral<", "is_enum")
BYTE_SAME = re.compile(r"is_same(_v)?\s*<[^<>]*\b(unsigned char|char8_t|byte|uint8_t)\b")
ORD_ONE = re.compile(r"sizeof\s*\([^()]*\)\s*==\s*1\b|\b1\s*==\s*sizeof")
COPY_TRAITS = ("is_trivially_copyable", "is_trivial_v", "is_trivial<", "is_trivially_copy_assignable", "is_trivially_move_assignable")


def polarity(c):
    """(core condition, negated?) of a condition string as collected by guarded_nodes: the else-branch wrapper `!(...)` and a
    leading `not` / `!` of a simple (non-compound) condition are peeled off"""
    s0, neg = c.strip(), False
    while True:
        if s0.startswith("!(") and s0.endswith(")"):
            s0, neg = s0[2:-1].strip(), not neg
        elif s0.startswith("(") and s0.endswith(")") and s0.count("(") == s0.count(")") and _balanced_outer(s0):
            s0 = s0[1:-1].strip()
        elif (s0.startswith("not ") or (s0.startswith("!") and not s0.startswith("!="))) and not re.search(r"\band\b|\bor\b|&&|\|\|", s0):
            s0, neg = (s0[4:] if s0.startswith("not ") else s0[1:]).strip(), not neg
        else:
            return s0, neg


def _balanced_outer(s0):
    d = 0
    for i, ch in enumerate(s0):
        if ch == "(":
            d += 1
        elif ch == ")":
            d -= 1
            if d == 0 and i != len(s0) - 1:
                return False
    return True


def positive_conditions(conds):
    """the conditions known to HOLD at a node (negated ones dropped; a negated negation counts as positive)"""
    out = []
    for c in conds:
        core, neg = polarity(c)
        if not neg:
            out.append(core)
    return out


def negative_conditions(conds):
    out = []
    for c in conds:
        core, neg = polarity(c)
        if neg:
            out.append(core)
    return out


def _children(n):
    for k, v in n.items():
        if isinstance(v, dict):
            yield k, v
        elif isinstance(v, list):
            for x in v:
                if isinstance(x, dict):
                    yield k, x


def guarded_calls(f):
    """(call node, parent node, [condition source holding at the call]) for every call in f's body; conditions of enclosing
    `if`s (negated for the else branch) plus the function's requires-clauses"""
    base = [t for t in (f.get("requires"), f.get("trequires")) if t]
    out = []

    def walk(n, parent, conds):
        if n.get("k") == "if":
            c = n.get("src") or astx.show(n.get("c"), 200)
            if n.get("c") is not None:
                walk(n["c"], n, conds)
            if n.get("init") is not None:
                walk(n["init"], n, conds)
            if n.get("then") is not None:
                walk(n["then"], n, conds + [c])
            if n.get("else") is not None:
                walk(n["else"], n, conds + ["!(" + c + ")"])
            return
        if n.get("k") == "call":
            out.append((n, parent, list(conds)))
        for _k, ch in _children(n):
            walk(ch, n, conds)
    if f.get("body") is not None:
        walk(f["body"], None, base)
    return out


def guarded_nodes(f, pred):
    """(node, [conditions holding there]) for every expression / statement node of f's body that satisfies pred"""
    base = [t for t in (f.get("requires"), f.get("trequires")) if t]
    out = []

    def walk(n, conds):
        if n.get("k") == "if":
            c = n.get("src") or astx.show(n.get("c"), 200)
            for key, cs in (("c", conds), ("init", conds), ("then", conds + [c]), ("else", conds + ["!(" + c + ")"])):
                if n.get(key) is not None:
                    walk(n[key], cs)
            return
        if pred(n):
            out.append((n, list(conds)))
        for _k, ch in _children(n):
            walk(ch, conds)
    if f.get("body") is not None:
        walk(f["body"], base)
    return out


def check_mem_shortcut(f):
    """[(verdict, message)] for every bytewise primitive called in f"""
    res = []
    two_types = len([tp for tp in (f.get("tparams") or []) if tp.get("k") == "type" and not tp.get("pack")]) >= 2
    for call, parent, conds in guarded_calls(f):
        nm = astx.callee(call)[0] or ""
        m = MEM_RE.match(nm)
        if not m:
            continue
        kind = m.group(2)
        text = " && ".join(conds)
        pos = " && ".join(positive_conditions(conds))
        if kind == "cmp":
            eq = parent is not None and parent.get("k") == "bin" and parent.get("op") in ("==", "!=") and (
                astx.int_value(parent.get("r")) == 0 or astx.int_value(parent.get("l")) == 0)
            if eq:
                ok = any(t in pos for t in EQ_TRAITS) or BYTE_SAME.search(pos)
                need = "unique object representations (has_unique_object_representations / an integral type)"
                use = "equality"
            else:
                ok = BYTE_SAME.search(pos) or (("is_unsigned" in pos or "unsigned_integral" in pos) and ORD_ONE.search(pos))
                need = "a one-byte unsigned element type (is_unsigned and sizeof == 1, or is_same with unsigned char / char8_t / byte)"
                use = "ordering"
            res.append((bool(ok), "`%s` decides %s of elements under `%s`; bytes and values agree only for %s" % (
                astx.show(call, 70), use, text or "no condition", need)))
        else:
            ok = any(t in pos for t in COPY_TRAITS) and (not two_types or "is_same" in pos or "same_as" in pos)
            res.append((bool(ok), "`%s` copies elements bytewise under `%s`; that equals element-wise assignment only for a trivially "
                        "copyable type that is the same on both sides" % (astx.show(call, 70), text or "no condition")))
    return res


def mem_shortcut_area(chk, db, prefixes, rule="MEMSHORT"):
    n = 0
    for f in db.funcs:
        if f.get("body") is None or not any(f["file"].startswith(p) for p in prefixes):
            continue
        n += 1
        rs = check_mem_shortcut(f)
        if not rs:
            continue
        construct = astx.sig(f)
        chk.instance(rule)
        for ok, msg in rs:
            chk.obligation(rule, construct, ok)
            if not ok:
                chk.violation(rule, construct, "bytewise", "%s: %s" % (astx.loc(f), msg), {"where": astx.loc(f)})
    chk.instance(rule, 0)
    return n


# ---- SELFGUARD -----------------------------------------------------------------------------------------------------------------
NON_IDEMPOTENT = ("operator^=", "operator-=", "operator+=", "operator*=", "operator/=", "operator%=", "operator<<=", "operator>>=")


def _is_self_test(c):
    """`this != &x` / `&x != this` / `addressof(x) != this` (or the == form): returns (param name, op)"""
    c = astx.strip_casts(c)
    while c is not None and c.get("k") == "paren":
        c = c.get("e")
    if c is None or c.get("k") != "bin" or c.get("op") not in ("!=", "=="):
        return None
    for a, b in ((c["l"], c["r"]), (c["r"], c["l"])):
        a, b = astx.strip_casts(a), astx.strip_casts(b)
        if a is None or b is None or a.get("k") != "this":
            continue
        if b.get("k") == "un" and b.get("op") == "&":
            t = astx.strip_casts(b["e"])
            if t is not None and t.get("k") == "ref" and t.get("d") == "param":
                return t["n"], c["op"]
        if b.get("k") == "call" and astx.callee(b)[0] == "addressof" and len(b["a"]) == 1:
            t = astx.strip_casts(b["a"][0])
            if t is not None and t.get("k") == "ref" and t.get("d") == "param":
                return t["n"], c["op"]
    return None


def check_self_guard(f):
    """None when f is not a non-idempotent compound assignment; else list of messages (empty = fine)"""
    if f["n"] not in NON_IDEMPOTENT or f.get("body") is None or len(f.get("params") or []) != 1:
        return None
    bad = []
    for st in astx.walk_stmts(f["body"]):
        if st.get("k") != "if":
            continue
        t = _is_self_test(st.get("c"))
        if not t:
            continue
        name, op = t
        skipped = st.get("else") if op == "!=" else st.get("then")
        done = st.get("then") if op == "!=" else st.get("else")
        # the operation happens only when the argument is another object; for the object itself nothing (or an early return)
        def has_effect(s):
            if s is None:
                return False
            for x in astx.walk_stmt_exprs(s):
                if x.get("k") == "bin" and x.get("op", "").endswith("=") and x["op"] not in ("==", "!=", "<=", ">="):
                    return True
                if x.get("k") == "call":
                    return True
            return False
        if has_effect(done) and not has_effect(skipped):
            bad.append("`%s` applies its operation only when `%s` is another object; applied to the object itself `%s` must still "
                       "take effect (x %s x is not x)" % (f["n"], name, f["n"].replace("operator", ""), f["n"].replace("operator", "")))
    return bad


def self_guard_area(chk, db, prefixes, rule="SELFGUARD"):
    n = 0
    for f in db.funcs:
        if not any(f["file"].startswith(p) for p in prefixes):
            continue
        r = check_self_guard(f)
        if r is None:
            continue
        n += 1
        construct = astx.sig(f)
        chk.instance(rule)
        chk.obligation(rule, construct, not r)
        for msg in r:
            chk.violation(rule, construct, "self-skipped", "%s: %s" % (astx.loc(f), msg), {"where": astx.loc(f)})
    return n


# ---- TRAITREF ------------------------------------------------------------------------------------------------------------------
VACUOUS_ON_REF = ("is_trivially_destructible", "is_trivially_copyable", "is_trivially_copy_constructible", "is_trivially_move_constructible",
                  "is_trivially_constructible", "is_trivial", "is_nothrow_destructible", "is_destructible", "is_trivially_default_constructible",
                  "is_trivially_copy_assignable", "is_trivially_move_assignable", "is_standard_layout", "is_integral", "is_arithmetic",
                  "is_floating_point", "is_unsigned", "is_signed", "is_pointer", "is_class", "is_enum", "is_const", "is_scalar")
DEREF_TY = re.compile(r"^\s*decltype\s*\(\s*\*\s*[A-Za-z_]\w*\s*\)\s*$")


def check_trait_of_reference(f):
    """messages for every property trait asked of `decltype(*name)`"""
    out = []
    if f.get("body") is None:
        return out
    for e in astx.walk_stmt_exprs(f["body"]):
        if e.get("k") != "ref" or not e.get("targs"):
            continue
        nm = e.get("n") or ""
        base = nm[:-2] if nm.endswith("_v") else nm
        if base in VACUOUS_ON_REF and DEREF_TY.match(e["targs"]):
            out.append("`%s<%s>` asks the trait of an lvalue *reference* type (`*it` is an lvalue): the answer does not depend on the "
                       "element type; the element type is `remove_reference_t<...>` / `iter_value_t<...>`" % (nm, e["targs"]))
    return out


def trait_of_reference_area(chk, db, prefixes, rule="TRAITREF"):
    n = 0
    for f in db.funcs:
        if f.get("body") is None or not any(f["file"].startswith(p) for p in prefixes):
            continue
        n += 1
        r = check_trait_of_reference(f)
        if not r:
            continue
        construct = astx.sig(f)
        chk.instance(rule)
        chk.obligation(rule, construct, False)
        for msg in r:
            chk.violation(rule, construct, "trait-of-reference", "%s: %s" % (astx.loc(f), msg), {"where": astx.loc(f)})
    return n


# ---- FIELDCAST -----------------------------------------------------------------------------------------------------------------
FIXED_INT = {"unsigned char": 8, "signed char": 8, "char": 8, "unsigned short": 16, "short": 16, "unsigned int": 32, "int": 32, "unsigned": 32,
             "etl::uint8_t": 8, "etl::uint16_t": 16, "etl::uint32_t": 32, "etl::int8_t": 8, "etl::int16_t": 16, "etl::int32_t": 32,
             "uint8_t": 8, "uint16_t": 16, "uint32_t": 32, "int8_t": 8, "int16_t": 16, "int32_t": 32}
WIDE_INT = {"unsigned long": 64, "long": 64, "unsigned long long": 64, "long long": 64, "etl::size_t": 64, "size_t": 64, "etl::ptrdiff_t": 64,
            "etl::uint64_t": 64, "etl::int64_t": 64}


def check_field_cast(f, rec_fields):
    """[(field, ok, message)] for every store `field = cast<T>(...)` into a size-like member of the enclosing record"""
    out = []
    if f.get("body") is None:
        return out
    for e in astx.walk_stmt_exprs(f["body"]):
        if e.get("k") != "bin" or e.get("op") != "=":
            continue
        t = astx.strip_casts(e["l"])
        if t is None or t.get("k") != "mem" or t.get("dk") != "field" or (t.get("b") or {}).get("k") != "this":
            continue
        fld = rec_fields.get(t["n"])
        if fld is None or not re.search(r"size|count|len|used", t["n"], re.I):
            continue
        r = e["r"]
        while r is not None and r.get("k") == "paren":
            r = r.get("e")
        if r is None or r.get("k") not in ("cast", "construct"):
            continue
        cty = (r.get("ty") or "").replace("const ", "").strip()
        fty = (fld.get("ty") or "").replace("const ", "").strip()
        if cty not in FIXED_INT:
            continue
        fw = FIXED_INT.get(fty) or WIDE_INT.get(fty)
        ok = fw is not None and fw <= FIXED_INT[cty]
        out.append((t["n"], ok, "`%s` converts the stored value to `%s` (%d bits); the member `%s` is a `%s`, which is wider for some "
                    "capacities - sizes above %d are stored modulo %d" % (astx.show(e, 70), cty, FIXED_INT[cty], t["n"], fty,
                                                                        (1 << FIXED_INT[cty]) - 1, 1 << FIXED_INT[cty])))
    return out


def field_cast_area(chk, db, prefixes, rule="FIELDCAST"):
    """instances: every store into a size-like member (whatever its right-hand side)"""
    n = 0
    for f in db.funcs:
        if f.get("body") is None or not f.get("record") or not any(f["file"].startswith(p) for p in prefixes):
            continue
        rec = db.record(f["record"])
        if rec is None:
            continue
        fields = dict((fd["n"], fd) for fd in rec.get("fields", []))
        stores = [e for e in astx.walk_stmt_exprs(f["body"]) if e.get("k") == "bin" and e.get("op") == "=" and
                  (astx.strip_casts(e["l"]) or {}).get("k") == "mem" and (astx.strip_casts(e["l"]) or {}).get("dk") == "field" and
                  re.search(r"size|count|len|used", (astx.strip_casts(e["l"]) or {}).get("n", ""), re.I)]
        if not stores:
            continue
        n += len(stores)
        construct = astx.sig(f)
        chk.instance(rule, len(stores))
        rs = check_field_cast(f, fields)
        chk.obligation(rule, construct, all(ok for _n, ok, _m in rs))
        for _fld, ok, msg in rs:
            if not ok:
                chk.violation(rule, construct, "narrow-store", "%s: %s" % (astx.loc(f), msg), {"where": astx.loc(f)})
    return n


# ---- controls ------------------------------------------------------------------------------------------------------------------
def positive_controls(chk, D, rules):
    import os
    fx_path = os.path.join(D.VERIF, "fixtures", "extra10_pos.hpp")
    fx = D.load_source('#include "%s"\n' % fx_path, root=os.path.dirname(fx_path) + "/", tag="fixture-extra10")
    by = {}
    for g in fx.funcs:
        by.setdefault(g["n"], []).append(g)

    def one(name, rec=None):
        for g in by.get(name, []):
            if rec is None or (g.get("record") or "").endswith(rec):
                return g
        return None

    def expect(rule, name, fn, want_bad, rec=None):
        g = one(name, rec)
        r = fn(g) if g else None
        bad = bool(r) and any((x[0] is False) if isinstance(x, tuple) else True for x in r)
        if g is None or r is None or bad != want_bad:
            chk.analysis_broken("%s: the %s control fixture::%s%s was not %s (%s)" % (
                rule, "positive" if want_bad else "negative", (rec + "::") if rec else "", name, "reported" if want_bad else "proved", r))
    if "MEMSHORT" in rules:
        expect("MEMSHORT", "equal_trivial", check_mem_shortcut, True)
        expect("MEMSHORT", "equal_unique", check_mem_shortcut, False)
        expect("MEMSHORT", "less_bytes", check_mem_shortcut, True)
        expect("MEMSHORT", "less_unsigned_bytes", check_mem_shortcut, False)
        expect("MEMSHORT", "copy_same_size", check_mem_shortcut, True)
        expect("MEMSHORT", "copy_same_type", check_mem_shortcut, False)
    if "SELFGUARD" in rules:
        expect("SELFGUARD", "operator^=", check_self_guard, True, "fixture::bits_skip")
        expect("SELFGUARD", "operator^=", lambda g: check_self_guard(g) or [], False, "fixture::bits_plain")
    if "TRAITREF" in rules:
        expect("TRAITREF", "destroy_ref", check_trait_of_reference, True)
        expect("TRAITREF", "destroy_val", lambda g: check_trait_of_reference(g), False)
    if "FIELDCAST" in rules:
        for nm, want in (("set_size_narrow", True), ("set_size_own", False)):
            g = one(nm)
            rec = fx.record(g["record"]) if g else None
            r = check_field_cast(g, dict((fd["n"], fd) for fd in rec["fields"])) if rec else None
            bad = bool(r) and any(not ok for _n, ok, _m in r)
            if r is None or bad != want:
                chk.analysis_broken("FIELDCAST: the control fixture::%s was not %s (%s)" % (nm, "reported" if want else "proved", r))


# ---- TYPEDDEF ------------------------------------------------------------------------------------------------------------------
TYPED_ANY = re.compile(r"\b(plus|minus|multiplies|divides|modulus|equal_to|not_equal_to|less|greater|less_equal|greater_equal)\s*<\s*([A-Za-z_]\w*)\s*>")


def check_typed_default(f):
    """None when f passes no functor object built on the spot; else [(call, functor type, message)] for every functor fixed to
    one type parameter of f while the elements it will be applied to are reached through *another* type parameter (an
    iterator): `plus<T>` converts each element to T before adding, `init + *first` does not."""
    if f.get("body") is None:
        return None
    tps = [tp["n"] for tp in (f.get("tparams") or []) if tp.get("k") == "type"]
    seen = False
    out = []
    for x in astx.all_exprs(f, into_lambdas=True):
        if x.get("k") != "call":
            continue
        for a in x["a"]:
            a0 = astx.strip_casts(a)
            if a0 is None or a0.get("k") != "construct":
                continue
            m = TYPED_ANY.search(a0.get("ty", "") or "")
            bare = re.search(r"\b(plus|minus|multiplies|divides|modulus|equal_to|not_equal_to|less|greater|less_equal|greater_equal)\b", a0.get("ty", "") or "")
            if bare:
                seen = True
            if not m:
                continue
            fixed = m.group(2)
            others = [t for t in tps if t != fixed]
            if fixed in tps and others:
                out.append((x, a0.get("ty", ""), "`%s` is handed `%s`, a functor fixed to the parameter type `%s`; the operands come through `%s` "
                            "and need not be of that type - each is converted to `%s` before the operation, where the standard "
                            "applies the operator to the operands as they are (a transparent functor, `%s<>`)" % (
                                astx.show(x, 60), a0.get("ty", ""), fixed, ", ".join(others), fixed, m.group(1))))
    return out if seen else None


def typed_default_area(chk, db, prefixes, rule="TYPEDDEF"):
    n = 0
    for f in db.funcs:
        if f.get("body") is None or not any(f["file"].startswith(p) for p in prefixes):
            continue
        r = check_typed_default(f)
        if r is None:
            continue
        n += 1
        construct = astx.sig(f)
        chk.instance(rule)
        chk.obligation(rule, construct, not r)
        for call, _ty, msg in r[:2]:
            chk.violation(rule, construct, "operand-converted", "%s: %s" % (astx.loc(f, call), msg), {"where": astx.loc(f)})
    return n


# ---- CHARCAST ------------------------------------------------------------------------------------------------------------------
NARROW_CHAR = re.compile(r"^(const\s+)?(unsigned char|signed char|char|char8_t|(etl::)?u?int8_t|unsigned short|short|(etl::)?u?int16_t)$")
ONE_BYTE_GUARD = re.compile(r"is_same(_v)?\s*<[^<>]*\b(char|char8_t|unsigned char|signed char)\b[^<>]*>|sizeof\s*\(\s*(char_type|CharT|CharType|Char)\s*\)\s*==\s*1")


def char_cast_area(chk, db, files, rule="CHARCAST"):
    """In the generic character traits a character of the traits' own type is converted to a fixed narrow type only where the
    character type is known to be that narrow (`if constexpr (is_same_v<char_type, char>)`): for wchar_t / char16_t / char32_t
    the conversion drops the high bits, so different characters compare equal and order wrongly."""
    n = 0
    for f in db.funcs:
        if f.get("body") is None or f["file"] not in files:
            continue
        cps = set(p["n"] for p in f["params"] if re.search(r"\b(char_type|CharT|CharType|Char)\b", p.get("ty") or ""))
        if not cps:
            continue

        def pred(x):
            return x.get("k") in ("cast", "construct") and NARROW_CHAR.match((x.get("ty") or "").strip()) is not None and any(
                y.get("k") == "ref" and y.get("d") == "param" and y.get("n") in cps
                for i in ([x.get("e")] if x.get("k") == "cast" else list(x.get("a") or [])) if i is not None for y in astx.walk_expr(i))
        for x, conds in guarded_nodes(f, pred):
            n += 1
            label = "%s :: `%s`" % (astx.sig(f), astx.show(x, 50))
            chk.instance(rule)
            ok = any(ONE_BYTE_GUARD.search(c) for c in positive_conditions(conds))
            chk.obligation(rule, label, ok)
            if not ok:
                chk.violation(rule, label, "character-narrowed", "%s: `%s` converts a character of the traits' own type to `%s` under `%s`; for a "
                              "wider character type the high bits are dropped, so distinct characters compare equal / order wrongly" % (
                                  astx.loc(f, x), astx.show(x, 50), x.get("ty"), " && ".join(conds) or "no condition"), {"where": astx.loc(f)})
    return n


# ---- VISITCAT ------------------------------------------------------------------------------------------------------------------
def check_visit_category(f):
    """None when f hands no generic lambda to visit_with_index that calls f's own forwarded callable; else [(node, ok, msg)]:
    every `p.value()` argument of that call (p a by-value proxy parameter of the lambda) reads through the rvalue accessor
    (`etl::move(p).value()`), the only one that forwards the visited variant's value category; `value() const&` always yields
    an lvalue, so an rvalue variant would reach the visitor as an lvalue (std::visit forwards)."""
    if f.get("body") is None:
        return None
    fwd = set(p["n"] for p in f["params"] if (p.get("ty") or "").replace(" ", "").endswith("&&") and not (p.get("ty") or "").endswith("..."))
    out = []
    seen = False
    for x in astx.all_exprs(f, into_lambdas=False):
        if x.get("k") != "call" or astx.callee(x)[0] != "visit_with_index":
            continue
        for a in x["a"]:
            if a is None or a.get("k") != "lambda":
                continue
            lps = set(p["n"] for p in a.get("params", []) if (p.get("ty") or "").startswith("auto") and "&" not in (p.get("ty") or ""))
            if not lps or a.get("body") is None:
                continue
            for c in astx.walk_stmt_exprs(a["body"]):
                if c.get("k") != "call":
                    continue
                fn = astx.strip_casts(c["f"])
                is_fwd = (fn is not None and fn.get("k") == "call" and astx.callee(fn)[0] == "forward" and any(
                    y.get("k") == "ref" and y.get("n") in fwd for y in astx.walk_expr(fn))) or \
                    (fn is not None and fn.get("k") == "ref" and fn.get("n") in fwd)
                if not is_fwd:
                    continue
                for arg in c["a"]:
                    g = arg["e"] if arg is not None and arg.get("k") == "pack" else arg
                    g = astx.strip_casts(g)
                    if g is None or g.get("k") != "call" or (g.get("f") or {}).get("k") != "mem" or g["f"].get("n") != "value":
                        continue
                    recv = astx.strip_casts(g["f"].get("b"))
                    if recv is None:
                        continue
                    names = [y["n"] for y in astx.walk_expr(recv) if y.get("k") == "ref" and y.get("n") in lps]
                    if not names:
                        continue
                    seen = True
                    moved = recv.get("k") == "call" and astx.callee(recv)[0] in ("move", "forward")
                    out.append((g, moved, "`%s` reads the proxy `%s` through the lvalue accessor: the alternative reaches the visitor as an "
                                "lvalue even when the variant was an rvalue (std::visit forwards the value category; `etl::move(%s).value()` does)"
                                % (astx.show(g, 50), names[0], names[0])))
    return out if seen else None


def visit_category_area(chk, db, prefixes, rule="VISITCAT"):
    n = 0
    for f in db.funcs:
        if not any(f["file"].startswith(p) for p in prefixes):
            continue
        r = check_visit_category(f)
        if r is None:
            continue
        n += 1
        construct = astx.sig(f)
        chk.instance(rule)
        chk.obligation(rule, construct, all(ok for _g, ok, _m in r))
        for g, ok, msg in r:
            if not ok:
                chk.violation(rule, construct, "category-lost", "%s: %s" % (astx.loc(f, g), msg), {"where": astx.loc(f)})
    return n


def char_cast_control(chk, D):
    """the library may have no narrowing conversion at all (the `conditional_t` form): the rule then rests on its controls"""
    import os
    fx_path = os.path.join(D.VERIF, "fixtures", "extra12_pos.hpp")
    fx = D.load_source('#include "%s"\n' % fx_path, root=os.path.dirname(fx_path) + "/", tag="fixture-extra12")

    class _Probe:
        def __init__(self):
            self.res = []

        def instance(self, *a, **k):
            pass

        def obligation(self, rule, label, ok, **k):
            self.res.append((label, ok))

        def violation(self, *a, **k):
            pass
    pr = _Probe()
    files = tuple(set(g["file"] for g in fx.funcs))
    char_cast_area(pr, fx, files)
    if not any("traits_bad" in l and ok is False for l, ok in pr.res):
        chk.analysis_broken("CHARCAST: the positive control fixture::traits_bad::eq was not reported")
    if not any("traits_good" in l and ok is True for l, ok in pr.res) or any("traits_good" in l and ok is False for l, ok in pr.res):
        chk.analysis_broken("CHARCAST: the negative control fixture::traits_good::lt was not proved")
