"""Round-14 rules (seeded changes of the `sequence` / `review` styles).

EMPTYQ     all_of / none_of answer true and any_of answers false for an empty range (the vacuous truth): an early return taken
           on `first == last` returns exactly that.
UNCOND     a compound assignment operator applies its arithmetic on every path: no early return skips it (a "nothing to do"
           shortcut such as `if (_rep < rhs.count()) return *this;` in operator%= is wrong for negative counts).
SETPUSH    a sorted set appends to its underlying storage only inside insert / emplace, where the new element is then rotated
           into place; any other member that `push_back`s (a hand-written swap, a merge) breaks the ordering invariant.
LVMOVE     of a cv/ref-qualified overload set, the lvalue overloads (`&`, `const&`) never move from `*this` / `**this` / their
           members: calling them leaves the object unchanged (the rvalue overloads are the ones that may).
PTRSWAP    optional<T&> rebinds: its swap exchanges the two pointers and never dereferences either side.
"""
import re
from .. import astx

FAMILY = {"+=", "-=", "*=", "/=", "%=", "+", "-", "*", "/", "%", "++", "--", "<<=", ">>=", "&=", "|=", "^="}


# ---- EMPTYQ --------------------------------------------------------------------------------------------------------------------
VACUOUS = {"all_of": True, "none_of": True, "any_of": False}


def _is_empty_test(c, params):
    c = astx.strip_casts(c)
    while c is not None and c.get("k") == "paren":
        c = astx.strip_casts(c.get("e"))
    if c is None or c.get("k") != "bin" or c.get("op") != "==":
        return False
    a, b = astx.strip_casts(c["l"]), astx.strip_casts(c["r"])
    return a is not None and b is not None and a.get("k") == "ref" and b.get("k") == "ref" and a.get("d") == "param" and b.get("d") == "param" \
        and {a["n"], b["n"]} <= set(params[:2]) and a["n"] != b["n"]


def check_empty_quantifier(f):
    """None when f is not a quantifier algorithm; else [(node, ok, msg)] for its early returns on the empty range"""
    if f["n"] not in VACUOUS or f.get("body") is None or len(f["params"]) < 3:
        return None
    params = [p["n"] for p in f["params"]]
    out = []
    for st in astx.walk_stmts(f["body"]):
        if st.get("k") != "if" or not _is_empty_test(st.get("c"), params):
            continue
        for r in astx.walk_stmts(st.get("then") or {}):
            if r.get("k") == "return":
                v = astx.strip_casts(r.get("e"))
                if v is not None and v.get("k") == "bool":
                    ok = bool(v["v"]) == VACUOUS[f["n"]]
                    out.append((r, ok, "`%s` answers %s for an empty range; no element violates the quantifier there, the answer is %s" % (
                        f["n"], "true" if v["v"] else "false", "true" if VACUOUS[f["n"]] else "false")))
    return out


def empty_quantifier_area(chk, db, prefixes, rule="EMPTYQ"):
    n = 0
    for f in db.funcs:
        if not any(f["file"].startswith(p) for p in prefixes):
            continue
        r = check_empty_quantifier(f)
        if r is None:
            continue
        n += 1
        construct = astx.sig(f)
        chk.instance(rule)
        chk.obligation(rule, construct, all(ok for _n, ok, _m in r))
        for node, ok, msg in r:
            if not ok:
                chk.violation(rule, construct, "vacuous-truth", "%s: %s" % (astx.loc(f, node), msg), {"where": astx.loc(f)})
    return n


# ---- UNCOND --------------------------------------------------------------------------------------------------------------------
def _has_arith(node):
    for x in (astx.walk_stmt_exprs(node) if node.get("k") in ("seq", "expr", "decl", "return", "if", "for", "while", "do") else astx.walk_expr(node)):
        if x.get("k") == "bin" and x.get("op") in FAMILY and not (x.get("ovl") or "").startswith("operator,"):
            return True
        if x.get("k") == "un" and x.get("op") in ("++", "--"):
            return True
        if x.get("k") == "call" and (astx.callee(x)[0] or "").startswith("operator") and (astx.callee(x)[0] or "")[8:] in FAMILY:
            return True
    return False


def _scan(st):
    """'yes' every path through st applies arithmetic before leaving; 'no' some path returns without; 'cont' falls through
    without having applied any"""
    if st is None:
        return "cont"
    k = st.get("k")
    if k == "seq":
        for s0 in st.get("s", []):
            r = _scan(s0)
            if r != "cont":
                return r
        return "cont"
    if k == "if":
        if st.get("c") is not None and _has_arith({"k": "expr", "e": st["c"]}):
            return "yes"
        a, b = _scan(st.get("then")), _scan(st.get("else"))
        if a == "yes" and b == "yes":
            return "yes"
        if a == "no" or b == "no":
            return "no"
        return "cont" if "cont" in (a, b) else "yes"
    if k == "return":
        return "yes" if _has_arith(st) else "no"
    if k in ("expr", "decl"):
        return "yes" if _has_arith(st) else "cont"
    if k in ("for", "while", "do"):
        return "yes" if _has_arith(st) else "cont"
    return "cont"


def check_unconditional(f):
    """None when f is not a compound assignment / increment member; else (ok, message)"""
    if f.get("body") is None or f.get("kind") != "method" or not f["n"].startswith("operator"):
        return None
    op = f["n"][len("operator"):]
    if op not in ("+=", "-=", "*=", "/=", "%=", "++", "--", "^=", "<<=", ">>="):
        return None
    if not _has_arith(f["body"]):
        return None
    r = _scan(f["body"])
    if r == "no":
        return (False, "`operator%s` returns on some path without having applied `%s`: a shortcut for a case that looks like nothing to "
                "do (small, equal, zero operand) is not one for every value (negative counts, floating representations)" % (op, op.rstrip("=") or op))
    return (True, "")


def unconditional_area(chk, db, files, rule="UNCOND"):
    n = 0
    for f in db.funcs:
        if not any(f["file"].startswith(p) for p in files):
            continue
        r = check_unconditional(f)
        if r is None:
            continue
        n += 1
        construct = astx.sig(f)
        chk.instance(rule)
        chk.obligation(rule, construct, r[0])
        if not r[0]:
            chk.violation(rule, construct, "operation-skipped", "%s: %s" % (astx.loc(f), r[1]), {"where": astx.loc(f)})
    return n


# ---- SETPUSH -------------------------------------------------------------------------------------------------------------------
APPENDS = ("push_back", "emplace_back", "unchecked_push_back", "unchecked_emplace_back", "try_push_back", "try_emplace_back")
PLACING = ("insert", "emplace", "emplace_hint", "<ctor>", "insert_range", "replace")


def set_push_area(chk, db, records, rule="SETPUSH"):
    """instances: member functions of the set classes that append to the underlying storage"""
    n = 0
    for f in db.funcs:
        if f.get("record") not in records or f.get("body") is None:
            continue
        apps = [x for x in astx.all_exprs(f, into_lambdas=True) if x.get("k") == "call" and astx.callee(x)[0] in APPENDS]
        if not apps:
            continue
        n += 1
        construct = astx.sig(f)
        chk.instance(rule)
        ok = f["n"] in PLACING
        if ok:
            # inside insert the append must be followed by a placing step (rotate / sort / a positional insert of the storage)
            ok = any(x.get("k") == "call" and astx.callee(x)[0] in ("rotate", "sort", "insertion_sort", "inplace_merge", "insert", "move_backward")
                     for x in astx.all_exprs(f, into_lambdas=True))
        chk.obligation(rule, construct, ok)
        if not ok:
            chk.violation(rule, construct, "append-without-placing", "%s: `%s` appends to the sorted storage outside the insertion path (or without "
                          "rotating the new element into place): the elements are no longer in comparator order afterwards" % (
                              astx.loc(f, apps[0]), astx.show(apps[0], 60)), {"where": astx.loc(f)})
    return n


# ---- LVMOVE --------------------------------------------------------------------------------------------------------------------
def _rooted_at_this(e):
    e = astx.strip_casts(e)
    while e is not None:
        k = e.get("k")
        if k == "this":
            return True
        if k == "un" and e.get("op") == "*":
            e = astx.strip_casts(e.get("e"))
        elif k == "paren":
            e = astx.strip_casts(e.get("e"))
        elif k == "mem":
            e = astx.strip_casts(e.get("b"))
        elif k == "call" and (e.get("f") or {}).get("k") == "mem" and e["f"].get("n") in ("value", "error", "operator*", "get"):
            e = astx.strip_casts(e["f"].get("b"))
        else:
            return False
    return False


def lvalue_move_area(chk, db, prefixes, rule="LVMOVE"):
    groups = {}
    for f in db.funcs:
        if f.get("record") and f.get("body") is not None and any(f["file"].startswith(p) for p in prefixes):
            groups.setdefault((f["record"], f["n"]), []).append(f)
    n = 0
    for (rec, name), fs in sorted(groups.items()):
        quals = set((g.get("refq") or "") for g in fs)
        if "&&" not in quals or not (quals & {"&"}):
            continue
        for g in fs:
            if (g.get("refq") or "") != "&":
                continue
            n += 1
            construct = astx.sig(g) + (" const&" if g.get("const") else " &")
            chk.instance(rule)
            bad = None
            for x in astx.all_exprs(g, into_lambdas=False):
                if x.get("k") == "call" and astx.callee(x)[0] == "move" and len(x["a"]) == 1 and _rooted_at_this(x["a"][0]):
                    bad = x
                    break
            chk.obligation(rule, construct, bad is None)
            if bad is not None:
                chk.violation(rule, construct, "moves-from-lvalue", "%s: the lvalue overload of `%s` hands out `%s`: calling it on an lvalue "
                              "leaves the object moved-from (only the `&&` overloads may move; std copies here)" % (
                                  astx.loc(g, bad), name, astx.show(bad, 40)), {"where": astx.loc(g)})
    return n


# ---- PTRSWAP -------------------------------------------------------------------------------------------------------------------
def pointer_swap_rule(chk, db, rule="PTRSWAP"):
    """the optional<T&> specialisation is the optional record that keeps a pointer field"""
    n = 0
    for rec in db.records:
        q = rec.get("q") or ""
        if not q.startswith("etl::optional") or not any(fd["n"] == "_ptr" for fd in rec.get("fields", []) or []):
            continue
        for f in db.funcs:
            if f.get("record") != q or f["n"] != "swap" or f.get("body") is None:
                continue
            n += 1
            construct = astx.sig(f)
            chk.instance(rule)
            derefs = [x for x in astx.all_exprs(f, into_lambdas=False) if x.get("k") == "un" and x.get("op") == "*"]
            chk.obligation(rule, construct, not derefs)
            if derefs:
                chk.violation(rule, construct, "swaps-referents", "%s: `%s` reaches through the reference: optional<T&>::swap exchanges which objects "
                              "the two optionals refer to, it never modifies the referenced objects" % (astx.loc(f, derefs[0]), astx.show(derefs[0], 30)),
                              {"where": astx.loc(f)})
    return n


# ---- REFQCAT -------------------------------------------------------------------------------------------------------------------
def _this_value(e):
    """`**this`, `this->value()`, `value()`, `error()`, `*_member`-free forms: the stored value / error of *this* as an lvalue"""
    e = astx.strip_casts(e)
    while e is not None and e.get("k") == "paren":
        e = astx.strip_casts(e.get("e"))
    if e is None:
        return False
    if e.get("k") == "un" and e.get("op") == "*":
        i = astx.strip_casts(e.get("e"))
        while i is not None and i.get("k") == "paren":
            i = astx.strip_casts(i.get("e"))
        return i is not None and i.get("k") == "un" and i.get("op") == "*" and astx.is_this(astx.strip_casts(i.get("e")))
    if e.get("k") == "call" and not e.get("a"):
        nm, _q, recv, kind = astx.callee(e)
        if nm in ("value", "error") and (recv is None or astx.is_this(astx.strip_casts(recv))):
            return True
    return False


def refq_category_area(chk, db, prefixes, rule="REFQCAT"):
    """Of an overload set over the four cv/ref qualifications, each overload hands the stored value / error on with the value
    category of `*this`: the lvalue overloads (`&`, `const&`) as an lvalue (never through etl::move), the rvalue overloads
    (`&&`, `const&&`) through etl::move / forward. Only values handed to another callable or constructor count (arguments of a
    call or construction); a `return **this` of a plain accessor is REFQMOVE's business."""
    groups = {}
    for f in db.funcs:
        if f.get("record") and f.get("body") is not None and any(f["file"].startswith(p) for p in prefixes):
            groups.setdefault((f["record"], f["n"]), []).append(f)
    n = 0
    for (rec, name), fs in sorted(groups.items()):
        quals = set((g.get("refq") or "") for g in fs)
        if "&&" not in quals or "&" not in quals:
            continue
        for g in fs:
            rq = g.get("refq") or ""
            if rq not in ("&", "&&"):
                continue
            handed = []      # (node, moved?)
            for x in astx.all_exprs(g, into_lambdas=False):
                if x.get("k") not in ("call", "construct"):
                    continue
                if x.get("k") == "call" and astx.callee(x)[0] in ("move", "forward", "value", "error", "has_value"):
                    continue
                for a in x.get("a") or []:
                    a0 = astx.strip_casts(a)
                    if a0 is None:
                        continue
                    if a0.get("k") == "call" and astx.callee(a0)[0] in ("move", "forward") and len(a0["a"]) == 1 and (
                            _this_value(a0["a"][0]) or _rooted_at_this(a0["a"][0])):
                        handed.append((a0, True))
                    elif _this_value(a0):
                        handed.append((a0, False))
            if not handed:
                continue
            n += 1
            construct = astx.sig(g)
            chk.instance(rule)
            if rq == "&":
                bad = [h for h in handed if h[1]]
                wclass = "moves-from-lvalue" if not g.get("const") else "const-lvalue-as-rvalue"
                why = ("the lvalue overload hands `%s` on as an rvalue: %s" % (
                    astx.show(bad[0][0], 40) if bad else "", "the object is left moved-from" if not g.get("const") else
                    "the callable / result sees `T const&&` where the standard hands on `T const&`"))
            else:
                bad = [h for h in handed if not h[1]]
                wclass = "rvalue-as-lvalue"
                why = ("the rvalue overload hands `%s` on as an lvalue: the value is copied instead of moved (move-only types do not "
                       "compile) and the callable sees `T&` where the standard hands on `T&&`" % (astx.show(bad[0][0], 40) if bad else ""))
            chk.obligation(rule, construct, not bad)
            if bad:
                chk.violation(rule, construct, wclass, "%s: %s" % (astx.loc(g, bad[0][0]), why), {"where": astx.loc(g)})
    return n


# ---- SHIFTNEG ------------------------------------------------------------------------------------------------------------------
def _lower_bounded(cond, name):
    """does the condition (an expression) contain an atom that bounds parameter `name` from below by a non-negative constant?"""
    for x in astx.walk_expr(cond):
        if x.get("k") != "bin" or x.get("op") not in (">=", ">", "<=", "<", "=="):
            continue
        l, r = astx.strip_casts(x["l"]), astx.strip_casts(x["r"])

        def is_p(e):
            return e is not None and e.get("k") == "ref" and e.get("n") == name

        def const(e):
            if e is None:
                return None
            if e.get("k") == "char":
                return int(e["v"])
            if e.get("k") == "un" and e.get("op") == "-" and astx.int_value(astx.strip_casts(e.get("e"))) is not None:
                return -astx.int_value(astx.strip_casts(e["e"]))
            return astx.int_value(e)
        op = x["op"]
        if is_p(l) and const(r) is not None:
            c = const(r)
            if (op == ">=" and c >= 0) or (op == ">" and c >= -1) or (op == "==" and c >= 0):
                return True
        if is_p(r) and const(l) is not None:
            c = const(l)
            if (op == "<=" and c >= 0) or (op == "<" and c >= -1) or (op == "==" and c >= 0):
                return True
    return False


def shift_negative_area(chk, db, prefixes, rule="SHIFTNEG"):
    """A shift whose count is a *signed* parameter (the `int ch` of the <cctype> functions, for which EOF = -1 is a valid
    argument) is evaluated only where that parameter is known to be non-negative: a negative count is undefined, so the call is
    not a constant expression while the run-time shift wraps the count. The facts considered are the conditions of enclosing
    `if`s and the left operands of enclosing `&&` / `and` (short-circuit)."""
    n = 0
    for f in db.funcs:
        if f.get("body") is None or not any(f["file"].startswith(p) for p in prefixes):
            continue
        signed = set(p["n"] for p in f["params"] if (p.get("ty") or "").replace("const ", "").strip() in ("int", "long", "short", "signed char", "char", "long long", "etl::wint_t", "wint_t"))
        if not signed:
            continue
        found = []

        def walk(e, facts):
            if not isinstance(e, dict):
                return
            if e.get("k") == "if":
                walk(e.get("c"), facts)
                walk(e.get("then"), facts + [e.get("c")])
                walk(e.get("else"), facts)
                return
            if e.get("k") == "bin" and e.get("op") in ("&&", "and"):
                walk(e["l"], facts)
                walk(e["r"], facts + [e["l"]])
                return
            if e.get("k") == "cond":
                walk(e.get("c"), facts)
                walk(e.get("t"), facts + [e.get("c")])
                walk(e.get("f"), facts)
                return
            if e.get("k") == "bin" and e.get("op") in ("<<", ">>", "<<=", ">>="):
                cnt = e["r"]
                while cnt is not None and cnt.get("k") in ("paren",):
                    cnt = cnt.get("e")
                c0 = astx.strip_casts(cnt)
                if c0 is not None and c0.get("k") == "ref" and c0.get("d") == "param" and c0.get("n") in signed:
                    # a cast of the count to an unsigned type makes the shift defined (if large): not this rule's business
                    if not (cnt.get("k") == "cast" and "unsigned" in (cnt.get("ty") or "")):
                        found.append((e, c0["n"], list(facts)))
            for k, v in e.items():
                if isinstance(v, dict):
                    walk(v, facts)
                elif isinstance(v, list):
                    for y in v:
                        walk(y, facts)
        walk(f["body"], [])
        for node, name, facts in found:
            n += 1
            label = "%s :: `%s`" % (astx.sig(f), astx.show(node, 50))
            chk.instance(rule)
            ok = any(fc is not None and _lower_bounded(fc, name) for fc in facts)
            chk.obligation(rule, label, ok)
            if not ok:
                chk.violation(rule, label, "negative-shift-count", "%s: `%s` shifts by the signed parameter `%s` where nothing excludes a negative "
                              "value (EOF is a valid argument): the shift is undefined there - not a constant expression, while the run-time "
                              "instruction masks the count" % (astx.loc(f, node), astx.show(node, 50), name), {"where": astx.loc(f)})
    return n


def shift_negative_control(chk, D):
    import os
    fx_path = os.path.join(D.VERIF, "fixtures", "extra12_pos.hpp")
    fx = D.load_source('#include "%s"\n' % fx_path, root=os.path.dirname(fx_path) + "/", tag="fixture-extra12")

    class _Probe:
        def __init__(self):
            self.bad = []

        def instance(self, *a, **k):
            pass

        def obligation(self, rule, label, ok, **k):
            if ok is False:
                self.bad.append(label)

        def violation(self, *a, **k):
            pass
    pr = _Probe()
    shift_negative_area(pr, fx, [""])
    if not any("space_mask_bad" in b for b in pr.bad):
        chk.analysis_broken("SHIFTNEG: the positive control fixture::space_mask_bad was not reported")
    if any("space_mask_good" in b for b in pr.bad):
        chk.analysis_broken("SHIFTNEG: the negative control fixture::space_mask_good was reported")
