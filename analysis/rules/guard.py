"""Rule family GUARD (DESIGN.md §5 C05): contract checks vs. documented preconditions.

For one operation (a function definition) and one requirement `Req`:
  G1  presence/strength : in every model with not Req, the handler fires (a guard is false) ...
  G3  order             : ... before any definite effect the requirement kind forbids
  G2  no spurious firing: in every model with Req, no guard fires
decided by evaluating the operation's guard program (prog.py) over all finite models (terms.py).
"""
import itertools
import re

from .. import astx
from .. import prog as P
from .. import terms as T
from .. import spec as S


class Result:
    def __init__(self):
        self.g1 = "PROVED"   # PROVED | REFUTED | ABSENT | UNKNOWN
        self.g2 = "PROVED"
        self.g3 = "PROVED"
        self.g1_witness = None
        self.g2_witness = None
        self.g3_witness = None
        self.models = 0
        self.guards = 0
        self.variants = 0
        self.notes = []
        self.guard_sites = []
        self.g2_callee_witness = None
        self.guard_falsifiable = {}      # own guard -> [fails in some model, undecided in some model]


def literal_return(db, rec_q, names):
    for n in names:
        for f in db.by_q.get(rec_q + "::" + n, []):
            e = T.one_line_return(f)
            v = astx.int_value(e) if e is not None else None
            if v is not None:
                return v
    return None


def variant_invariants(db, choice, this_name="this"):
    inv = []
    for key, rec in choice.items():
        if isinstance(key, str) and key.startswith("static:"):
            continue
        v = literal_return(db, rec, T.CAP_NAMES)
        if v is not None:
            inv.append(("cmp", "==", T.var("cap(%s)" % this_name, "st"), T.c(v)))
        v = literal_return(db, rec, T.SIZE_NAMES)
        if v is not None:
            inv.append(("cmp", "==", T.var("size(%s)" % this_name, "st"), T.c(v)))
    return inv


def _norm_static(txt):
    """(text without leading negations, polarity)"""
    pol = True
    t = txt.strip()
    while t.startswith("!") or t.startswith("not "):
        t = t[1:] if t.startswith("!") else t[4:]
        t = t.strip()
        pol = not pol
    while t.startswith("(") and t.endswith(")") and t.count("(") == t.count(")") == 1:
        t = t[1:-1].strip()
    return t, pol


def build_variants(db, func, static_conds, max_depth=3, oblige_hook=None):
    """the configuration variants of _build_variants_rec, each split further on the truth of the function's own
    `if constexpr` conditions that no configuration decides (type traits of the template arguments): the contract holds for
    every instantiation, so each arm is a program of its own. At most two distinct conditions are split (independent traits
    assumed); more stay unknown branches."""
    out = []
    for choice, prog, ctx, b in _build_variants_rec(db, func, static_conds, max_depth, oblige_hook):
        texts = set()
        for nd in P.flatten(prog):
            if nd[0] == "branch" and isinstance(nd[1], tuple) and nd[1][0] == "unk" and str(nd[1][1]).startswith("static:") \
                    and nd[4].get("depth", 0) == 0:
                texts.add(_norm_static(str(nd[1][1])[7:])[0])
        texts = sorted(texts)
        if not texts or len(texts) > 2:
            out.append((choice, prog, ctx, b))
            continue
        for combo in itertools.product((True, False), repeat=len(texts)):
            b2 = P.Builder(db, max_depth=max_depth, static_conds=static_conds, oblige_hook=oblige_hook)
            b2.choice = dict(choice)
            b2.static_exact = dict(zip(texts, combo))
            prog2, ctx2 = b2.build(func)
            ch = dict(choice)
            for t, v in zip(texts, combo):
                ch["static:" + t] = "%s is %s" % (t, "true" if v else "false")
            out.append((ch, prog2, ctx2, b2))
    return out


def _build_variants_rec(db, func, static_conds, max_depth=3, oblige_hook=None):
    """Programs of func for every configuration variant (choice among alternative base/layout records)."""
    b = P.Builder(db, max_depth=max_depth, static_conds=static_conds, oblige_hook=oblige_hook)
    prog, ctx = b.build(func)
    if not b.ambig:
        return [({}, prog, ctx, b)]
    out = []
    keys = list(b.ambig)
    for combo in itertools.product(*[sorted(k) for k in keys]):
        choice = dict(zip(keys, combo))
        # iterate: new ambiguities may show up once a choice is made
        for _ in range(3):
            b2 = P.Builder(db, max_depth=max_depth, static_conds=static_conds, oblige_hook=oblige_hook)
            b2.choice = dict(choice)
            prog2, ctx2 = b2.build(func)
            if not b2.ambig:
                break
            for k in b2.ambig:
                choice[k] = sorted(k)[0]
        out.append((choice, prog2, ctx2, b2))
        if len(out) >= 12:
            break
    return out


def sort_choices(atom_sorts):
    unk = sorted(n for n, s in atom_sorts.items() if s == "?")
    if not unk:
        return [{}]
    if len(unk) > 3:
        return [dict((n, "u") for n in unk), dict((n, "s") for n in unk)]
    return [dict(zip(unk, combo)) for combo in itertools.product("us", repeat=len(unk))]


def object_invariants(atom_sorts):
    inv = []
    for n in atom_sorts:
        if n.startswith("size(") and "#" not in n:
            o = n[5:-1]
            if ("cap(%s)" % o) in atom_sorts:
                inv.append(("cmp", "<=", T.var(n, "st"), T.var("cap(%s)" % o, "st")))
    return inv


def fmt_guard(info):
    return "%s:%s `%s`" % (info["file"], info["line"], info.get("src", ""))


def check_operation(db, func, req_text, kind="A", static_conds=None, assume=None, max_depth=3, g2_depth=2):
    """kind: 'A' argument-visible (no definite effect at all before the handler) or 'S' state-dependent
    (no effect outside the object's own storage before the handler)."""
    res = Result()
    variants = build_variants(db, func, static_conds or {}, max_depth=max_depth)
    res.variants = len(variants)
    for choice, prog, ctx, builder in variants:
        fresh_ctx = T.TermCtx(func, db)
        fresh_ctx.sorts = dict(ctx.sorts)
        req = S.parse(req_text, func, ctx=fresh_ctx)
        extra = [S.parse(a, func, ctx=fresh_ctx) for a in (assume or [])]
        if func.get("kind") == "ctor":
            kind = "S"   # an object under construction has no earlier state to preserve
            if "size(this)" in P.prog_atoms(prog) or "size(this)" in T.atoms(req):
                extra.append(("cmp", "==", T.canonical("size", "this"), T.c(0)))
            # sub-objects the constructor does not initialise itself are default-constructed: their containers are empty
            inited = set(i.get("field") for i in (func.get("inits") or []) if i.get("field"))
            for a in sorted(P.prog_atoms(prog)):
                mm = re.match(r"^size\(this\.(\w+)\)$", a)
                if mm and mm.group(1) not in inited and "#" not in a:
                    extra.append(("cmp", "==", T.var(a, "st"), T.c(0)))
        sites = [nd for nd in P.flatten(prog) if nd[0] == "guard"]
        res.guards = max(res.guards, len(sites))
        for nd in sites:
            g = fmt_guard(nd[2])
            if g not in res.guard_sites:
                res.guard_sites.append(g)
        atom_sorts = P.prog_atoms(prog)
        T.atoms(req, atom_sorts)
        for a in extra:
            T.atoms(a, atom_sorts)
        # stale (versioned) atoms and fresh loop atoms are not part of the entry state: they stay unknown
        entry_atoms = dict((n, s) for n, s in atom_sorts.items() if "#" not in n and "@L" not in n and "@X" not in n)
        # state of sub-objects whose relation to the receiver's state is not known is not entry-determined:
        # such atoms stay unassigned (guards mentioning them evaluate to unknown) unless the requirement names them
        req_atoms = T.atoms(req)
        for a in extra:
            T.atoms(a, req_atoms)
        for n in list(entry_atoms):
            if ("(this." in n or n.startswith("this.") or "local:" in n) and n not in req_atoms:
                del entry_atoms[n]
        vinv = variant_invariants(db, choice)
        for sc in sort_choices(entry_atoms):
            inst = lambda t: T.instantiate_sorts(t, sc)
            atoms_i = dict((n, sc.get(n, s)) for n, s in entry_atoms.items())
            prog_i = inst_prog(prog, sc)
            req_i = inst(req)
            invs = object_invariants(atoms_i) + vinv + [inst(a) for a in extra]
            consts = T.constants_in(req_i, set())
            for nd in P.flatten(prog_i):
                if nd[0] in ("guard", "branch"):
                    T.constants_in(nd[1], consts)
            own_guards = [nd for nd in P.flatten(prog_i) if nd[0] == "guard" and nd[2].get("depth", 0) == 0]
            for m in T.models(atoms_i, invs, constants=consts):
                res.models += 1
                # vacuity: does the function's own check ever fail?
                for nd in own_guards:
                    key = fmt_guard(nd[2])
                    st = res.guard_falsifiable.setdefault(key, [False, False])      # [can be false, was unknown]
                    tv = T.truth(nd[1], m)
                    if tv is False:
                        st[0] = True
                    elif tv is None:
                        st[1] = True
                ok = T.truth(req_i, m, math=True)
                if ok is None:
                    continue
                tr = P.run(prog_i, m)
                if not ok:
                    _judge_violating(res, tr, m, kind, choice)
                else:
                    _judge_valid(res, tr, m, g2_depth, choice)
        res.notes += builder.notes
    return res


def inst_prog(prog, sc):
    if not sc:
        return prog
    out = []
    for nd in prog:
        k = nd[0]
        if k in ("guard", "oblige", "assume"):
            out.append((k, T.instantiate_sorts(nd[1], sc), nd[2]))
        elif k == "branch":
            out.append((k, T.instantiate_sorts(nd[1], sc), inst_prog(nd[2], sc), inst_prog(nd[3], sc), nd[4]))
        elif k == "loop":
            out.append((k, T.instantiate_sorts(nd[1], sc), inst_prog(nd[2], sc), T.instantiate_sorts(nd[3], sc),
                        inst_prog(nd[4], sc), nd[5], nd[6]))
        elif k == "inline":
            out.append((k, nd[1], inst_prog(nd[2], sc), nd[3]))
        else:
            out.append(nd)
    return out


def _variant_text(choice):
    if not choice:
        return ""
    return " [variant: " + ", ".join(sorted(v.split("::")[-1] for v in choice.values())) + "]"


def _judge_violating(res, tr, m, kind, choice):
    """Req is false in model m: the handler must fire before forbidden effects."""
    forbidden = ("own", "outside", "alloc") if kind == "A" else ("outside", "alloc")
    if tr.fired is None:
        # undecidable only if something unknown happens before the first certain forbidden effect
        undecided = False
        for ev in tr.events:
            if ev[0] == "guard" and (ev[2] is None or ev[3]):
                undecided = True
                break
            if ev[0] == "effect" and ev[3]:
                undecided = True
                break
            if ev[0] == "effect" and ev[1] == "maybe" and (ev[2].get("opaque") or kind != "A"):
                undecided = True
                break
            if ev[0] == "effect" and ev[1] == "maybe" and kind == "A":
                break
            if ev[0] == "effect" and ev[1] in forbidden:
                break
        if undecided:
            if res.g1 == "PROVED":
                res.g1 = "UNKNOWN"
                res.g1_witness = "guard outcome not decidable for " + T.show_model(m) + _variant_text(choice)
            return
        nguards = sum(1 for ev in tr.events if ev[0] == "guard")
        if res.g1 not in ("REFUTED", "ABSENT"):
            res.g1 = "ABSENT" if nguards == 0 else "REFUTED"
            res.g1_witness = {"model": T.show_model(m) + _variant_text(choice),
                              "guards_evaluated": [fmt_guard(ev[1]) for ev in tr.events if ev[0] == "guard"]}
        return
    # fired: order
    for ev in tr.events:
        if ev[0] == "guard" and ev[2] is False:
            break
        # a state requirement (`size < cap`, `size > 0`) is violated exactly when the slot the operation is about lies outside
        # the element storage: constructing / destroying it before the handler runs touches memory outside that storage
        slot = kind != "A" and ev[0] == "effect" and ev[1] == "own" and ev[2].get("token") in ("construct", "destroy")
        if ev[0] == "effect" and (ev[1] in forbidden or slot) and not ev[3]:
            if res.g3 != "REFUTED":
                res.g3 = "REFUTED"
                res.g3_witness = {"model": T.show_model(m) + _variant_text(choice),
                                  "effect": "%s:%s %s %s" % (ev[2]["file"], ev[2]["line"], ev[2].get("what"),
                                                              ev[2].get("target", "")),
                                  "guard": fmt_guard(tr.fired)}
            break


def _judge_valid(res, tr, m, g2_depth, choice):
    if tr.fired is not None and 1 <= tr.fired.get("depth", 0) <= g2_depth and res.g2_callee_witness is None:
        # a valid call runs into the check of a member it calls internally
        res.g2_callee_witness = {"model": T.show_model(m) + _variant_text(choice), "guard": fmt_guard(tr.fired)}
    if tr.fired is not None and tr.fired.get("depth", 0) <= g2_depth:
        if res.g2 != "REFUTED":
            res.g2 = "REFUTED"
            res.g2_witness = {"model": T.show_model(m) + _variant_text(choice), "guard": fmt_guard(tr.fired)}
