"""Rule family FB: exactly specified <cmath> functions whose constant-evaluation path is a library-local helper.

The helper's (small, loop-free) body is evaluated over a finite domain of floating-point classes - one representative per
combination of sign, zero, integrality, distance to the next integer and exact tie - and compared with the closed-form
specification of the function. Signed zeros are distinguished. Anything outside the modelled expression subset is UNKNOWN.
"""
import math

from .. import astx

REPS = [-2.5, -1.5, -1.25, -1.0, -0.75, -0.5, -0.25, -0.0, 0.0, 0.25, 0.5, 0.75, 1.0, 1.25, 1.5, 2.5, 2.75, 3.5]
INT_TYPES = ("long", "long long", "int", "short", "unsigned", "size_t", "ptrdiff_t", "intmax_t")


class Unmodelled(Exception):
    pass


class NotConstant(Exception):
    """the evaluation performs an operation with undefined behaviour: the call is not a constant expression"""


LIMITS = {"epsilon": 2.0 ** -52, "quiet_NaN": float("nan"), "infinity": float("inf"), "max": 1.7976931348623157e308,
          "min": 2.2250738585072014e-308, "lowest": -1.7976931348623157e308, "denorm_min": 5e-324}


class Return(Exception):
    def __init__(self, v):
        self.v = v


def same(a, b):
    if isinstance(a, str) or isinstance(b, str):
        return False
    if isinstance(a, bool) or isinstance(b, bool):
        return bool(a) == bool(b)
    a, b = float(a), float(b)
    if math.isnan(a) or math.isnan(b):
        return math.isnan(a) and math.isnan(b)
    return a == b and math.copysign(1.0, a) == math.copysign(1.0, b)


def ev(e, env, int_result_types=()):
    if e is None:
        raise Unmodelled("empty expression")
    k = e.get("k")
    if k == "paren":
        return ev(e["e"], env)
    if k in ("int",):
        return int(e["v"])
    if k == "float":
        return float(e["v"])
    if k == "bool":
        return bool(e["v"])
    if k == "ref":
        if e["n"] in env:
            return env[e["n"]]
        raise Unmodelled("name " + e["n"])
    if k == "cast" or (k == "construct" and len(e.get("a", [])) == 1):
        inner = ev(e["e"] if k == "cast" else e["a"][0], env)
        ty = (e.get("ty") or "").replace("const ", "").strip()
        if "<" not in ty:
            ty = ty.split("::")[-1]
        if ty in INT_TYPES or ty in env.get("__int_types__", ()):
            if isinstance(inner, float) and (math.isinf(inner) or math.isnan(inner)):
                raise Unmodelled("conversion of a non-finite value to an integer type")
            if isinstance(inner, float) and abs(inner) >= 2.0 ** 63 and ty not in ("bool",):
                # [conv.fpint]: the truncated value cannot be represented: undefined, and not a constant expression
                raise NotConstant("conversion of %r to %s overflows" % (inner, ty))
            return int(inner)          # truncation toward zero
        if ty in ("bool",):
            return bool(inner)
        return float(inner) if not isinstance(inner, bool) else inner
    if k == "un":
        v = ev(e["e"], env)
        if e["op"] == "-":
            return -float(v) if isinstance(v, float) else -v
        if e["op"] == "+":
            return v
        if e["op"] == "!":
            return not v
        raise Unmodelled("operator " + e["op"])
    if k == "bin":
        op = e["op"]
        if op == "&&":
            return bool(ev(e["l"], env)) and bool(ev(e["r"], env))
        if op == "||":
            return bool(ev(e["l"], env)) or bool(ev(e["r"], env))
        a, b = ev(e["l"], env), ev(e["r"], env)
        if op in ("<", ">", "<=", ">=", "==", "!="):
            return {"<": a < b, ">": a > b, "<=": a <= b, ">=": a >= b, "==": a == b, "!=": a != b}[op]
        if op in ("+", "-", "*"):
            return {"+": a + b, "-": a - b, "*": a * b}[op]
        if op == "/":
            if b == 0:
                raise Unmodelled("division by zero")
            return a / b if isinstance(a, float) or isinstance(b, float) else int(a / b)
        raise Unmodelled("operator " + op)
    if k == "cond":
        return ev(e["t"], env) if ev(e["c"], env) else ev(e["f"], env)
    if k == "call":
        nm, q, recv, kind = astx.callee(e)
        qual = (e["f"].get("qual") or "") + (q or "")
        args = [ev(a, env) for a in e["a"]]
        if nm == "is_constant_evaluated" and not args:
            return True          # the constant-evaluation path is the one being evaluated
        if nm in BUILTINS and len(args) == BUILTINS[nm][0]:
            return BUILTINS[nm][1](*[float(a) for a in args])
        if nm in LIMITS and not args and "numeric_limits" in ((e["f"].get("qual") or "") + (q or "")):
            return LIMITS[nm]
        bodies = env.get("__gcem__") or {}
        if nm in bodies and env.get("__depth__", 0) < 12:
            cands = [g for g in bodies[nm] if len(g["params"]) == len(args)]
            last = None
            for g in cands:
                sub = dict((p["n"], a) for p, a in zip(g["params"], args))
                for key in ("__helpers__", "__static__", "__gcem__"):
                    sub[key] = env.get(key)
                sub["__int_types__"] = ("llint_t", "ullint_t", "long long", "unsigned long long", "int")
                sub["__depth__"] = env.get("__depth__", 0) + 1
                try:
                    run_stmt(g["body"], sub, env.get("__static__", True))
                except Return as r:
                    return r.v
                except Unmodelled as u:
                    last = u
            if last is not None:
                raise last
        if "gcem" in qual and nm in GCEM and len(args) == GCEM[nm][0] and not bodies:
            # the third-party constexpr math library is trusted to implement its documented functions
            return GCEM[nm][1](*[float(a) for a in args])
        helpers = env.get("__helpers__") or {}
        if nm in helpers and len(helpers[nm]["params"]) == len(args) and env.get("__depth__", 0) < 3:
            sub = dict((p["n"], a) for p, a in zip(helpers[nm]["params"], args))
            for key in ("__helpers__", "__static__"):
                sub[key] = env.get(key)
            sub["__int_types__"] = ()        # the callee's template parameters are its own (floating-point here)
            sub["__depth__"] = env.get("__depth__", 0) + 1
            try:
                run_stmt(helpers[nm]["body"], sub, env.get("__static__", True))
            except Return as r:
                return r.v
            raise Unmodelled("helper %s does not return" % nm)
        raise Unmodelled("call of " + str(nm))
    if k == "sizeof":
        raise Unmodelled("sizeof")
    raise Unmodelled("expression kind %s" % k)


def run_stmt(s, env, static_choice):
    if s is None:
        return
    k = s.get("k")
    if k == "seq":
        for c in s["s"]:
            run_stmt(c, env, static_choice)
    elif k == "return":
        raise Return(ev(s["e"], env) if s.get("e") is not None else None)
    elif k == "if":
        if s.get("constexpr"):
            # a static test (sizeof(T) <= sizeof(long)): both arms are alternatives of one specification
            arm = s.get("then") if static_choice else s.get("else")
            run_stmt(arm, env, static_choice)
        elif ev(s["c"], env):
            run_stmt(s.get("then"), env, static_choice)
        else:
            run_stmt(s.get("else"), env, static_choice)
    elif k == "decl":
        for v in s["vars"]:
            if "other" not in v and v.get("init") is not None:
                env[v["n"]] = ev(v["init"], env)
    elif k in ("null",):
        return
    elif k == "expr":
        e = s["e"]
        if e.get("k") == "bin" and e["op"] == "=" and astx.strip_casts(e["l"]).get("k") == "ref":
            env[astx.strip_casts(e["l"])["n"]] = ev(e["r"], env)
        else:
            ev(e, env)
    else:
        raise Unmodelled("statement kind %s" % k)


def _fmod(a, b):
    return math.fmod(a, b)


GCEM = {
    "trunc": (1, lambda x: x if math.isinf(x) or math.isnan(x) else math.copysign(float(math.trunc(x)), x)),
    "abs": (1, lambda x: math.fabs(x)),
    "fmod": (2, _fmod),
    "copysign": (2, lambda x, y: math.copysign(x, y)),
    "signbit": (1, lambda x: math.copysign(1.0, x) < 0),
    "floor": (1, lambda x: float(math.floor(x))),
    "ceil": (1, lambda x: float(math.ceil(x))),
    "round": (1, lambda x: math.copysign(float(math.floor(abs(x) + 0.5)), x)),
}


BUILTINS = {
    # compiler builtins with an exact IEEE meaning (usable in constant expressions)
    "__builtin_signbit": (1, lambda x: math.copysign(1.0, x) < 0),
    "__builtin_signbitf": (1, lambda x: math.copysign(1.0, x) < 0),
    "__builtin_signbitl": (1, lambda x: math.copysign(1.0, x) < 0),
    "__builtin_copysign": (2, lambda x, y: math.copysign(x, y)),
    "__builtin_copysignf": (2, lambda x, y: math.copysign(x, y)),
    "__builtin_copysignl": (2, lambda x, y: math.copysign(x, y)),
    "__builtin_fabs": (1, lambda x: math.fabs(x)),
    "__builtin_isnan": (1, lambda x: math.isnan(x)),
    "__builtin_isinf": (1, lambda x: math.isinf(x)),
}


def call(f, args, static_choice=True, int_tparams=(), helpers=None, gcem=None):
    env = dict((p["n"], a) for p, a in zip(f["params"], args))
    env["__int_types__"] = tuple(int_tparams)
    env["__helpers__"] = helpers or {}
    env["__gcem__"] = gcem or {}
    env["__static__"] = static_choice
    try:
        run_stmt(f["body"], env, static_choice)
    except Return as r:
        return r.v
    raise Unmodelled("no return reached")


def _in_long(v):
    if not -2 ** 63 <= v < 2 ** 63:
        raise OverflowError("the rounded value is outside the range of the result type: unspecified")
    return v


def rint_spec(x):
    r = float(round(x))             # Python rounds half to even, like the default rounding mode
    return math.copysign(r, x) if r == 0 else r


SPECS = {
    "signbit": (1, lambda x: math.copysign(1.0, x) < 0),
    "copysign": (2, lambda x, y: math.copysign(x, y)),
    "rint": (1, rint_spec),
    "nearbyint": (1, rint_spec),
    "lrint": (1, lambda x: _in_long(int(round(x)))),
    "llrint": (1, lambda x: _in_long(int(round(x)))),
    "fabs": (1, lambda x: math.fabs(x)),
    "trunc": (1, lambda x: math.copysign(float(math.trunc(x)), x)),
    "floor": (1, lambda x: math.copysign(float(math.floor(x)), x) if math.floor(x) == 0 else float(math.floor(x))),
    "ceil": (1, lambda x: math.copysign(float(math.ceil(x)), x) if math.ceil(x) == 0 else float(math.ceil(x))),
}


BIG = [4503599627370497.0, 9007199254740991.0, 4611686018427387904.0, 1e19, 1e300]
TINY = [1e-20, 5e-324]
NEG_NAN = math.copysign(float("nan"), -1.0)       # a NaN with the sign bit set: only signbit / copysign can tell it from +NaN
REPS_WIDE = REPS + BIG + [-x for x in BIG] + TINY + [-x for x in TINY] + [float("inf"), float("-inf"), float("nan"), NEG_NAN]


def check_helper(f, ident, int_return=False, helpers=None, gcem=None, reps=None):
    """returns ('ok', n) | ('bad', (args, got, want)) | ('unknown', why)"""
    if ident not in SPECS:
        return ("unknown", "no closed-form specification for " + ident)
    arity, spec = SPECS[ident]
    if len(f["params"]) != arity:
        return ("unknown", "helper arity differs from the function's")
    import itertools
    n = 0
    tps = [tp["n"] for tp in (f.get("tparams") or [])]
    ret = (f.get("ret") or "").strip()
    int_tparams = [ret] if (int_return and ret in tps) else []
    for args in itertools.product(reps or REPS, repeat=arity):
        try:
            want = spec(*args)
        except (OverflowError, ValueError):
            continue          # the specification has no finite answer here (conversion of inf / nan / huge to an integer)
        for choice in (True, False):
            try:
                got = call(f, list(args), choice, int_tparams, helpers, gcem)
            except Unmodelled as u:
                return ("unknown", str(u))
            except NotConstant as u:
                return ("bad", (args, "no constant (%s)" % u, want))
            n += 1
            if not same(got, want):
                return ("bad", (args, got, want))
    return ("ok", n)
