"""Rule family ITER (DESIGN.md 5 C06): linear-scan iterators are never dereferenced or advanced past their end check;
functor overloads use only the functor; functor-less overloads use the std-mandated default."""
import re

from .. import astx
from . import sets as SP

END_OF = [(re.compile(r"^first(\d*)$"), "last%s"), (re.compile(r"^sFirst$"), "sLast"), (re.compile(r"^s_first$"), "s_last"),
          (re.compile(r"^begin(\d*)$"), "end%s"), (re.compile(r"^f(\d*)$"), "l%s"), (re.compile(r"^first$"), "last"),
          (re.compile(r"^dFirst$"), "dLast"), (re.compile(r"^middle$"), "last"), (re.compile(r"^nFirst$"), "nLast")]
ARITH_FUNCS = {"advance", "next", "prev", "distance"}


def range_pairs(f):
    names = [p["n"] for p in f["params"]]
    pairs = {}
    for n in names:
        for rx, fmt in END_OF:
            m = rx.match(n)
            if m:
                e = fmt % m.group(1) if "%s" in fmt else fmt
                if e in names:
                    pairs[n] = e
    return pairs


def ref_name(e):
    e = astx.strip_casts(e)
    if e is not None and e.get("k") == "ref" and e.get("d") in ("param", "local"):
        return e["n"]
    return None


def atoms_of_cond(c, taken):
    """list of (op, lhs expr, rhs expr) comparisons known to be TRUE when the condition evaluates to `taken`"""
    c = astx.strip_casts(c)
    out = []
    if c is None:
        return out
    if c.get("k") == "un" and c["op"] == "!":
        return atoms_of_cond(c["e"], not taken)
    if c.get("k") == "bin" and c["op"] == "&&":
        if taken:
            return atoms_of_cond(c["l"], True) + atoms_of_cond(c["r"], True)
        return []
    if c.get("k") == "bin" and c["op"] == "||":
        if not taken:
            return atoms_of_cond(c["l"], False) + atoms_of_cond(c["r"], False)
        return []
    if c.get("k") == "bin" and c["op"] in ("!=", "=="):
        op = c["op"] if taken else ("==" if c["op"] == "!=" else "!=")
        out.append((op, c["l"], c["r"]))
    if c.get("k") == "bin" and c["op"] in ("<", ">") and taken:
        out.append(("!=", c["l"], c["r"]))      # strictly ordered positions are different positions
    return out


class Scan:
    def __init__(self, f):
        self.f = f
        self.pairs = range_pairs(f)
        self.arith = set()
        self.dec = set()
        self.dec_only_ends = set()
        self.leading = set()
        self._find_leading_and_arith()

    def _find_leading_and_arith(self):
        f = self.f
        for x in astx.all_exprs(f):
            if x.get("k") == "call" and astx.callee(x)[0] in ARITH_FUNCS:
                if astx.callee(x)[0] == "distance" and len(x["a"]) == 2 and ref_name(x["a"][0]) and ref_name(x["a"][1]) and \
                        self.pairs.get(ref_name(x["a"][0])) == ref_name(x["a"][1]):
                    continue        # distance(first, last) of a whole range only measures it: the cursor stays a plain scan cursor
                for a in x["a"]:
                    n = ref_name(a)
                    if n:
                        self.arith.add(n)
            if x.get("k") == "bin" and x["op"] in ("+", "-", "+=", "-=", "<", ">", "<=", ">="):
                ln, rn = ref_name(x["l"]), ref_name(x["r"])
                if x["op"] in ("<", ">") and ln and rn and (self.pairs.get(ln) == rn or self.pairs.get(rn) == ln):
                    continue        # `first < last` of a cursor and its own end is an end test like `first != last`
                for s in (x["l"], x["r"]):
                    n = ref_name(s)
                    if n and (n in self.pairs or n in self.pairs.values()):
                        self.arith.add(n)
            if x.get("k") == "un" and x["op"] == "--":
                n = ref_name(x["e"])
                if n:
                    self.arith.add(n)
                    self.dec.add(n)
        # a range end that is only ever stepped downwards (`--last` of two converging cursors) still bounds its begin cursor
        others = set()
        for x in astx.all_exprs(f):
            if x.get("k") == "call" and astx.callee(x)[0] in ARITH_FUNCS and astx.callee(x)[0] != "distance":
                others |= set(ref_name(a) for a in x["a"] if ref_name(a))
            if x.get("k") == "bin" and x["op"] in ("+", "-", "+=", "-="):
                others |= set(ref_name(t) for t in (x["l"], x["r"]) if ref_name(t))
        self.dec_only_ends = set(n for n in self.dec if n not in others and n in self.pairs.values())
        for s in astx.walk_stmts(f["body"]):
            if s.get("k") in ("for", "while", "do") and s.get("c") is not None:
                for op, l, r in atoms_of_cond(s["c"], True):
                    for a, b in ((l, r), (r, l)):
                        if (id(a), id(b)) in _ordered_reversed(s["c"]):
                            continue        # `j < i`: j is the cursor and i its end, never the other way round
                        a0 = astx.strip_casts(a)
                        inc = False
                        if a0 is not None and a0.get("k") == "un" and a0["op"] == "++":
                            a0 = astx.strip_casts(a0["e"])
                            inc = True
                        n = ref_name(a0) if a0 is not None else None
                        if n and ref_name(b):
                            self.leading.add((n, ref_name(b)))


def _ordered_reversed(c):
    """(id(end), id(cursor)) of every strict ordering inside a condition: the greater side of `a < b` is the end"""
    out = set()
    for x in astx.walk_expr(c) if hasattr(astx, "walk_expr") else _walk(c):
        if isinstance(x, dict) and x.get("k") == "bin" and x["op"] in ("<", ">"):
            hi, lo = (x["r"], x["l"]) if x["op"] == "<" else (x["l"], x["r"])
            out.add((id(hi), id(lo)))
    return out


def _walk(e):
    if e is None or not isinstance(e, dict):
        return
    yield e
    for c in astx.children(e):
        for y in _walk(c):
            yield y


def _end_name(b):
    """name of a range end in a comparison; `first != --last` compares with the end after stepping it down"""
    b0 = astx.strip_casts(b)
    if b0 is not None and b0.get("k") == "un" and b0["op"] == "--":
        b0 = astx.strip_casts(b0["e"])
    return ref_name(b0) if b0 is not None else None


def check_scan(chk, f, rule="IT1"):
    sc = Scan(f)
    construct = astx.sig(f)
    leaders = dict(sorted(sc.leading))
    for b, e in sc.pairs.items():
        leaders.setdefault(b, e)
    if not leaders:
        return None
    tracked = dict((v, e) for v, e in leaders.items() if v not in sc.arith and (e not in sc.arith or e in sc.dec_only_ends))
    skipped = sorted(set(leaders) - set(tracked))
    if not tracked:
        return ("not-modelled", skipped)
    bad = None
    n_paths = 0
    loop_leaders = set(v for v, e in sc.leading)
    for p in SP.paths(f["body"]):
        n_paths += 1
        checked = dict((v, False) for v in tracked)
        ends = dict(tracked)

        def visit(e, is_cond=None):
            """walk an expression in evaluation order; returns nothing, mutates checked, may set bad"""
            nonlocal bad
            if e is None or not isinstance(e, dict):
                return
            k = e.get("k")
            if k == "lambda":
                return
            if k == "un" and e["op"] in ("*", "->"):
                inner = astx.strip_casts(e["e"])
                post = None
                if inner is not None and inner.get("k") == "un" and inner["op"] in ("++",) and inner.get("postfix"):
                    post = ref_name(inner["e"])
                    n = post
                else:
                    visit(e["e"])
                    n = ref_name(inner)
                if n in checked and not checked[n] and bad is None:
                    bad = (n, e, "dereferenced")
                if post in checked:
                    checked[post] = False
                return
            if k == "un" and e["op"] == "++":
                n = ref_name(e["e"])
                if n in checked:
                    if not checked[n] and bad is None and n in loop_leaders:
                        bad = (n, e, "advanced")
                    checked[n] = False
                return
            if k == "bin" and e["op"] == "=":
                visit(e["r"])
                ln = ref_name(e["l"])
                rn = ref_name(e["r"])
                if ln in checked:
                    checked[ln] = checked.get(rn, False) if rn in checked else False
                else:
                    visit(e["l"])
                return
            if k == "bin" and e["op"] == ",":
                visit(e["l"])
                visit(e["r"])
                return
            if k == "bin" and e["op"] in ("&&", "||"):
                visit(e["l"])
                saved = dict(checked)
                for op, l, r in atoms_of_cond(e["l"], e["op"] == "&&"):
                    for a, b in ((l, r), (r, l)):
                        a0 = astx.strip_casts(a)
                        if a0 is not None and a0.get("k") == "un" and a0["op"] == "++":
                            a0 = astx.strip_casts(a0["e"])
                        n = ref_name(a0) if a0 is not None else None
                        bn = _end_name(b)
                        if n in checked and bn is not None and ends.get(n) == bn:
                            checked[n] = (op == "!=")
                visit(e["r"])
                # facts established only under the short-circuit do not survive it
                for n in saved:
                    if checked[n] and not saved[n]:
                        checked[n] = False
                return
            if k == "call":
                nm = astx.callee(e)[0]
                before = dict(checked)
                for a in e["a"]:
                    visit(a)
                fobj = e["f"]
                if fobj.get("k") == "mem":
                    visit(fobj.get("b"))
                if nm in ("iter_swap",):
                    for a in e["a"]:
                        a0 = astx.strip_casts(a)
                        n = ref_name(a)
                        state = checked.get(n)
                        if n is None and a0 is not None and a0.get("k") == "un" and a0["op"] == "++":
                            n = ref_name(a0["e"])
                            # `it++` hands over the position tested before the step, `++it` the one behind it
                            state = before.get(n) if a0.get("postfix") else False
                        if n in checked and not state and bad is None:
                            bad = (n, e, "passed to iter_swap")
                return
            for c in astx.children(e):
                visit(c)

        for ev in p:
            if ev[0] in ("cond", "backedge-cond"):
                taken = ev[2] if ev[0] == "cond" else False
                # side effects inside the condition first (++i != last)
                visit(ev[1])
                for op, l, r in atoms_of_cond(ev[1], taken):
                    for a, b in ((l, r), (r, l)):
                        a0 = astx.strip_casts(a)
                        if a0 is not None and a0.get("k") == "un" and a0["op"] == "++":
                            a0 = astx.strip_casts(a0["e"])
                        n = ref_name(a0) if a0 is not None else None
                        bn = _end_name(b)
                        if n in checked and bn is not None and ends.get(n) == bn:
                            checked[n] = (op == "!=")
            elif ev[0] == "decl":
                v = ev[1]
                if v.get("init") is not None:
                    visit(v["init"])
                    rn = ref_name(v["init"])
                    if v["n"] in checked:
                        # a leading cursor initialised from another tracked cursor inherits its state; otherwise unchecked
                        checked[v["n"]] = checked.get(rn, False) if rn in checked else False
            elif ev[0] in ("expr", "ret"):
                visit(ev[1])
    return ("ok", skipped, n_paths) if bad is None else ("bad", bad, skipped)


# ---- IT2 functor discipline --------------------------------------------------------------------------------
DEFAULTS = {
    "less": {"sort", "stable_sort", "partial_sort", "partial_sort_copy", "nth_element", "is_sorted", "is_sorted_until", "lower_bound",
             "upper_bound", "equal_range", "binary_search", "merge", "inplace_merge", "includes", "set_union", "set_intersection",
             "set_difference", "set_symmetric_difference", "min", "max", "minmax", "min_element", "max_element", "minmax_element",
             "clamp", "lexicographical_compare", "is_heap", "is_heap_until", "next_permutation", "prev_permutation", "bubble_sort",
             "insertion_sort", "merge_sort", "quick_sort", "gnome_sort", "exchange_sort"},
    "equal_to": {"mismatch", "equal", "search", "search_n", "find_end", "find_first_of", "adjacent_find", "unique", "unique_copy",
                 "is_permutation"},
    "plus": {"accumulate", "reduce", "partial_sum"},
    "minus": {"adjacent_difference"},
}
FUNCTOR_PARAM = re.compile(r"^(Compare|Predicate|BinaryPredicate|BinaryOperation|BinaryOp|BinaryPred|Comp|Pred|Func|UnaryPredicate|BinaryReductionOp|BinaryTransformOp|BinaryOp1|BinaryOp2|F|Op)\b")


def functor_params(f):
    return [p["n"] for p in f["params"] if FUNCTOR_PARAM.match(p["ty"].replace("const ", "").strip())]


def default_of(name):
    for d, names in DEFAULTS.items():
        if name in names:
            return d
    return None


def check_functor(chk, f, siblings):
    """returns list of (kind, message, node)"""
    fps = functor_params(f)
    probs = []
    name = f["n"]
    if fps:
        # elements may only be compared/combined through the functor
        derefs_compared = []
        for x in astx.all_exprs(f):
            if x.get("k") == "bin" and x["op"] in ("<", ">", "<=", ">=", "==", "!=", "+", "*") and not x.get("ovl", "") == "skip":
                def is_deref(y):
                    y = astx.strip_casts(y)
                    return y is not None and y.get("k") == "un" and y["op"] == "*"
                if is_deref(x["l"]) and is_deref(x["r"]):
                    derefs_compared.append(x)
                elif x["op"] in ("<", ">", "<=", ">=", "==", "!=") and (is_deref(x["l"]) or is_deref(x["r"])):
                    # an element compared with a *value parameter* by the built-in operator (`*first == value` at the end of
                    # binary_search): equality is not the comparator's equivalence
                    other = astx.strip_casts(x["r"] if is_deref(x["l"]) else x["l"])
                    if other is not None and other.get("k") == "ref" and other.get("d") == "param" and other.get("n") not in fps and \
                            not re.search(r"It\b|Iter|Sentinel", (other.get("ty") or "")):
                        derefs_compared.append(x)
        for x in derefs_compared:
            probs.append(("functor-bypassed", "elements are combined with `%s` although the overload takes `%s`" % (astx.show(x, 50), fps[0]), x))
        used = set(y["n"] for y in astx.all_exprs(f) if y.get("k") == "ref" and y["n"] in fps)
        for p in fps:
            if p not in used:
                probs.append(("functor-unused", "the functor parameter `%s` is never used" % p, None))
        return probs
    # overload without functor: delegates with the mandated default or applies that operator
    want = default_of(name)
    if want is None:
        return None
    has_sibling = any(functor_params(s) for s in siblings if s is not f and s["n"] == name)
    if not has_sibling:
        return None
    body = f["body"]["s"] if f["body"].get("k") == "seq" else []
    deleg = None
    for x in astx.all_exprs(f):
        if x.get("k") == "call" and astx.callee(x)[0] == name:
            deleg = x
    if deleg is None:
        return None
    passed = None
    for a in deleg["a"]:
        a0 = astx.strip_casts(a)
        t = None
        if a0 is not None and a0.get("k") in ("construct", "cast"):
            t = a0.get("ty", "")
        elif a0 is not None and a0.get("k") == "initlist":
            t = None
        elif a0 is not None and a0.get("k") == "call" and astx.callee(a0)[0] in sum([list(v) for v in []], []):
            t = None
        if t:
            m = re.search(r"(less_equal|greater_equal|not_equal_to|equal_to|less|greater|plus|minus|multiplies|divides)", t)
            if m:
                passed = m.group(1)
    if passed is None:
        return [("default-unrecognised", None, deleg)]
    if passed != want:
        probs.append(("wrong-default-functor", "`%s` without a functor delegates with `%s` (the standard mandates `%s`)" % (name, passed, want), deleg))
    return probs


# ---- IT3 output-cursor typestate -----------------------------------------------------------------------------
def output_cursors(f):
    """parameters whose type is the function's return type and that are written through (`*p = ...`)"""
    ret = (f.get("ret") or "").strip()
    cands = [p["n"] for p in f["params"] if p["ty"].strip() == ret and p["n"]]
    out = []
    for n in cands:
        for x in astx.all_exprs(f, into_lambdas=False):
            if x.get("k") == "bin" and x["op"] == "=":
                l = astx.strip_casts(x["l"])
                if l is not None and l.get("k") == "un" and l["op"] == "*":
                    t = astx.strip_casts(l["e"])
                    while t is not None and t.get("k") in ("un", "paren") and t.get("op", "++") in ("++",):
                        t = astx.strip_casts(t.get("e"))
                    if t is not None and t.get("k") == "ref" and t.get("n") == n:
                        out.append(n)
                        break
    return out


def check_output(chk, f, rule="IT3"):
    """The iterator returned by a copying/generating algorithm is one past the last element written: on every structural
    path the cursor's state at `return cursor` is 'fresh' (advanced after its last write) unless nothing was written.
    Returns None when the function has no output cursor, else ('ok', paths) | ('bad', (cursor, return node, path))"""
    curs = output_cursors(f)
    if not curs:
        return None
    bad = None
    npaths = 0
    gaps = f.setdefault("_it3_gaps", [])
    del gaps[:]
    for p in SP.paths(f["body"]):
        npaths += 1
        state = dict((c, "fresh") for c in curs)     # 'fresh' | 'written'
        alias = {}

        def visit(e):
            if e is None or not isinstance(e, dict):
                return
            k = e.get("k")
            if k == "lambda":
                return
            if k == "bin" and e["op"] == "=":
                visit(e["r"])
                l = astx.strip_casts(e["l"])
                if l is not None and l.get("k") == "un" and l["op"] == "*":
                    inner = astx.strip_casts(l["e"])
                    if inner is not None and inner.get("k") == "un" and inner["op"] == "++":
                        n = ref_name(inner["e"])
                        if n in state:
                            # *d++ = v : write then advance -> fresh ; *(++d) = v : advance then write -> written
                            state[n] = "fresh" if inner.get("postfix") else "written"
                            return
                    n = ref_name(inner)
                    if n in state:
                        state[n] = "written"
                        return
                visit(e["l"])
                ln, rn = ref_name(e["l"]), ref_name(e["r"])
                if ln in state and rn not in state:
                    state[ln] = "fresh"       # re-seated from a computed position (d = copy(...))
                return
            if k == "un" and e["op"] in ("++",):
                n = ref_name(e["e"])
                if n in state:
                    if state[n] == "fresh" and not gaps:
                        gaps.append((n, e, p))      # stepped twice without a write in between: an output slot is skipped
                    state[n] = "fresh"
                    return
            if k == "bin" and e["op"] == "+=":
                n = ref_name(e["l"])
                if n in state:
                    state[n] = "fresh"
                    return
            if k == "call":
                for a in e["a"]:
                    visit(a)
                return
            for c in astx.children(e):
                visit(c)

        for ev in p:
            if ev[0] in ("cond", "backedge-cond", "expr"):
                visit(ev[1])
            elif ev[0] == "decl" and ev[1].get("init") is not None:
                visit(ev[1]["init"])
            elif ev[0] == "ret":
                r = astx.strip_casts(ev[1]) if ev[1] is not None else None
                n = ref_name(r) if r is not None else None
                if n in state and state[n] == "written" and bad is None:
                    bad = (n, ev[1], p)
                elif r is not None:
                    visit(r)
    return ("ok", npaths) if bad is None else ("bad", bad)


# ---- IT4 downward scans include the first element ----------------------------------------------------------------
def check_reverse(chk, f):
    """A downward scan `for (...; c != first; --c) use(*c)` uses the element before it steps and stops as soon as c equals
    the beginning of the range, so the range's first element is never visited. Reported when that element is not handled
    after the loop either. Returns list of (cursor, begin, loop stmt) instances with verdict."""
    begins = set(range_pairs(f).keys())
    out = []
    body = f.get("body")
    if body is None or not begins:
        return out
    stmts_after = {}

    def derefs(node_iter, name):
        for x in node_iter:
            if x.get("k") == "un" and x["op"] in ("*", "->") and ref_name(x["e"]) == name:
                return True
        return False

    all_stmts = list(astx.walk_stmts(body))
    for s0 in all_stmts:
        if s0.get("k") not in ("for", "while") or s0.get("c") is None:
            continue
        pairs = []
        for op, l, r in atoms_of_cond(s0["c"], True):
            if op != "!=":
                continue
            for a, b in ((l, r), (r, l)):
                an, bn = ref_name(a), ref_name(b)
                if an and bn in begins and an != bn:
                    pairs.append((an, bn))
        for c, b in pairs:
            inc = s0.get("inc")
            dec_in_inc = inc is not None and any(x.get("k") == "un" and x["op"] == "--" and ref_name(x["e"]) == c for x in astx.walk_expr(inc))
            body_exprs = list(astx.walk_stmt_exprs(s0.get("body"), into_lambdas=False))
            inc_any = any(x.get("k") == "un" and x["op"] == "++" and ref_name(x["e"]) == c for x in body_exprs)
            if inc_any:
                continue
            # order inside the body: first use vs first decrement
            first_use = first_dec = None
            for i, x in enumerate(body_exprs):
                if first_use is None and x.get("k") == "un" and x["op"] in ("*", "->") and ref_name(x["e"]) == c:
                    first_use = i
                if first_dec is None and x.get("k") == "un" and x["op"] == "--" and ref_name(x["e"]) == c:
                    first_dec = i
            if first_use is None:
                continue
            if not dec_in_inc and first_dec is None:
                continue
            if first_dec is not None and first_dec < first_use:
                continue            # steps before it uses: visits first
            # neighbours reached through c (prev(c), c - 1) cover the first element
            if any((x.get("k") == "call" and astx.callee(x)[0] in ("prev",) and x["a"] and ref_name(x["a"][0]) == c) or
                   (x.get("k") == "bin" and x["op"] == "-" and ref_name(x["l"]) == c) for x in body_exprs):
                continue
            # handled after the loop?
            idx = all_stmts.index(s0)
            inner = set(id(t) for t in astx.walk_stmts(s0))
            later = [t for t in all_stmts[idx + 1:] if id(t) not in inner]
            handled = False
            for t in later:
                for e in astx.stmt_exprs(t):
                    if derefs(astx.walk_expr(e), c) or derefs(astx.walk_expr(e), b):
                        # a later loop of the same shape over the same cursor does not count (it excludes first as well)
                        if t.get("k") in ("for", "while") and t is not s0:
                            continue
                        handled = True
            out.append((c, b, s0, handled))
    return out


# ---- IT5 configuration agreement on range ends -------------------------------------------------------------------
def check_static_agreement(f):
    """`if constexpr` alternatives of one algorithm must consult the same range-end parameters: an end that only one
    alternative reads means the other alternative's result cannot depend on the length of that range (equal / is_permutation
    with non-random-access iterators). Returns list of (end parameter, condition text) that disagree."""
    pairs = range_pairs(f)
    if not pairs or f.get("body") is None:
        return None
    ends = set(pairs.values())
    has_static = any(st.get("k") == "if" and st.get("constexpr") for st in astx.walk_stmts(f["body"]))
    if not has_static:
        return None
    groups = {}
    for p in SP.paths(f["body"]):
        key = []
        reads = set()
        for ev in p:
            if ev[0] == "cond" and _is_static_cond(f, ev[1]):
                key.append((astx.show(ev[1], 60), ev[2]))
            for e in SP.event_exprs(ev):
                for x in astx.walk_expr(e, into_lambdas=True):
                    if x.get("k") == "ref" and x.get("d") == "param" and x["n"] in ends:
                        reads.add(x["n"])
        groups.setdefault(tuple(key), set()).update(reads)
    if len(groups) < 2:
        return []
    union = set()
    for r in groups.values():
        union |= r
    out = []
    for key, r in groups.items():
        for e in sorted(union - r):
            out.append((e, "; ".join("%s is %s" % (c, "true" if t else "false") for c, t in key)))
    return out


def _is_static_cond(f, cond):
    for st in astx.walk_stmts(f["body"]):
        if st.get("k") == "if" and st.get("constexpr") and st.get("c") is cond:
            return True
    return False


# ---- TIE-ELEM: which of several equivalent elements the *_element algorithms return ---------------------------------
ELEMENT_SPEC = {
    # holder role -> set of orderings ord(*candidate, *holder) in which the holder must be replaced
    "min_element": [("single", {"<"})],                       # first smallest
    "max_element": [("single", {">"})],                       # first largest
    "minmax_element": [("first", {"<"}), ("second", {">", "="})],   # first smallest, last largest
}


def check_extremes(f):
    """For every assignment `holder = cursor` of an extreme holder: the controlling tests that compare *cursor with *holder
    hold exactly in the orderings in which the standard replaces the holder. Returns list of (holder, node, ordering, got,
    want) problems, or None when the function is not one of the *_element algorithms / has no comparator parameter."""
    spec = ELEMENT_SPEC.get(f["n"])
    cmp_params = functor_params(f)
    if spec is None or not cmp_params or f.get("body") is None:
        return None
    from . import sets as SR
    # holders: locals returned
    rets = [st for st in astx.walk_stmts(f["body"]) if st.get("k") == "return" and st.get("e") is not None]
    holders = {}
    for r in rets:
        e = astx.strip_casts(r["e"])
        if e is None:
            continue
        if e.get("k") == "ref" and e.get("d") == "local":
            holders[e["n"]] = "single"
        elif e.get("k") in ("initlist", "construct", "call"):
            args = e.get("a", [])
            if len(args) == 1 and args[0] is not None and args[0].get("k") == "initlist":
                args = args[0]["a"]
            if len(args) == 2:
                for a, role in zip(args, ("first", "second")):
                    n = ref_name(a)
                    if n:
                        holders.setdefault(n, role)
    want = dict(spec)
    problems = []
    instances = 0

    def walk(st, conds):
        nonlocal instances
        if st is None:
            return
        k = st.get("k")
        if k == "seq":
            for c in st["s"]:
                walk(c, conds)
        elif k == "if":
            walk(st.get("then"), conds + [(st["c"], True)])
            if st.get("else"):
                walk(st.get("else"), conds + [(st["c"], False)])
        elif k in ("for", "while", "do"):
            walk(st.get("body"), conds)
        elif k == "expr":
            e = st["e"]
            if e.get("k") == "bin" and e["op"] == "=":
                h, c = ref_name(e["l"]), ref_name(e["r"])
                if h in holders and c and holders[h] in want:
                    rel = [(cd, tk) for cd, tk in conds if SR.mentions(cd, {h}) and SR.mentions(cd, {c})]
                    if not rel:
                        return
                    instances += 1
                    for o in "<=>":
                        vals = []
                        for cd, tk in rel:
                            t = SR.pred_truth(cd, {c}, {h}, set(cmp_params), o)
                            vals.append(None if t is None else (t == tk))
                        if None in vals:
                            return
                        got = all(vals)
                        need = o in want[holders[h]]
                        if got != need:
                            problems.append((h, e, o, got, need))

    walk(f["body"], [])
    return problems, instances


# ---- MERGE3: one step of the two-range merge algorithms, decided per ordering of the two heads -------------------
MERGE_SPEC = {
    # ordering of (*first1, *first2) -> (advance of first1, advance of first2, sources written to the output)
    "set_union": {"<": (1, 0, ["1"]), "=": (1, 1, ["1"]), ">": (0, 1, ["2"])},
    "set_intersection": {"<": (1, 0, []), "=": (1, 1, ["1"]), ">": (0, 1, [])},
    "set_difference": {"<": (1, 0, ["1"]), "=": (1, 1, []), ">": (0, 1, [])},
    "set_symmetric_difference": {"<": (1, 0, ["1"]), "=": (1, 1, []), ">": (0, 1, ["2"])},
    "merge": {"<": (1, 0, ["1"]), "=": (1, 0, ["1"]), ">": (0, 1, ["2"])},
}


class _StepUnmodelled(Exception):
    pass


def merge_step(f, o):
    """interpret one iteration of the (first) loop of a merge-like algorithm with both ranges non-empty and
    ord(*first1, *first2) = o; returns (adv1, adv2, outputs)"""
    from . import sets as SR
    ps = [p["n"] for p in f["params"]]
    if len(ps) < 6:
        raise _StepUnmodelled("fewer than six parameters")
    f1, l1, f2, l2, dest = ps[0], ps[1], ps[2], ps[3], ps[4]
    cmps = set(functor_params(f))
    loops = [st for st in (f["body"]["s"] if f["body"].get("k") == "seq" else [f["body"]]) if st.get("k") in ("for", "while")]
    if not loops:
        raise _StepUnmodelled("no top-level loop")
    loop = loops[0]
    state = {"adv1": 0, "adv2": 0, "out": []}

    def truth(c):
        c0 = astx.strip_casts(c)
        if c0 is None:
            raise _StepUnmodelled("empty condition")
        k = c0.get("k")
        if k == "paren":
            return truth(c0.get("e"))
        if k == "un" and c0["op"] == "!":
            return not truth(c0["e"])
        if k == "bin" and c0["op"] == "&&":
            return truth(c0["l"]) and truth(c0["r"])
        if k == "bin" and c0["op"] == "||":
            return truth(c0["l"]) or truth(c0["r"])
        if k == "bin" and c0["op"] in ("==", "!="):
            names = {ref_name(c0["l"]), ref_name(c0["r"])}
            if names in ({f1, l1}, {f2, l2}):
                return c0["op"] == "!="          # both ranges still have elements
        t = SR.pred_truth(c0, {f1}, {f2}, cmps, o)
        if t is None:
            raise _StepUnmodelled("condition `%s`" % astx.show(c0, 40))
        return t

    def source_of(e):
        e0 = astx.strip_casts(e)
        if e0 is not None and e0.get("k") == "un" and e0["op"] == "*":
            inner = astx.strip_casts(e0["e"])
            post = False
            if inner is not None and inner.get("k") == "un" and inner["op"] == "++":
                post = True
                n = ref_name(inner["e"])
            else:
                n = ref_name(inner)
            if n == f1:
                if post:
                    state["adv1"] += 1
                return "1"
            if n == f2:
                if post:
                    state["adv2"] += 1
                return "2"
        raise _StepUnmodelled("written value `%s`" % astx.show(e, 30))

    def effect(e):
        e0 = astx.strip_casts(e)
        if e0 is None:
            return
        k = e0.get("k")
        if k == "bin" and e0["op"] == ",":
            effect(e0["l"])
            effect(e0["r"])
            return
        if k == "un" and e0["op"] == "++":
            n = ref_name(e0["e"])
            if n == f1:
                state["adv1"] += 1
            elif n == f2:
                state["adv2"] += 1
            elif n != dest:
                raise _StepUnmodelled("increment of `%s`" % n)
            return
        if k == "bin" and e0["op"] == "=":
            l = astx.strip_casts(e0["l"])
            if l is not None and l.get("k") == "un" and l["op"] == "*":
                inner = astx.strip_casts(l["e"])
                if inner is not None and inner.get("k") == "un" and inner["op"] == "++":
                    inner = astx.strip_casts(inner["e"])
                if ref_name(inner) == dest:
                    state["out"].append(source_of(e0["r"]))
                    return
            raise _StepUnmodelled("assignment `%s`" % astx.show(e0, 30))
        if k == "call":
            raise _StepUnmodelled("call `%s`" % astx.show(e0, 30))
        raise _StepUnmodelled("expression `%s`" % astx.show(e0, 30))

    def run(st):
        """returns 'next' | 'continue' | 'break' | 'return'"""
        if st is None:
            return "next"
        k = st.get("k")
        if k == "seq":
            for c in st["s"]:
                r = run(c)
                if r != "next":
                    return r
            return "next"
        if k == "if":
            br = st.get("then") if truth(st["c"]) else st.get("else")
            return run(br) if br else "next"
        if k == "expr":
            effect(st["e"])
            return "next"
        if k == "continue":
            return "continue"
        if k == "break":
            return "break"
        if k == "return":
            return "return"
        if k == "null":
            return "next"
        raise _StepUnmodelled("statement %s" % k)

    if loop.get("c") is not None and not truth(loop["c"]):
        raise _StepUnmodelled("the loop is not entered with two non-empty ranges")
    r = run(loop.get("body"))
    if r == "return":
        raise _StepUnmodelled("the step returns")
    if loop.get("k") == "for" and loop.get("inc") is not None and r in ("next", "continue"):
        effect(loop["inc"])
    return state["adv1"], state["adv2"], state["out"]


# ---- IT4i index form of the downward scan ---------------------------------------------------------------------------
def check_reverse_index(f):
    """`for (i = hi; i != 0; --i) use(x[i])` (or `while (i != 0) { use(x[i]); --i; }`) tests the index before the body and
    steps after it: index 0 is never used. Reported unless the body reaches a neighbour (`i - 1`), steps before it uses,
    or index 0 is handled behind the loop. Returns [(index name, loop stmt, handled)]."""
    out = []
    body = f.get("body")
    if body is None:
        return out
    all_stmts = list(astx.walk_stmts(body))

    def is_name(e, n):
        return ref_name(e) == n

    def zero(e):
        e = astx.strip_casts(e)
        if e is None:
            return False
        if astx.int_value(e) == 0:
            return True
        return e.get("k") in ("construct", "initlist") and not e.get("a")

    for s0 in all_stmts:
        if s0.get("k") not in ("for", "while") or s0.get("c") is None:
            continue
        idx = None
        for op, l, r in atoms_of_cond(s0["c"], True):
            for a, b, o in ((l, r, op), (r, l, {"<": ">", ">": "<", "<=": ">=", ">=": "<="}.get(op, op))):
                if ref_name(a) and zero(b) and o in ("!=", ">"):
                    # the test must read the plain index (not `i--`)
                    idx = ref_name(a)
        if idx is None:
            # `while (--i != 0) use(x[i])`: the step is part of the test, the body only ever sees i >= 1
            for op, l, r in atoms_of_cond(s0["c"], True):
                for a, b, o in ((l, r, op), (r, l, {"<": ">", ">": "<", "<=": ">=", ">=": "<="}.get(op, op))):
                    a0 = astx.strip_casts(a)
                    if a0 is not None and a0.get("k") == "un" and a0["op"] == "--" and not a0.get("postfix") and ref_name(a0["e"]) \
                            and zero(b) and o in ("!=", ">"):
                        pre = ref_name(a0["e"])
                        body_exprs = list(astx.walk_stmt_exprs(s0.get("body"), into_lambdas=True))
                        if any(x.get("k") == "un" and x["op"] in ("++", "--") and is_name(x["e"], pre) for x in body_exprs):
                            continue
                        if any(x.get("k") == "bin" and x["op"] == "-" and is_name(x["l"], pre) for x in body_exprs):
                            continue
                        uses = any((x.get("k") == "idx" and any(is_name(y, pre) for y in astx.walk_expr(x.get("i")))) or
                                   (x.get("k") == "call" and any(is_name(a1, pre) for a1 in x["a"])) for x in body_exprs)
                        if not uses:
                            continue
                        pos0 = all_stmts.index(s0)
                        inner0 = set(id(t) for t in astx.walk_stmts(s0))
                        handled0 = False
                        for t in [t for t in all_stmts[pos0 + 1:] if id(t) not in inner0]:
                            for e in astx.stmt_exprs(t):
                                for x in astx.walk_expr(e, into_lambdas=True):
                                    if x.get("k") == "idx" and zero(x.get("i")):
                                        handled0 = True
                                    if x.get("k") == "call" and (astx.callee(x)[0] in ("front", "begin", "data") or any(zero(a1) for a1 in x["a"])):
                                        handled0 = True
                                    if is_name(x, pre):
                                        handled0 = True
                        out.append((pre, s0, handled0))
            continue
        if any(x.get("k") == "un" and x["op"] in ("--", "++") and is_name(x["e"], idx) for x in astx.walk_expr(s0["c"])):
            continue
        inc = s0.get("inc")
        dec_in_inc = inc is not None and any(x.get("k") == "un" and x["op"] == "--" and is_name(x["e"], idx) for x in astx.walk_expr(inc))
        body_exprs = list(astx.walk_stmt_exprs(s0.get("body"), into_lambdas=True))
        if any(x.get("k") == "un" and x["op"] == "++" and is_name(x["e"], idx) for x in body_exprs):
            continue
        if any(x.get("k") == "bin" and x["op"] in ("=", "+=", "-=", ">>=", "/=") and is_name(x["l"], idx) for x in body_exprs):
            continue        # not a unit-step scan
        first_use = first_dec = None
        for i, x in enumerate(body_exprs):
            used = False
            if x.get("k") == "idx" and any(is_name(y, idx) for y in astx.walk_expr(x.get("i") if x.get("i") is not None else x.get("r"))):
                used = True
            if x.get("k") == "call" and any(is_name(a, idx) for a in x["a"]):
                used = True
            if x.get("k") == "bin" and x["op"] == "+" and (is_name(x["l"], idx) or is_name(x["r"], idx)):
                used = True
            if used and first_use is None:
                first_use = i
            if first_dec is None and x.get("k") == "un" and x["op"] == "--" and is_name(x["e"], idx):
                first_dec = i
        if first_use is None:
            continue
        if not dec_in_inc and first_dec is None:
            continue
        if first_dec is not None and first_dec < first_use:
            continue
        if any(x.get("k") == "bin" and x["op"] == "-" and is_name(x["l"], idx) for x in body_exprs):
            continue            # reaches i - 1
        pos = all_stmts.index(s0)
        inner = set(id(t) for t in astx.walk_stmts(s0))
        later = [t for t in all_stmts[pos + 1:] if id(t) not in inner]
        handled = False
        for t in later:
            for e in astx.stmt_exprs(t):
                for x in astx.walk_expr(e, into_lambdas=True):
                    if x.get("k") == "idx" and zero(x.get("i") if x.get("i") is not None else x.get("r")):
                        handled = True
                    if x.get("k") == "call" and (astx.callee(x)[0] in ("front", "begin", "data") or any(zero(a) for a in x["a"])):
                        handled = True
                    if is_name(x, idx):
                        handled = True      # the index is consulted again behind the loop (it is 0 there)
        out.append((idx, s0, handled))
    return out


_FIX_CACHE = {}


def reverse_index_area(chk, db, prefixes, rule="IT4i"):
    """IT4i over every function of the area; positive control from fixtures/iter_pos.hpp (the expected count is zero)."""
    import os
    from .. import db as D
    n = 0
    for f in db.funcs:
        if f.get("body") is None or not any(f["file"].startswith(p) for p in prefixes):
            continue
        for idx, s0, handled in check_reverse_index(f):
            n += 1
            label = "%s :: downward scan over `%s` at line %s" % (astx.sig(f), idx, s0.get("line"))
            chk.instance(rule)
            chk.obligation(rule, label, handled)
            if not handled:
                chk.violation(rule, label, "first-element-skipped", "%s: the loop tests `%s` against 0 before each use and steps after it, so "
                              "index 0 is never looked at and nothing behind the loop handles it" % (astx.loc(f, s0), idx), {"where": astx.loc(f)})
    fixture = os.path.join(D.VERIF, "fixtures", "iter_pos.hpp")
    if "fx" not in _FIX_CACHE:
        _FIX_CACHE["fx"] = D.load_source('#include "%s"\n' % fixture, root=os.path.dirname(fixture) + "/", tag="fixture-iter")
    fxf = dict((g["n"], g) for g in _FIX_CACHE["fx"].funcs)
    r = check_reverse_index(fxf["last_not_space"]) if "last_not_space" in fxf else []
    if not any(not h for _i, _s, h in r):
        chk.analysis_broken("%s: the positive control fixture::last_not_space was not reported" % rule)
    return n


# ---- BISECT: one step of a bisection keeps exactly the half that can still hold the answer ---------------------------
class _BNM(Exception):
    pass


class _L:
    """linear form over the symbols F (window begin), C (window length), S (probe distance): {sym: coef} + const"""

    def __init__(self, d=None, c=0):
        self.d = dict((k, v) for k, v in (d or {}).items() if v)
        self.c = c

    def __add__(self, o):
        d = dict(self.d)
        for k, v in o.d.items():
            d[k] = d.get(k, 0) + v
        return _L(d, self.c + o.c)

    def __sub__(self, o):
        d = dict(self.d)
        for k, v in o.d.items():
            d[k] = d.get(k, 0) - v
        return _L(d, self.c - o.c)

    def __eq__(self, o):
        return self.d == o.d and self.c == o.c

    def __repr__(self):
        parts = []
        for k in sorted(self.d):
            v = self.d[k]
            parts.append(("" if v == 1 else ("-" if v == -1 else "%d*" % v)) + k)
        if self.c or not parts:
            parts.append(str(self.c))
        return " + ".join(parts).replace("+ -", "- ")


_NAMES = {"F": "first", "C": "count", "S": "step"}


def check_bisect(f):
    """Bisection loops `while (count > 0) { step = count / 2; probe = first + step; if (test(*probe)) {...} else {...} }`.
    The body is executed symbolically once per structural path with first = F, count = C, count / 2 = S (0 <= S < C).
    A path must leave either the window behind the probe, (first', first' + count') = (F + S + 1, F + C), or the window
    before it, (F, F + S): any other result drops a candidate or reaches outside [first, last).
    Returns [(loop stmt, ok | None, message)]."""
    from . import sets as SP
    out = []
    body = f.get("body")
    if body is None:
        return out
    stmts = list(astx.walk_stmts(body))
    # count variable <- distance(first, last)
    dist = {}
    for st in stmts:
        cands = []
        if st.get("k") == "decl":
            cands = [(v["n"], v.get("init")) for v in st["vars"] if "other" not in v and v.get("init") is not None]
        if st.get("k") == "expr":
            e = astx.strip_casts(st["e"])
            if e is not None and e.get("k") == "bin" and e["op"] == "=" and ref_name(e["l"]):
                cands = [(ref_name(e["l"]), e["r"])]
        for nme, init in cands:
            i0 = astx.strip_casts(init)
            if i0 is not None and i0.get("k") == "call" and astx.callee(i0)[0] == "distance" and len(i0["a"]) == 2 and ref_name(i0["a"][0]):
                dist[nme] = ref_name(i0["a"][0])
    for s0 in stmts:
        if s0.get("k") != "while" or s0.get("c") is None:
            continue
        cnt = None
        c0 = astx.strip_casts(s0["c"])
        if c0 is not None and c0.get("k") == "bin" and c0["op"] in (">", "!=", "<"):
            l, r = (c0["l"], c0["r"]) if c0["op"] != "<" else (c0["r"], c0["l"])
            r0 = astx.strip_casts(r)
            if ref_name(l) in dist and r0 is not None and (astx.int_value(r0) == 0 or (r0.get("k") in ("construct", "initlist") and not r0.get("a"))):
                cnt = ref_name(l)
        if cnt is None:
            continue
        first = dist[cnt]
        halves = [x for x in astx.walk_stmt_exprs(s0.get("body"), into_lambdas=False) if x.get("k") == "bin" and x["op"] in ("/", ">>")
                  and ref_name(x["l"]) == cnt]
        if not halves:
            continue
        verdict, msg = True, ""
        npaths = 0
        for p in SP.paths(s0.get("body")):
            if p and p[-1][0] in ("ret", "break"):
                continue
            env = {first: _L({"F": 1}), cnt: _L({"C": 1})}

            def ev(e):
                e = astx.strip_casts(e)
                while e is not None and (e.get("k") == "paren" or (e.get("k") in ("construct", "initlist") and len(e.get("a", [])) == 1)):
                    e = astx.strip_casts(e.get("e") if e.get("k") == "paren" else e["a"][0])
                if e is None:
                    raise _BNM("empty expression")
                k = e.get("k")
                iv = astx.int_value(e)
                if iv is not None:
                    return _L(c=iv)
                if k == "ref":
                    if e["n"] in env:
                        return env[e["n"]]
                    raise _BNM("`%s` is read before the loop body defines it" % e["n"])
                if k == "bin" and e["op"] in ("+", "-"):
                    a, b = ev(e["l"]), ev(e["r"])
                    return a + b if e["op"] == "+" else a - b
                if k == "bin" and ((e["op"] == "/" and astx.int_value(astx.strip_casts(e["r"])) == 2) or
                                   (e["op"] == ">>" and astx.int_value(astx.strip_casts(e["r"])) == 1)):
                    if ev(e["l"]) == _L({"C": 1}):
                        return _L({"S": 1})
                    raise _BNM("halves something other than the window length")
                if k == "bin" and e["op"] in ("=", "+=", "-=") and ref_name(e["l"]):
                    nme = ref_name(e["l"])
                    v = ev(e["r"])
                    if e["op"] != "=":
                        cur = ev(e["l"])
                        v = cur + v if e["op"] == "+=" else cur - v
                    env[nme] = v
                    return v
                if k == "un" and e["op"] in ("++", "--") and ref_name(e["e"]):
                    nme = ref_name(e["e"])
                    old = ev(e["e"])
                    new = old + _L(c=1) if e["op"] == "++" else old - _L(c=1)
                    env[nme] = new
                    return old if e.get("postfix") else new
                if k == "call":
                    nm = astx.callee(e)[0]
                    if nm == "next" and len(e["a"]) in (1, 2):
                        return ev(e["a"][0]) + (ev(e["a"][1]) if len(e["a"]) == 2 else _L(c=1))
                    if nm == "prev" and len(e["a"]) in (1, 2):
                        return ev(e["a"][0]) - (ev(e["a"][1]) if len(e["a"]) == 2 else _L(c=1))
                    if nm == "advance" and len(e["a"]) == 2 and ref_name(e["a"][0]):
                        env[ref_name(e["a"][0])] = ev(e["a"][0]) + ev(e["a"][1])
                        return env[ref_name(e["a"][0])]
                    if nm in ("move", "forward") and len(e["a"]) == 1:
                        return ev(e["a"][0])
                raise _BNM("`%s`" % astx.show(e, 40))
            try:
                for evn in p:
                    if evn[0] == "decl":
                        v = evn[1]
                        if v.get("init") is not None:
                            i0 = astx.strip_casts(v["init"])
                            if i0 is not None and i0.get("k") in ("construct", "initlist") and not i0.get("a"):
                                continue
                            env[v["n"]] = ev(v["init"])
                    elif evn[0] == "expr":
                        e = astx.strip_casts(evn[1])
                        if e is not None and e.get("k") == "bin" and e["op"] == ",":
                            ev(e["l"])
                            ev(e["r"])
                        else:
                            try:
                                ev(evn[1])
                            except _BNM:
                                # an expression statement that assigns neither the window begin nor its length is irrelevant
                                if any(ref_name(x.get("l")) in (first, cnt) for x in astx.walk_expr(evn[1]) if x.get("k") == "bin" and x["op"].endswith("=")):
                                    raise
                f1, c1 = env[first], env[cnt]
            except _BNM as ex:
                if verdict is True:
                    verdict, msg = None, "a path through the loop body is not modelled: %s" % ex
                continue
            npaths += 1
            end1 = f1 + c1
            behind = f1 == _L({"F": 1, "S": 1}, 1) and end1 == _L({"F": 1, "C": 1})
            before = f1 == _L({"F": 1}) and end1 == _L({"F": 1, "S": 1})
            if not (behind or before):
                def nm(x):
                    t = repr(x)
                    for a, b in _NAMES.items():
                        t = t.replace(a, b)
                    return t
                verdict = False
                msg = ("one step leaves the window [%s, %s) where only [first + step + 1, first + count) (answer behind the probe) or "
                       "[first, first + step) (answer at or before it) keep every candidate inside the range" % (nm(f1), nm(end1)))
                break
        if npaths == 0 and verdict is True:
            verdict, msg = None, "no path through the loop body reaches its end"
        out.append((s0, verdict, msg))
    return out


def bisect_area(chk, db, prefixes, rule="BISECT", floor=0):
    n = 0
    for f in db.funcs:
        if f.get("body") is None or not any(f["file"].startswith(p) for p in prefixes):
            continue
        for s0, verdict, msg in check_bisect(f):
            n += 1
            label = "%s :: bisection loop at line %s" % (astx.sig(f), s0.get("line"))
            chk.instance(rule)
            chk.obligation(rule, label, verdict)
            if verdict is False:
                chk.violation(rule, label, "bisection-step", "%s: %s" % (astx.loc(f, s0), msg), {"where": astx.loc(f)})
            elif verdict is None:
                chk.unknown_instance(rule, label, msg)
    if n < floor:
        chk.analysis_broken("%s: only %d bisection loops found in %s (floor %d)" % (rule, n, ", ".join(prefixes), floor))
    # positive control (a library without any bisection loop is legitimate: the floor is 0 by default)
    import os
    from .. import db as D
    fixture = os.path.join(D.VERIF, "fixtures", "iter_pos.hpp")
    if "fx" not in _FIX_CACHE:
        _FIX_CACHE["fx"] = D.load_source('#include "%s"\n' % fixture, root=os.path.dirname(fixture) + "/", tag="fixture-iter")
    fxf = dict((g["n"], g) for g in _FIX_CACHE["fx"].funcs)
    r = check_bisect(fxf["bad_partition_point"]) if "bad_partition_point" in fxf else []
    if not any(v is False for _s, v, _m in r):
        chk.analysis_broken("%s: the positive control fixture::bad_partition_point was not reported" % rule)
    return n


# ---- RESUME: a pattern search tries its candidate positions one by one ------------------------------------------------
class _SymExec:
    """straight-line symbolic execution of one structural path over linear forms; unknown values are fresh symbols"""

    def __init__(self, env):
        self.env = env
        self.fresh = 0
        self.origin = {}      # symbol -> text of the expression it stands for

    def sym(self, why):
        self.fresh += 1
        n = "v%d" % self.fresh
        self.origin[n] = why
        return _L({n: 1})

    def ev(self, e):
        e = astx.strip_casts(e)
        while e is not None and (e.get("k") == "paren" or (e.get("k") in ("construct", "initlist") and len(e.get("a", [])) == 1)):
            e = astx.strip_casts(e.get("e") if e.get("k") == "paren" else e["a"][0])
        if e is None:
            return self.sym("<empty>")
        k = e.get("k")
        iv = astx.int_value(e)
        if iv is not None:
            return _L(c=iv)
        if k == "ref":
            if e["n"] not in self.env:
                self.env[e["n"]] = _L({e["n"]: 1})
            return self.env[e["n"]]
        if k == "bin" and e["op"] in ("+", "-"):
            a, b = self.ev(e["l"]), self.ev(e["r"])
            return a + b if e["op"] == "+" else a - b
        if k == "bin" and e["op"] in ("=", "+=", "-=") and ref_name(e["l"]):
            nme = ref_name(e["l"])
            v = self.ev(e["r"])
            if e["op"] != "=":
                cur = self.ev(e["l"])
                v = cur + v if e["op"] == "+=" else cur - v
            self.env[nme] = v
            return v
        if k == "bin" and e["op"] == ",":
            self.ev(e["l"])
            return self.ev(e["r"])
        if k == "un" and e["op"] in ("++", "--") and ref_name(e["e"]):
            nme = ref_name(e["e"])
            old = self.ev(e["e"])
            new = old + _L(c=1) if e["op"] == "++" else old - _L(c=1)
            self.env[nme] = new
            return old if e.get("postfix") else new
        if k == "call":
            nm = astx.callee(e)[0]
            if nm == "next" and len(e["a"]) in (1, 2):
                return self.ev(e["a"][0]) + (self.ev(e["a"][1]) if len(e["a"]) == 2 else _L(c=1))
            if nm == "prev" and len(e["a"]) in (1, 2):
                return self.ev(e["a"][0]) - (self.ev(e["a"][1]) if len(e["a"]) == 2 else _L(c=1))
            if nm == "advance" and len(e["a"]) == 2 and ref_name(e["a"][0]):
                self.env[ref_name(e["a"][0])] = self.ev(e["a"][0]) + self.ev(e["a"][1])
                return self.env[ref_name(e["a"][0])]
            if nm in ("move", "forward") and len(e["a"]) == 1:
                return self.ev(e["a"][0])
            if nm in ("max", "min") and len(e["a"]) == 2:
                a, b = self.ev(e["a"][0]), self.ev(e["a"][1])
                if a == b:
                    return a
                r = self.sym("%s(%s)" % (nm, ", ".join(astx.show(x, 20) for x in e["a"])))
                self.varying = getattr(self, "varying", set())
                if a.d or b.d:
                    self.varying.add(list(r.d)[0])       # depends on a run-time quantity: not a constant step
                return r
            if nm in ("search", "find", "find_if", "mismatch", "find_first_of") and e["a"]:
                start = self.ev(e["a"][0])
                r = self.sym("the position %s(%s, ...) returns" % (nm, astx.show(e["a"][0], 20)))
                self.search_results = getattr(self, "search_results", {})
                self.search_results[list(r.d)[0]] = start
                return r
        return self.sym(astx.show(e, 40))


def check_resume(f):
    """In a function that looks for a needle *range* inside a haystack range, the loop that tries candidate start positions
    moves the candidate c by exactly one per attempt: at the end of every path through the loop body that does not leave the
    loop, c' = c + 1, or c' = r + 1 where r is the position a nested search started at c reported (the positions before r
    were candidates of that search). A larger step (the needle's length, the number of characters matched so far) skips
    occurrences that overlap the failed or the previous match. Returns [(loop, candidate, ok | None, message)]."""
    from . import sets as SP
    out = []
    body = f.get("body")
    if body is None:
        return out
    # needle range: a second iterator pair or a view / string parameter
    pairs = range_pairs(f)
    viewish = [p for p in f["params"] if any(t in p["ty"] for t in ("string_view", "basic_inplace_string", "StringView")) and p.get("n")]
    if len(pairs) < 2 and not viewish:
        return out
    top = [st for st in (body.get("s") or []) if st.get("k") in ("for", "while", "do")]
    for s0 in top:
        inner_stmts = [t for t in astx.walk_stmts(s0.get("body"))]
        nested_loop = any(t.get("k") in ("for", "while", "do") for t in inner_stmts) or \
            any(x.get("k") == "lambda" for x in astx.walk_stmt_exprs(s0.get("body"), into_lambdas=False))
        nested_search = any(x.get("k") == "call" and astx.callee(x)[0] in ("search", "equal", "mismatch", "compare")
                            for x in astx.walk_stmt_exprs(s0.get("body"), into_lambdas=True))
        if not (nested_loop or nested_search):
            continue
        # variables stepped by the loop itself (outside nested loops)
        nested_ids = set()
        for t in inner_stmts:
            if t.get("k") in ("for", "while", "do"):
                for u in astx.walk_stmts(t):
                    nested_ids.add(id(u))
        assigned = []

        def targets(e):
            r = []
            for x in astx.walk_expr(e, into_lambdas=False):
                if x.get("k") == "bin" and x["op"] in ("=", "+=", "-=") and ref_name(x["l"]):
                    r.append(ref_name(x["l"]))
                if x.get("k") == "un" and x["op"] in ("++", "--") and ref_name(x["e"]):
                    r.append(ref_name(x["e"]))
                if x.get("k") == "call" and astx.callee(x)[0] == "advance" and x["a"] and ref_name(x["a"][0]):
                    r.append(ref_name(x["a"][0]))
            return r
        if s0.get("inc") is not None:
            assigned += targets(s0["inc"])
        for t in inner_stmts:
            if id(t) in nested_ids or t.get("k") != "expr":
                continue
            assigned += targets(t["e"])
        declared_inside = set(v["n"] for t in inner_stmts if t.get("k") == "decl" for v in t["vars"] if "other" not in v)
        havoc = set()
        for t in inner_stmts:
            if id(t) in nested_ids:
                if t.get("k") == "expr":
                    havoc |= set(targets(t["e"]))
            if t.get("k") == "for" and t.get("inc") is not None:
                havoc |= set(targets(t["inc"]))
        # the candidate: stepped by the outer loop, read inside it (as an access base or a search start), not local to the body
        reads = set(ref_name(x) for x in astx.walk_stmt_exprs(s0.get("body"), into_lambdas=True) if ref_name(x))
        cands = [c for c in dict.fromkeys(assigned) if c not in declared_inside and c in reads and c not in havoc]
        # a result holder that is only written (find_end's `result`) is not a candidate: it must be read before it is written
        first_events = []
        for c in cands:
            verdict, msg = True, ""
            npaths = 0
            for p in SP.paths(s0.get("body")):
                if p and p[-1][0] in ("ret", "break"):
                    continue
                ex = _SymExec({c: _L({c: 1})})
                read_before_write = None
                for evn in p:
                    exprs = []
                    if evn[0] == "decl" and evn[1].get("init") is not None:
                        exprs = [("decl", evn[1])]
                    elif evn[0] in ("expr", "cond"):
                        exprs = [("expr", evn[1])]
                    for kind, e in exprs:
                        if read_before_write is None:
                            src = e["init"] if kind == "decl" else e
                            for x in astx.walk_expr(src, into_lambdas=True):
                                if x.get("k") == "bin" and x["op"] == "=" and ref_name(x["l"]) == c:
                                    if not any(ref_name(y) == c for y in astx.walk_expr(x["r"], into_lambdas=True)):
                                        read_before_write = False
                                    break
                                if ref_name(x) == c:
                                    read_before_write = True
                                    break
                        if kind == "decl":
                            if e["n"] in havoc:
                                ex.env[e["n"]] = ex.sym("`%s` after the inner loop" % e["n"])
                            else:
                                ex.env[e["n"]] = ex.ev(e["init"])
                        elif evn[0] == "expr":
                            ex.ev(e)
                    if evn[0] in ("cond", "backedge-cond"):
                        pass
                    # values stepped by nested loops are unknown behind them
                    if evn[0] == "backedge-cond":
                        for h in havoc:
                            if h in ex.env:
                                ex.env[h] = ex.sym("`%s` after the inner loop" % h)
                if read_before_write is False:
                    verdict = "skip"
                    break
                if s0.get("inc") is not None:
                    for h in havoc:
                        ex.env[h] = ex.sym("`%s` after the inner loop" % h)
                    ex.ev(s0["inc"])
                npaths += 1
                c1 = ex.env[c]
                step = c1 - _L({c: 1})
                ok = step == _L(c=1)
                if not ok:
                    # r + 1 with r reported by a search that started at c
                    for symn, start in getattr(ex, "search_results", {}).items():
                        if c1 == _L({symn: 1}, 1) and start == _L({c: 1}):
                            ok = True
                if not ok:
                    if step == _L(c=0) or step == _L():
                        continue        # this path does not step the candidate (an inner retry): not judged
                    txt = repr(step)
                    for symn, why in ex.origin.items():
                        txt = txt.replace(symn, "<" + why + ">")
                    known = set(getattr(ex, "search_results", {})) | getattr(ex, "varying", set()) | \
                        set(k for k, w in ex.origin.items() if w.endswith("after the inner loop"))
                    if any(k in ex.origin and k not in known for k in step.d):
                        if verdict is True:
                            verdict, msg = None, "the step `%s` of candidate `%s` is not modelled" % (txt, c)
                        continue
                    verdict = False
                    msg = "one attempt moves the candidate `%s` by `%s`; every position is a candidate, so the step is 1" % (c, txt)
                    break
            if verdict == "skip":
                continue
            if npaths == 0:
                continue
            out.append((s0, c, verdict, msg))
    return out


def resume_area(chk, db, prefixes, rule="RESUME"):
    n = 0
    for f in db.funcs:
        if f.get("body") is None or not any(f["file"].startswith(p) for p in prefixes):
            continue
        try:
            res = check_resume(f)
        except Exception as ex:       # pragma: no cover
            chk.unknown_instance(rule, astx.sig(f), "not analysed: %s" % ex)
            continue
        for s0, c, verdict, msg in res:
            n += 1
            label = "%s :: candidate `%s` of the loop at line %s" % (astx.sig(f), c, s0.get("line"))
            chk.instance(rule)
            chk.obligation(rule, label, verdict)
            if verdict is False:
                chk.violation(rule, label, "candidate-skipped", "%s: %s" % (astx.loc(f, s0), msg), {"where": astx.loc(f)})
            elif verdict is None:
                chk.unknown_instance(rule, label, msg)
    return n


# ---- SHIFTRET: the value shift_left / shift_right return in the cases that do nothing ----------------------------------
SHIFT_SPEC = {
    # [alg.shift]: shift_left returns first + (last - first - n) if n < last - first, otherwise first;
    #              shift_right returns first + n if n < last - first, otherwise last            (precondition n >= 0)
    "shift_left": lambda F, D, n: F + (D - n) if n < D else F,
    "shift_right": lambda F, D, n: F + n if n < D else D + F,
    # [alg.rotate]: rotate(first, middle, last) returns first + (last - middle); n is middle - first here
    "rotate": lambda F, D, n: F + (D - n),
}


def check_shift_returns(f):
    """Early exits of shift_left / shift_right (returns reached before any loop or call that moves elements) are evaluated in
    every model (n, D = last - first) with 0 <= n, D <= 4: where the path's tests hold, the returned position must be the
    one [alg.shift] specifies. Returns [(return node, ok | None, message)]."""
    from . import sets as SP
    spec = SHIFT_SPEC.get(f["n"])
    if spec is None or f.get("body") is None or len(f["params"]) != 3:
        return []
    first, last, nn = [p["n"] for p in f["params"]]
    rot = f["n"] == "rotate"
    if rot:
        # rotate(first, middle, last): the third model quantity is the position of `middle`, not a count
        first, nn, last = [p["n"] for p in f["params"]]
    out = []

    class NM(Exception):
        pass

    def val(e, m):
        e = astx.strip_casts(e)
        while e is not None and e.get("k") == "paren":
            e = astx.strip_casts(e.get("e"))
        if e is None:
            raise NM()
        iv = astx.int_value(e)
        if iv is not None:
            return iv
        k = e.get("k")
        if k == "ref":
            if e["n"] == first:
                return m["F"]
            if e["n"] == last:
                return m["F"] + m["D"]
            if e["n"] == nn:
                return m["F"] + m["n"] if rot else m["n"]
            raise NM()
        if k == "bin" and e["op"] in ("+", "-"):
            a, b = val(e["l"], m), val(e["r"], m)
            return a + b if e["op"] == "+" else a - b
        if k == "call":
            nm = astx.callee(e)[0]
            if nm == "distance" and len(e["a"]) == 2:
                return val(e["a"][1], m) - val(e["a"][0], m)
            if nm == "next" and len(e["a"]) in (1, 2):
                return val(e["a"][0], m) + (val(e["a"][1], m) if len(e["a"]) == 2 else 1)
            if nm == "prev" and len(e["a"]) in (1, 2):
                return val(e["a"][0], m) - (val(e["a"][1], m) if len(e["a"]) == 2 else 1)
        raise NM()

    def truth(c, m):
        c = astx.strip_casts(c)
        while c is not None and c.get("k") == "paren":
            c = astx.strip_casts(c.get("e"))
        if c is None:
            raise NM()
        if c.get("k") == "un" and c["op"] == "!":
            return not truth(c["e"], m)
        if c.get("k") == "bin" and c["op"] in ("&&", "||"):
            a = truth(c["l"], m)
            if c["op"] == "&&":
                return a and truth(c["r"], m)
            return a or truth(c["r"], m)
        if c.get("k") == "bin" and c["op"] in ("<", "<=", ">", ">=", "==", "!="):
            a, b = val(c["l"], m), val(c["r"], m)
            return {"<": a < b, "<=": a <= b, ">": a > b, ">=": a >= b, "==": a == b, "!=": a != b}[c["op"]]
        raise NM()

    seen = set()
    loop_conds = set(id(st.get("c")) for st in astx.walk_stmts(f["body"]) if st.get("k") in ("for", "while", "do") and st.get("c") is not None)
    names = {first, last, nn}
    for p in SP.paths(f["body"]):
        conds = []
        for ev in p:
            if ev[0] == "cond":
                if id(ev[1]) in loop_conds:
                    break       # inside a loop: not an early exit
                if not any(ref_name(x) in names for x in astx.walk_expr(ev[1])):
                    continue    # a configuration test (`if constexpr (RandomAccessIterator<It>)`): does not constrain (n, D)
                conds.append((ev[1], ev[2]))
                continue
            if ev[0] == "ret":
                if id(ev[1]) in seen or ev[1] is None:
                    break
                seen.add(id(ev[1]))
                bad = None
                unknown = False
                judged = 0
                for D in range(0, 5):
                    for n in range(0, 5):
                        if rot and n > D:
                            continue        # middle lies inside [first, last]
                        m = {"F": 10, "D": D, "n": n}
                        try:
                            if not all(truth(c, m) == t for c, t in conds):
                                continue
                            got = val(ev[1], m)
                        except NM:
                            unknown = True
                            break
                        judged += 1
                        want = spec(10, D, n)
                        if got != want and bad is None:
                            bad = (D, n, got - 10, want - 10)
                    if unknown:
                        break
                if unknown:
                    out.append((ev[1], None, "the early exit's tests or value are not linear in (first, last, n)"))
                elif judged:
                    out.append((ev[1], bad is None, "" if bad is None else
                                ("with last - first = %d and middle - first = %d the function returns first + %d, [alg.rotate] specifies first + %d" if rot else
                                 "with last - first = %d and n = %d the function returns first + %d, [alg.shift] specifies first + %d") % bad))
                break
            if ev[0] in ("decl",) and ev[1].get("init") is not None:
                i0 = astx.strip_casts(ev[1]["init"])
                if i0 is not None and i0.get("k") == "call":
                    break
                continue
            if ev[0] in ("expr", "opaque", "backedge-cond", "loop-exit"):
                break           # elements are being moved: not an early exit any more
    return out


# ---- RUN: a position remembered at the start of a run does not survive the run's reset -----------------------------------
def check_run_state(f):
    """Loops that count a run of consecutive matches (`counter++` on a match, `counter = 0` on a mismatch) and remember where
    the run began (`if (holder == <its initial value>) holder = cursor;`) are interpreted over the ghost state of the holder:
    none (holds its initial value) / current (captured in the run being counted) / stale (captured in a run that has been
    reset since). Transfer functions: a reset of the counter turns current into stale; a guarded capture acts only in state
    none; an unguarded assignment gives current (or none when it stores the initial value). The loop is iterated to a fixed
    point over all structural paths; a `return holder` reachable in state stale reports the beginning of an earlier,
    broken run. Returns [(loop, counter, holder, ok, message)]."""
    from . import sets as SP
    out = []
    body = f.get("body")
    if body is None:
        return out
    inits = {}
    for st in (body.get("s") or []):
        if st.get("k") == "decl":
            for v in st["vars"]:
                if "other" not in v:
                    inits[v["n"]] = v.get("init")

    def same(a, b):
        a, b = astx.strip_casts(a), astx.strip_casts(b)

        def z(x):
            if x is None or astx.int_value(x) == 0 or x.get("k") == "nullptr":
                return True
            if x.get("k") in ("construct", "initlist"):
                a = x.get("a") or []
                return not a or (len(a) == 1 and a[0] is not None and z(astx.strip_casts(a[0])))
            return False
        if z(a) and z(b):
            return True
        if a is None or b is None:
            return False
        return astx.show(a, 80) == astx.show(b, 80)

    for s0 in [st for st in (body.get("s") or []) if st.get("k") in ("for", "while")]:
        exprs = list(astx.walk_stmt_exprs(s0.get("body"), into_lambdas=False))
        counters = set()
        for x in exprs:
            if x.get("k") == "un" and x["op"] == "++" and ref_name(x["e"]) in inits:
                c = ref_name(x["e"])
                if any(y.get("k") == "bin" and y["op"] == "=" and ref_name(y["l"]) == c and same(y["r"], inits[c]) for y in exprs):
                    counters.add(c)
        holders = set()
        for st in astx.walk_stmts(s0.get("body")):
            if st.get("k") == "if" and st.get("c") is not None:
                for op, l, r in atoms_of_cond(st["c"], True):
                    if op == "==" and ref_name(l) in inits and same(r, inits[ref_name(l)]):
                        h = ref_name(l)
                        if any(y.get("k") == "bin" and y["op"] == "=" and ref_name(y["l"]) == h
                               for y in astx.walk_stmt_exprs(st.get("then"), into_lambdas=False)):
                            holders.add(h)
        if not holders:
            continue
        for c in sorted(counters):
            for h in sorted(holders):
                if h == c:
                    continue
                paths = SP.paths(s0.get("body"))
                states = {"none"}
                bad = None
                changed = True
                rounds = 0
                while changed and rounds < 6 and bad is None:
                    changed = False
                    rounds += 1
                    for st0 in list(states):
                        for p in paths:
                            st = st0
                            feasible = True
                            for ev in p:
                                if ev[0] == "cond":
                                    for op, l, r in atoms_of_cond(ev[1], ev[2]):
                                        if ref_name(l) == h and same(r, inits[h]):
                                            if (op == "==") != (st == "none"):
                                                feasible = False
                                    if not feasible:
                                        break
                                    continue
                                if ev[0] == "ret":
                                    if ref_name(ev[1]) == h and st == "stale":
                                        bad = ev[1]
                                    break
                                src = ev[1]["init"] if ev[0] == "decl" else (ev[1] if ev[0] == "expr" else None)
                                if src is None:
                                    continue
                                for x in astx.walk_expr(src, into_lambdas=False):
                                    if x.get("k") == "bin" and x["op"] == "=" and ref_name(x["l"]) == c and same(x["r"], inits[c]):
                                        if st == "cur":
                                            st = "stale"
                                    if x.get("k") == "bin" and x["op"] == "=" and ref_name(x["l"]) == h:
                                        st = "none" if same(x["r"], inits[h]) else "cur"
                            if not feasible or bad is not None:
                                if bad is not None:
                                    break
                                continue
                            if p and p[-1][0] == "ret":
                                continue
                            if st not in states:
                                states.add(st)
                                changed = True
                        if bad is not None:
                            break
                msg = ""
                if bad is not None:
                    msg = ("`%s` is captured only while it holds its initial value and is not re-initialised when `%s` is reset: after a "
                           "broken run the function returns the beginning of that earlier run" % (h, c))
                out.append((s0, c, h, bad is None, msg))
        # the converse coupling: a path that forgets the remembered start (resets the holder) ends the run, so it resets the
        # counter as well -- otherwise matches are counted across interrupted runs
        incs = set(ref_name(x["e"]) for x in exprs if x.get("k") == "un" and x["op"] == "++" and ref_name(x["e"]) in inits)
        for h in sorted(holders):
            for c in sorted(incs - {h}):
                if c in counters:
                    continue        # it has a reset: judged by the typestate above
                for p in SP.paths(s0.get("body")):
                    h_reset = c_touched = False
                    for ev in p:
                        src = ev[1]["init"] if ev[0] == "decl" and ev[1].get("init") is not None else (ev[1] if ev[0] == "expr" else None)
                        if src is None:
                            continue
                        for x in astx.walk_expr(src, into_lambdas=False):
                            if x.get("k") == "bin" and x["op"] == "=" and ref_name(x["l"]) == h and same(x["r"], inits[h]):
                                h_reset = True
                            if (x.get("k") == "bin" and x["op"] == "=" and ref_name(x["l"]) == c) or \
                                    (x.get("k") == "un" and x["op"] == "++" and ref_name(x["e"]) == c):
                                c_touched = True
                    if h_reset and not c_touched:
                        out.append((s0, c, h, False, "a path resets the remembered start `%s` but leaves the counter `%s` as it is: matches "
                                    "are counted across interrupted runs" % (h, c)))
                        break
    return out


# ---- END2: what a lockstep scan over two ranges answers when (at least) one range is exhausted -------------------------
END2_SPEC = {
    # x1 / x2: the first / second range is exhausted when the loop ends
    "equal": lambda x1, x2: x1 and x2,                          # [alg.equal]: equal lengths and all pairs matched
    "lexicographical_compare": lambda x1, x2: x1 and not x2,    # [alg.lex.comparison]: a proper prefix is less
}


def check_end2(f):
    """`equal` / `lexicographical_compare` over two full ranges: the value returned behind the lockstep loop, as a function
    of which ranges are exhausted, is the standard's. The returned expression is evaluated for the three end states the loop
    can leave (first exhausted, second exhausted, both). Returns [(return node, ok | None, message)]."""
    spec = END2_SPEC.get(f["n"])
    pairs = range_pairs(f)
    if spec is None or f.get("body") is None or len(pairs) < 2:
        return []
    ends = dict(pairs)          # begin -> end
    order = [p["n"] for p in f["params"] if p["n"] in ends]
    if len(order) < 2:
        return []
    c1, c2 = order[0], order[1]
    out = []
    loops = [st for st in astx.walk_stmts(f["body"]) if st.get("k") in ("for", "while") and st.get("c") is not None and
             all(any(ref_name(x) == c for x in astx.walk_expr(st["c"])) for c in (c1, c2))]
    if not loops:
        return []
    all_stmts = list(astx.walk_stmts(f["body"]))
    for lp in loops:
        inner = set(id(t) for t in astx.walk_stmts(lp))
        after = [t for t in all_stmts[all_stmts.index(lp) + 1:] if id(t) not in inner and t.get("k") == "return"]
        if not after:
            continue
        ret = after[0]

        class NM(Exception):
            pass

        def truth(e, st):
            e = astx.strip_casts(e)
            while e is not None and e.get("k") == "paren":
                e = astx.strip_casts(e.get("e"))
            if e is None:
                raise NM()
            if e.get("k") == "bool":
                return bool(e["v"])
            if e.get("k") == "un" and e["op"] == "!":
                return not truth(e["e"], st)
            if e.get("k") == "bin" and e["op"] in ("&&", "||"):
                a, b = truth(e["l"], st), truth(e["r"], st)
                return (a and b) if e["op"] == "&&" else (a or b)
            if e.get("k") == "bin" and e["op"] in ("==", "!="):
                l, r = ref_name(e["l"]), ref_name(e["r"])
                for a, b in ((l, r), (r, l)):
                    if a in (c1, c2) and b == ends[a]:
                        v = st[0] if a == c1 else st[1]
                        return v if e["op"] == "==" else not v
            raise NM()
        bad = None
        unknown = False
        for st in ((True, False), (False, True), (True, True)):
            try:
                got = truth(ret.get("e"), st)
            except NM:
                unknown = True
                break
            if got != bool(spec(*st)) and bad is None:
                bad = (st, got)
        if unknown:
            out.append((ret, None, "the value returned behind the loop is not a combination of the two end tests"))
        else:
            out.append((ret, bad is None, "" if bad is None else "with the first range %s and the second %s the function returns %s" % (
                "exhausted" if bad[0][0] else "not exhausted", "exhausted" if bad[0][1] else "not exhausted", str(bad[1]).lower())))
    return out


# ---- PTRCOUNT: a (pointer, count) buffer is indexed below count --------------------------------------------------------
COUNT_NAME = re.compile(r"^(count|n|num|len|length|cnt)$")


def count_subscripts(f):
    """[(node, count name, base)]: `p[count]` / `*(p + count)` where count is the function's element-count parameter and p a
    pointer parameter or a local pointer of a function that has pointer parameters"""
    ptrs = set(p["n"] for p in f["params"] if p.get("n") and p["ty"].strip().endswith("*"))
    counts = [p["n"] for p in f["params"] if p.get("n") and COUNT_NAME.match(p["n"]) and "*" not in p["ty"] and "&" not in p["ty"]]
    if not ptrs or len(counts) != 1:
        return []
    cnt = counts[0]
    local_ptrs = set()
    for st in astx.walk_stmts(f["body"]):
        if st.get("k") == "decl":
            for v in st["vars"]:
                if "*" in (v.get("ty") or "") and v.get("n"):
                    local_ptrs.add(v["n"])
    out = []
    for x in astx.all_exprs(f, into_lambdas=False):
        if x.get("k") == "idx" and ref_name(x["i"]) == cnt and ref_name(x["b"]) in (ptrs | local_ptrs):
            out.append((x, cnt, ref_name(x["b"])))
        if x.get("k") == "un" and x["op"] == "*":
            t = astx.strip_casts(x["e"])
            if t is not None and t.get("k") == "bin" and t["op"] == "+":
                for a, b in ((t["l"], t["r"]), (t["r"], t["l"])):
                    if ref_name(a) in (ptrs | local_ptrs) and ref_name(b) == cnt:
                        out.append((x, cnt, ref_name(a)))
    return out


def counted_buffer_area(chk, db, prefixes, rule="PTRCOUNT", floor=0):
    """Functions that receive raw pointers together with one element count (`char_traits::find(s, count, ch)`, `copy`, `move`,
    `assign`, `compare`, the mem* / str*n family): every subscript of a pointer parameter by a loop counter is inside a loop
    `for (i = 0; i < count; ++i)` -- start 0, unit step, strict bound that is the count parameter (or `i != count`). A bound
    `i <= count` reads or writes the element one past the buffer. Other index shapes are UNKNOWN."""
    n = 0
    for f in db.funcs:
        if f.get("body") is None or not any(f["file"].startswith(p) for p in prefixes):
            continue
        ptrs = set(p["n"] for p in f["params"] if p.get("n") and p["ty"].strip().endswith("*"))
        counts = [p["n"] for p in f["params"] if p.get("n") and re.search(r"\bsize_t\b|size_type", p["ty"]) and "*" not in p["ty"]]
        if not ptrs or len(counts) != 1:
            continue
        cnt = counts[0]
        loops = [st for st in astx.walk_stmts(f["body"]) if st.get("k") == "for"]
        for lp in loops:
            ivar = None
            if lp.get("init") is not None and lp["init"].get("k") == "decl":
                for v in lp["init"]["vars"]:
                    i0 = astx.strip_casts(v.get("init")) if v.get("init") is not None else None
                    while i0 is not None and i0.get("k") in ("construct", "initlist") and len(i0.get("a", [])) == 1:
                        i0 = astx.strip_casts(i0["a"][0])
                    zero = i0 is not None and (astx.int_value(i0) == 0 or (i0.get("k") in ("construct", "initlist") and not i0.get("a")))
                    ivar = (v["n"], zero)
            if ivar is None:
                continue
            name, zero = ivar
            subs = [x for x in astx.walk_stmt_exprs(lp.get("body"), into_lambdas=True) if x.get("k") == "idx"
                    and ref_name(x["b"]) in ptrs and ref_name(x["i"]) == name]
            subs += [x for x in astx.walk_expr(lp.get("c"), into_lambdas=False) if x.get("k") == "idx"
                     and ref_name(x["b"]) in ptrs and ref_name(x["i"]) == name] if lp.get("c") is not None else []
            if not subs:
                continue
            n += 1
            label = "%s :: loop over `%s` at line %s" % (astx.sig(f), name, lp.get("line"))
            chk.instance(rule)
            c = astx.strip_casts(lp.get("c"))
            verdict, why = None, "loop shape not recognised"
            bound_atoms = []
            if c is not None:
                todo = [c]
                while todo:
                    y = astx.strip_casts(todo.pop())
                    if y is not None and y.get("k") == "bin" and y["op"] == "&&":
                        todo += [y["l"], y["r"]]
                    elif y is not None:
                        bound_atoms.append(y)
            strict = loose = False
            for y in bound_atoms:
                if y.get("k") == "bin" and y["op"] in ("<", "!=", "<=", ">", ">="):
                    l, r = ref_name(y["l"]), ref_name(y["r"])
                    op = y["op"]
                    if l == cnt and r == name:
                        l, r, op = r, l, {"<": ">", ">": "<", "<=": ">=", ">=": "<=", "!=": "!="}[op]
                    if l == name and r == cnt:
                        if op in ("<", "!="):
                            strict = True
                        elif op == "<=":
                            loose = True
            inc = lp.get("inc")
            unit = inc is not None and any(x.get("k") == "un" and x["op"] == "++" and ref_name(x["e"]) == name for x in astx.walk_expr(inc))
            stepped_in_body = any((x.get("k") == "un" and x["op"] in ("++", "--") and ref_name(x["e"]) == name) or
                                  (x.get("k") == "bin" and x["op"].endswith("=") and x["op"] not in ("==", "!=", "<=", ">=") and ref_name(x["l"]) == name)
                                  for x in astx.walk_stmt_exprs(lp.get("body"), into_lambdas=True))
            if zero and unit and not stepped_in_body and strict:
                verdict, why = True, ""
            elif zero and unit and not stepped_in_body and loose and not strict:
                verdict, why = False, "the loop runs while `%s <= %s`: `%s` indexes element %s of a buffer of %s elements" % (
                    name, cnt, astx.show(subs[0], 30), cnt, cnt)
            chk.obligation(rule, label, verdict)
            if verdict is False:
                chk.violation(rule, label, "index-reaches-count", "%s: %s" % (astx.loc(f, lp), why), {"where": astx.loc(f)})
            elif verdict is None:
                chk.unknown_instance(rule, label, why)
    # the count itself as a subscript: element `count` of a buffer of `count` elements
    for f in db.funcs:
        if f.get("body") is None or not any(f["file"].startswith(p) for p in prefixes):
            continue
        for x, cnt, base in count_subscripts(f):
            label = "%s :: `%s`" % (astx.sig(f), astx.show(x, 40))
            chk.instance(rule)
            chk.obligation(rule, label, False)
            chk.violation(rule, label, "subscript-is-the-count", "%s: `%s` addresses element `%s` of a range that `%s` counts: that is "
                          "one past its last element (and further out when fewer elements were used)" % (astx.loc(f, x), astx.show(x, 40), cnt, cnt),
                          {"where": astx.loc(f)})
    if n < floor:
        chk.analysis_broken("%s: only %d counted loops over pointer parameters in %s (floor %d)" % (rule, n, ", ".join(prefixes), floor))
    return n


# ---- ERASECNT: erase / erase_if report how many elements they removed ------------------------------------------------------
def erase_count_area(chk, db, prefixes, rule="ERASECNT"):
    """The free functions `erase(c, value)` / `erase_if(c, pred)` return the number of erased elements ([vector.erasure],
    [string.erasure], [flat.set.erasure]): the returned count is the distance of exactly the range handed to `c.erase(a, b)`
    (or the difference of c.size() before and after). A distance of another range (the kept prefix) is reported."""
    n = 0
    for f in db.funcs:
        if f.get("body") is None or f.get("kind") != "function" or f["n"] not in ("erase", "erase_if"):
            continue
        if not any(f["file"].startswith(p) for p in prefixes) or not f["params"]:
            continue
        cname = f["params"][0]["n"]
        inits = {}
        for st in astx.walk_stmts(f["body"]):
            if st.get("k") == "decl":
                for v in st["vars"]:
                    if "other" not in v and v.get("init") is not None:
                        inits[v["n"]] = v["init"]
        erases = [x for x in astx.all_exprs(f) if x.get("k") == "call" and astx.callee(x)[0] == "erase" and astx.callee(x)[3] == "member"
                  and ref_name(astx.callee(x)[2]) == cname and len(x["a"]) == 2]
        rets = [st for st in astx.walk_stmts(f["body"]) if st.get("k") == "return" and st.get("e") is not None]
        if not erases or not rets:
            continue        # delegates (erase -> erase_if) or another shape
        n += 1
        label = astx.sig(f)
        chk.instance(rule)

        def resolve(e, depth=0):
            e = astx.strip_casts(e)
            while e is not None and (e.get("k") == "paren" or (e.get("k") in ("construct", "initlist") and len(e.get("a", [])) == 1)):
                e = astx.strip_casts(e.get("e") if e.get("k") == "paren" else e["a"][0])
            if e is not None and e.get("k") == "ref" and e.get("d") == "local" and e["n"] in inits and depth < 4:
                return resolve(inits[e["n"]], depth + 1)
            return e

        def txt(e):
            e = resolve(e)
            # a local iterator is compared by name, not by its initialiser (it designates the position remove_if returned)
            return astx.show(astx.strip_casts(e), 80).replace(" ", "") if e is not None else ""

        def txt_arg(e):
            e0 = astx.strip_casts(e)
            if e0 is not None and e0.get("k") == "ref":
                return e0["n"]
            return astx.show(e0, 80).replace(" ", "") if e0 is not None else ""
        r = resolve(rets[-1]["e"])
        verdict, why = None, "the returned count is neither a distance nor a difference of sizes"
        if r is not None and r.get("k") == "call" and astx.callee(r)[0] == "distance" and len(r["a"]) == 2:
            a, b = erases[0]["a"]
            if (txt_arg(r["a"][0]), txt_arg(r["a"][1])) == (txt_arg(a), txt_arg(b)):
                verdict, why = True, ""
            else:
                verdict = False
                why = "returns distance(%s, %s) but erases [%s, %s)" % (astx.show(r["a"][0], 30), astx.show(r["a"][1], 30),
                                                                       astx.show(a, 30), astx.show(b, 30))
        elif r is not None and r.get("k") == "bin" and r["op"] == "-":
            l, rr = resolve(r["l"]), resolve(r["r"])
            if l is not None and rr is not None and all(y.get("k") == "call" and astx.callee(y)[0] in ("size", "length") for y in (l, rr)):
                verdict, why = True, ""
        chk.obligation(rule, label, verdict)
        if verdict is False:
            chk.violation(rule, label, "erased-count", "%s: %s" % (astx.loc(f, rets[-1]), why), {"where": astx.loc(f)})
        elif verdict is None:
            chk.unknown_instance(rule, label, why)
    return n


# ---- ROTINS: "append, then rotate into place" inserts rotate from the requested position ---------------------------------
def rotate_insert_area(chk, db, prefixes, rule="ROTINS"):
    """Members that insert at a position by appending the new elements and rotating them into place (`rotate(p, oldEnd,
    end())`): the rotation starts at the position parameter. The first argument is evaluated as a linear form over the
    symbols begin / end / <position parameter> (const locals are substituted, `begin() + (position - begin())` is the
    position); a rotation from anywhere else moves the new elements to the wrong place."""
    n = 0
    for f in db.funcs:
        if f.get("body") is None or not any(f["file"].startswith(p) for p in prefixes):
            continue
        pos_params = [p["n"] for p in f["params"] if p.get("n") and re.search(r"iterator|pointer|\*", p["ty"]) and
                      re.match(r"^(pos|position|p|where|it)$", p["n"])]
        if len(pos_params) != 1:
            continue
        rots = [x for x in astx.all_exprs(f, into_lambdas=False) if x.get("k") == "call" and astx.callee(x)[0] == "rotate" and len(x["a"]) == 3]
        if not rots:
            continue
        pp = pos_params[0]
        inits = {}
        for st in astx.walk_stmts(f["body"]):
            if st.get("k") == "decl":
                for v in st["vars"]:
                    if "other" not in v and v.get("init") is not None:
                        inits[v["n"]] = v["init"]

        def lin(e, depth=0):
            e = astx.strip_casts(e)
            while e is not None and (e.get("k") == "paren" or (e.get("k") in ("construct", "initlist") and len(e.get("a", [])) == 1)):
                e = astx.strip_casts(e.get("e") if e.get("k") == "paren" else e["a"][0])
            if e is None or depth > 6:
                return None
            iv = astx.int_value(e)
            if iv is not None:
                return _L(c=iv)
            k = e.get("k")
            if k == "ref":
                if e["n"] == pp:
                    return _L({pp: 1})
                if e.get("d") == "local" and e["n"] in inits:
                    return lin(inits[e["n"]], depth + 1)
                return _L({e["n"]: 1})
            if k == "bin" and e["op"] in ("+", "-"):
                a, b = lin(e["l"], depth + 1), lin(e["r"], depth + 1)
                if a is None or b is None:
                    return None
                return a + b if e["op"] == "+" else a - b
            if k == "call":
                nm, q, recv, kind = astx.callee(e)
                own = recv is None or astx.is_this(astx.strip_casts(recv))
                if nm in ("begin", "cbegin", "data") and not e["a"] and own:
                    return _L({"<begin>": 1})
                if nm in ("end", "cend") and not e["a"] and own:
                    return _L({"<end>": 1})
                if nm == "next" and len(e["a"]) in (1, 2):
                    a = lin(e["a"][0], depth + 1)
                    b = lin(e["a"][1], depth + 1) if len(e["a"]) == 2 else _L(c=1)
                    return a + b if a is not None and b is not None else None
                if nm == "distance" and len(e["a"]) == 2:
                    a, b = lin(e["a"][0], depth + 1), lin(e["a"][1], depth + 1)
                    return b - a if a is not None and b is not None else None
                if nm in ("move", "forward", "to_address") and len(e["a"]) == 1:
                    return lin(e["a"][0], depth + 1)
            return None
        for x in rots:
            n += 1
            label = "%s :: `%s`" % (astx.sig(f), astx.show(x, 60))
            chk.instance(rule)
            a0 = lin(x["a"][0])
            verdict = None if a0 is None else (a0 == _L({pp: 1}))
            chk.obligation(rule, label, verdict)
            if verdict is False:
                chk.violation(rule, label, "rotation-start", "%s: the appended elements are rotated into place starting at `%s`, not at the "
                              "requested position `%s`" % (astx.loc(f, x), astx.show(x["a"][0], 40), pp), {"where": astx.loc(f)})
            elif verdict is None:
                chk.unknown_instance(rule, label, "the rotation's first argument is not a linear form of the position")
    return n


# ---- IT1n: a counted range is touched only where the count is known to be positive -----------------------------------
def check_counted(f):
    """`copy_n`, `fill_n`, `generate_n`, `for_each_n`: the range is given as (iterator, count). Outside a loop, a dereference of
    an iterator parameter is an access to element 0 of a range of `count` elements: it must be dominated by a test that
    implies count >= 1 (`count > 0`, `0 < count`, `count != 0`, `count >= 1` or the negation of their complements). With
    `count >= 0` the element of an empty range is read and written. Returns [(node, ok, message)] or None if not applicable."""
    from . import sets as SP
    if not f["n"].endswith("_n") or f.get("body") is None:
        return None
    counts = [p["n"] for p in f["params"] if p.get("n") and re.match(r"^(Size|SizeType|size_t|etl::size_t|Count|Diff|Distance)$",
                                                                       p["ty"].replace("const ", "").strip())]
    its = [p["n"] for p in f["params"] if p.get("n") and re.search(r"It$|Iter$|Iterator$", p["ty"].replace("const ", "").strip())]
    if len(counts) != 1 or not its:
        return None
    cnt = counts[0]
    loop_conds = set(id(st.get("c")) for st in astx.walk_stmts(f["body"]) if st.get("k") in ("for", "while", "do") and st.get("c") is not None)
    out = []
    seen = set()

    def positive(c, taken):
        c = astx.strip_casts(c)
        while c is not None and c.get("k") == "paren":
            c = astx.strip_casts(c.get("e"))
        if c is None:
            return False
        if c.get("k") == "un" and c["op"] == "!":
            return positive(c["e"], not taken)
        if c.get("k") == "bin" and c["op"] == "&&" and taken:
            return positive(c["l"], True) or positive(c["r"], True)
        if c.get("k") == "bin" and c["op"] == "||" and not taken:
            return positive(c["l"], False) or positive(c["r"], False)
        if c.get("k") == "bin" and c["op"] in ("<", "<=", ">", ">=", "==", "!="):
            l, r, op = c["l"], c["r"], c["op"]
            if ref_name(r) == cnt and ref_name(l) != cnt:
                l, r, op = r, l, {"<": ">", "<=": ">=", ">": "<", ">=": "<=", "==": "==", "!=": "!="}[op]
            if ref_name(l) != cnt:
                return False
            r0 = astx.strip_casts(r)
            while r0 is not None and r0.get("k") in ("construct", "initlist") and len(r0.get("a", [])) == 1:
                r0 = astx.strip_casts(r0["a"][0])
            k = astx.int_value(r0) if r0 is not None else None
            if k is None and r0 is not None and r0.get("k") in ("construct", "initlist") and not r0.get("a"):
                k = 0
            if k is None:
                return False
            if not taken:
                op = {"<": ">=", "<=": ">", ">": "<=", ">=": "<", "==": "!=", "!=": "=="}[op]
            return (op == ">" and k >= 0) or (op == ">=" and k >= 1) or (op == "!=" and k == 0)
        return False
    nonneg = [False]

    def nonnegative(c, taken):
        from .arith import atoms as _atoms, FLIP as _FLIP
        for op, l, r in _atoms(c, taken):
            for a, b, o in ((l, r, op), (r, l, _FLIP[op])):
                if ref_name(a) == cnt:
                    try:
                        k = astx.int_value(astx.strip_casts(b))
                    except Exception:
                        k = None
                    if k is not None and ((o == ">=" and k >= 0) or (o == ">" and k >= -1)):
                        return True
        return False
    # a loop that counts the count itself down and stops at `count != 0` never stops inside the range for a negative count
    signed_count = not re.search(r"size_t|unsigned", next((p0["ty"] for p0 in f["params"] if p0.get("n") == cnt), ""))
    for lp in [st for st in astx.walk_stmts(f["body"]) if st.get("k") in ("for", "while") and st.get("c") is not None]:
        c = astx.strip_casts(lp["c"])
        hit = False
        if c is not None and c.get("k") == "bin" and c["op"] == "!=":
            for a, b in ((c["l"], c["r"]), (c["r"], c["l"])):
                a0 = astx.strip_casts(a)
                if a0 is not None and a0.get("k") == "un" and a0["op"] == "--":
                    a0 = astx.strip_casts(a0["e"])
                try:
                    bz = astx.int_value(astx.strip_casts(b)) == 0
                except Exception:
                    bz = False
                if ref_name(a0) == cnt and bz:
                    hit = True
        if not hit or not signed_count:
            continue
        # dominated by count > 0 / count >= 0 ?
        dominated = False
        for p in SP.paths(f["body"]):
            ok_here = False
            for ev in p:
                if ev[0] == "cond" and ev[1] is lp["c"]:
                    break
                if ev[0] == "cond" and (positive(ev[1], ev[2]) or nonnegative(ev[1], ev[2])):
                    ok_here = True
            dominated = dominated or ok_here
        if not dominated and id(lp) not in seen:
            seen.add(id(lp))
            out.append((lp, False, "the loop runs while `%s`: `%s` may be negative (the algorithm does nothing for count <= 0), and a negative "
                        "count is stepped away from zero, so the loop leaves the range" % (astx.show(lp["c"], 40), cnt)))
    for p in SP.paths(f["body"]):
        pos = False
        nonneg[0] = False
        for ev in p:
            if ev[0] == "cond":
                if id(ev[1]) in loop_conds:
                    break
                if positive(ev[1], ev[2]):
                    pos = True
                if nonnegative(ev[1], ev[2]):
                    nonneg[0] = True
                continue
            if ev[0] in ("backedge-cond", "loop-exit", "opaque"):
                break
            src = ev[1]["init"] if ev[0] == "decl" and ev[1].get("init") is not None else (ev[1] if ev[0] in ("expr", "ret") else None)
            if src is None:
                continue
            for x in astx.walk_expr(src, into_lambdas=False):
                if x.get("k") == "un" and x["op"] == "*":
                    t = astx.strip_casts(x["e"])
                    while t is not None and t.get("k") == "un" and t["op"] in ("++", "--"):
                        t = astx.strip_casts(t["e"])
                    if t is not None and t.get("k") == "ref" and t.get("n") in its and id(x) not in seen:
                        seen.add(id(x))
                        out.append((x, pos, "" if pos else "`%s` is dereferenced outside any loop on a path that has not established `%s > 0`: "
                                    "for a count of 0 an element of an empty range is accessed" % (t["n"], cnt)))
                # `it + count` / next(it, count) handed on as the end of a range: a negative count (the *_n algorithms do nothing
                # for count <= 0) turns it into an end in front of its begin
                is_end = False
                if x.get("k") == "bin" and x["op"] == "+" and ref_name(x["l"]) in its and \
                        any(y.get("k") == "ref" and y.get("n") == cnt for y in astx.walk_expr(x["r"])):
                    is_end = True
                if x.get("k") == "call" and astx.callee(x)[0] in ("next", "advance") and len(x["a"]) == 2 and ref_name(x["a"][0]) in its and \
                        any(y.get("k") == "ref" and y.get("n") == cnt for y in astx.walk_expr(x["a"][1])):
                    is_end = True
                if is_end and id(x) not in seen:
                    seen.add(id(x))
                    signed_count = not re.search(r"size_t|unsigned", next((p0["ty"] for p0 in f["params"] if p0.get("n") == cnt), ""))
                    ok = pos or nonneg[0] or not signed_count
                    out.append((x, ok, "" if ok else "`%s` forms the end of a range from the count on a path that has not established `%s > 0` "
                                "(or >= 0): for a negative count the end lies in front of the begin and the range algorithm it is handed to "
                                "runs away" % (astx.show(x, 40), cnt)))
    return out


def counted_area(chk, db, prefixes, rule="IT1n", floor=0):
    n = 0
    for f in db.funcs:
        if not any(f["file"].startswith(p) for p in prefixes) or f.get("kind") != "function":
            continue
        r = check_counted(f)
        if r is None:
            continue
        n += 1
        label = astx.sig(f)
        chk.instance(rule)
        bad = [t for t in r if not t[1]]
        chk.obligation(rule, label, not bad, evaluations=max(1, len(r)))
        for x, ok, msg in bad[:1]:
            chk.violation(rule, label, "empty-counted-range", "%s: %s" % (astx.loc(f, x), msg), {"where": astx.loc(f)})
    if n < floor:
        chk.analysis_broken("%s: only %d counted-range algorithms found (floor %d)" % (rule, n, floor))
    return n


# ---- STABLE: an insertion step moves the key only past strictly greater elements ----------------------------------------
def check_insertion_step(f):
    """Insertion-style sorts (`key = *i; while (j != first and <test>) { *j = *(j - 1); --j; }`): the shifting test, as a
    function of ord(key, *(j-1)) in {<, =, >} with comp(a, b) read as a < b, must hold exactly for '<'. Holding for '=' moves
    the key in front of an equivalent element that preceded it (the sort is no longer stable); holding for '>' or failing
    for '<' does not sort. Returns [(loop, ok | None, message)]."""
    out = []
    body = f.get("body")
    comps = [p["n"] for p in f["params"] if p.get("n") and FUNCTOR_PARAM.match(p["ty"].replace("const ", "").strip())]
    if body is None or not comps:
        return out
    for s0 in astx.walk_stmts(body):
        if s0.get("k") != "while" or s0.get("c") is None:
            continue
        shifts = [x for x in astx.walk_stmt_exprs(s0.get("body"), into_lambdas=False) if x.get("k") == "bin" and x["op"] == "="
                  and astx.strip_casts(x["l"]) is not None and astx.strip_casts(x["l"]).get("k") == "un" and astx.strip_casts(x["l"])["op"] == "*"]
        if not shifts:
            continue
        cur = ref_name(astx.strip_casts(shifts[0]["l"])["e"])
        if cur is None:
            continue

        def side(e):
            """'K' for the key being inserted, 'P' for the element before the cursor, else None"""
            e = astx.strip_casts(e)
            if e is None:
                return None
            if e.get("k") == "ref" and e.get("d") == "local" and e["n"] != cur:
                return "K"
            if e.get("k") == "un" and e["op"] == "*":
                t = astx.strip_casts(e["e"])
                while t is not None and t.get("k") == "paren":
                    t = astx.strip_casts(t.get("e"))
                if t is not None and t.get("k") == "bin" and t["op"] == "-" and ref_name(t["l"]) == cur and astx.int_value(astx.strip_casts(t["r"])) == 1:
                    return "P"
                if t is not None and t.get("k") == "call" and astx.callee(t)[0] == "prev" and t["a"] and ref_name(t["a"][0]) == cur:
                    return "P"
            return None

        class NM(Exception):
            pass

        def truth(c, o):
            c = astx.strip_casts(c)
            while c is not None and c.get("k") == "paren":
                c = astx.strip_casts(c.get("e"))
            if c is None:
                raise NM()
            if c.get("k") == "un" and c["op"] == "!":
                return not truth(c["e"], o)
            if c.get("k") == "bin" and c["op"] in ("&&", "||"):
                a, b = truth(c["l"], o), truth(c["r"], o)
                return (a and b) if c["op"] == "&&" else (a or b)
            if c.get("k") == "bin" and c["op"] in ("!=", "==") and (ref_name(c["l"]) == cur or ref_name(c["r"]) == cur):
                return c["op"] == "!="       # the cursor has not reached the front (there is an element before it)
            if c.get("k") == "call" and len(c["a"]) == 2 and ref_name(c["f"]) in comps:
                a, b = side(c["a"][0]), side(c["a"][1])
                if a == "K" and b == "P":
                    return o == "<"
                if a == "P" and b == "K":
                    return o == ">"
            if c.get("k") == "bin" and c["op"] in ("<", ">", "<=", ">="):
                a, b = side(c["l"]), side(c["r"])
                if a and b and a != b:
                    oo = o if a == "K" else {"<": ">", "=": "=", ">": "<"}[o]
                    return oo in {"<": "<", ">": ">", "<=": "<=", ">=": ">="}[c["op"]]
            raise NM()
        bad = None
        unknown = False
        for o in "<=>":
            try:
                got = truth(s0["c"], o)
            except NM:
                unknown = True
                break
            if got != (o == "<") and bad is None:
                bad = (o, got)
        if unknown:
            out.append((s0, None, "the shifting test is not a combination of comparator calls on the key and the element before the cursor"))
        elif bad:
            o, got = bad
            why = {"=": "the key is moved in front of an equivalent element that preceded it: equal elements change their order",
                   ">": "the key is moved in front of a smaller element", "<": "the key is not moved in front of a greater element"}[o]
            out.append((s0, False, "for key %s *(cursor - 1) the shifting test is %s: %s" % (
                {"<": "<", "=": "equivalent to", ">": ">"}[o], str(got).lower(), why)))
        else:
            out.append((s0, True, ""))
    return out


# ---- EQRANGE: equal_range is (lower_bound, upper_bound) ------------------------------------------------------------------
def equal_range_area(chk, db, prefixes, rule="EQRANGE"):
    """Every `equal_range` (the algorithm and the members of the sorted containers) returns the pair (lower_bound, upper_bound)
    of its arguments or delegates to another equal_range: the first component is produced by a call named lower_bound, the
    second by one named upper_bound."""
    n = 0
    for f in db.funcs:
        if f.get("body") is None or f["n"] != "equal_range" or not any(f["file"].startswith(p) for p in prefixes):
            continue
        rets = [st for st in astx.walk_stmts(f["body"]) if st.get("k") == "return" and st.get("e") is not None]
        if not rets:
            continue
        n += 1
        label = astx.sig(f)
        chk.instance(rule)
        verdict, why = None, "the returned pair is not built from two bound searches"
        inits = {}
        for st in astx.walk_stmts(f["body"]):
            if st.get("k") == "decl":
                for v in st["vars"]:
                    if "other" not in v and v.get("init") is not None:
                        inits[v["n"]] = v["init"]

        def producer(e, depth=0):
            e = astx.strip_casts(e)
            if e is not None and e.get("k") == "ref" and e.get("d") == "local" and e["n"] in inits and depth < 3:
                return producer(inits[e["n"]], depth + 1)
            if e is not None and e.get("k") == "call":
                return astx.callee(e)[0]
            return None
        e = astx.strip_casts(rets[-1]["e"])
        if e is not None and e.get("k") == "call" and astx.callee(e)[0] == "equal_range":
            verdict, why = True, ""
        elif e is not None and e.get("k") in ("call", "construct", "initlist"):
            args = e.get("a", [])
            if len(args) == 1 and args[0] is not None and args[0].get("k") == "initlist":
                args = args[0]["a"]
            if len(args) == 2:
                a, b = producer(args[0]), producer(args[1])
                if a in ("lower_bound", "upper_bound") and b in ("lower_bound", "upper_bound"):
                    verdict = (a, b) == ("lower_bound", "upper_bound")
                    why = "" if verdict else "the pair is (%s, %s); [equal.range] specifies (lower_bound, upper_bound)" % (a, b)
        chk.obligation(rule, label, verdict)
        if verdict is False:
            chk.violation(rule, label, "equal-range-pair", "%s: %s" % (astx.loc(f, rets[-1]), why), {"where": astx.loc(f)})
        elif verdict is None:
            chk.unknown_instance(rule, label, why)
    return n


# ---- RAWDIFF: integer midpoint forms the distance of its arguments without signed overflow ----------------------------------
def rawdiff_rule(chk, db, rule="RAWDIFF"):
    """[numeric.ops.midpoint]: "no overflow occurs". For two arguments of a (possibly signed) integral type the distance
    b - a is not representable in that type when they are far apart, so the integer overload may subtract them only after
    converting *both* to the unsigned type (or in a wider type). A `-` or `+` whose two operands are the raw parameters is
    signed overflow -- undefined, and rejected in a constant expression -- for e.g. midpoint(INT_MIN, INT_MAX)."""
    n = 0
    for f in db.by_q.get("etl::midpoint", []):
        if f.get("body") is None or len(f["params"]) != 2:
            continue
        tys = [p["ty"].replace("const ", "").strip() for p in f["params"]]
        tps = dict((tp["n"], tp) for tp in (f.get("tparams") or []) if tp.get("k") == "type")
        if tys[0] != tys[1] or tys[0] not in tps:
            continue
        req = (f.get("requires") or "") + " " + (tps[tys[0]].get("constraint") or "")
        # (a requires-clause in the template head is not recorded by the extractor: the overload is recognised by its parameter)
        integral = "integral" in req or re.match(r"^(Int|Integer|Integral|I|IntT)$", tys[0])
        if "floating" in req or "pointer" in req or not integral:
            continue
        a, b = f["params"][0]["n"], f["params"][1]["n"]
        n += 1
        label = astx.sig(f)
        chk.instance(rule)
        bad = None
        for x in astx.all_exprs(f):
            if x.get("k") == "bin" and x["op"] in ("-", "+"):
                # operands as written: a conversion to another type (UInt(b), static_cast<UInt>(b)) is what makes the subtraction safe
                l, r = x["l"], x["r"]
                while l is not None and l.get("k") == "paren":
                    l = l.get("e")
                while r is not None and r.get("k") == "paren":
                    r = r.get("e")
                if l is not None and r is not None and l.get("k") == "ref" and r.get("k") == "ref" and {l["n"], r["n"]} == {a, b}:
                    bad = x
                    break
        chk.obligation(rule, label, bad is None)
        if bad is not None:
            chk.violation(rule, label, "signed-distance", "%s: `%s` combines the two arguments in their own (possibly signed) type; for arguments "
                          "that are more than numeric_limits<Int>::max() apart this overflows" % (astx.loc(f, bad), astx.show(bad, 30)),
                          {"where": astx.loc(f)})
    return n



# ---- RETARG (generic): a helper's explicit arithmetic type argument is the caller's own result type ------------------------
_ARITH = re.compile(r"^(unsigned|signed|int|long|short|char|float|double|long double|unsigned (int|long|long long|short|char)|long long|"
                    r"(etl::)?u?int(8|16|32|64)_t|(etl::)?size_t)$")


def retarg_area(chk, db, prefixes, rule="RETARG"):
    """A function that returns an arithmetic type R and returns the result of a helper template called with exactly one explicit
    arithmetic type argument (`sto_impl<long>(...)`, `to_unsigned_type<unsigned long>()`) passes R itself: with a narrower
    argument the value is computed (and its overflow detected) in the narrower type and only then widened."""
    n = 0

    def canon(t):
        t = t.replace("etl::", "").strip()
        return {"unsigned": "unsigned int", "signed": "int", "long int": "long"}.get(t, t)
    for f in db.funcs:
        if f.get("body") is None or not any(f["file"].startswith(p) for p in prefixes):
            continue
        ret = (f.get("ret") or "").replace("const ", "").strip()
        if not _ARITH.match(ret):
            continue
        inits = {}
        for st in astx.walk_stmts(f["body"]):
            if st.get("k") == "decl":
                for v in st["vars"]:
                    if "other" not in v and v.get("init") is not None:
                        inits[v["n"]] = v["init"]
        for st in [t for t in astx.walk_stmts(f["body"]) if t.get("k") == "return" and t.get("e") is not None]:
            e = astx.strip_casts(st["e"])
            # `auto const res = helper<X>(...); return res.value;`
            hops = 0
            while e is not None and e.get("k") in ("mem", "ref") and hops < 3:
                base = astx.strip_casts(e.get("b")) if e.get("k") == "mem" else e
                if base is not None and base.get("k") == "ref" and base.get("n") in inits:
                    e = astx.strip_casts(inits[base["n"]])
                else:
                    break
                hops += 1
            if e is None or e.get("k") != "call":
                continue
            ta = (e["f"].get("targs") or "").strip()
            if not ta or "," in ta or not _ARITH.match(ta):
                continue
            n += 1
            construct = "%s :: `%s`" % (astx.sig(f), astx.show(e, 50))
            chk.instance(rule)
            ok = canon(ta) == canon(ret)
            chk.obligation(rule, construct, ok)
            if not ok:
                chk.violation(rule, construct, "narrower-helper-type", "%s: %s returns `%s` but computes its value with `%s`" % (
                    astx.loc(f, st), f["n"], ret, ta), {"where": astx.loc(f)})
    return n


# ---- SIBNAME: functions that differ only in the width of their result have the same body ------------------------------------
SIBNAME_FAMILIES = [("strtol", "strtoll"), ("strtoul", "strtoull"), ("atoi", "atol", "atoll"), ("stoi", "stol", "stoll"),
                    ("stoul", "stoull"), ("to_ulong", "to_ullong"), ("lrint", "llrint"), ("lround", "llround")]


def sibname_area(chk, db, prefixes, rule="SIBNAME"):
    """`strtol` / `strtoll`, `atoi` / `atol` / `atoll`, `stoi` / `stol` / `stoll`, `to_ulong` / `to_ullong` ... are one
    function at several result widths: with type names and explicit template arguments erased, the bodies of the members of
    such a name family (same file, same parameter list) are the same tree."""
    from . import sibs as SB
    n = 0
    byname = {}
    for f in db.funcs:
        if f.get("body") is None or not any(f["file"].startswith(p) for p in prefixes):
            continue
        byname.setdefault(f["n"], []).append(f)
    for fam in SIBNAME_FAMILIES:
        members = []
        for nm in fam:
            members += byname.get(nm, [])
        groups = {}
        for g in members:
            key = (tuple(p["n"] for p in g["params"]), g.get("record") or "")
            groups.setdefault(key, []).append(g)
        for key, grp in sorted(groups.items(), key=lambda kv: str(kv[0])):
            if len(set(g["n"] for g in grp)) < 2:
                continue
            n += 1
            construct = " / ".join("%s (%s:%s)" % (g["n"], g["file"], g["line"]) for g in grp)
            chk.instance(rule)

            def strip_names(x):
                if isinstance(x, list):
                    return [strip_names(y) for y in x]
                if not isinstance(x, dict):
                    return x
                out = {}
                for k, v in x.items():
                    if k == "ty":
                        continue
                    if k == "n" and isinstance(v, str) and v in fam:
                        out[k] = "<self>"
                        continue
                    out[k] = strip_names(v)
                return out
            ns = [(g, strip_names(SB.norm(g["body"]))) for g in grp]
            keys = [__import__("json").dumps(x, sort_keys=True) for _g, x in ns]
            ref_i = max(range(len(keys)), key=lambda i: (keys.count(keys[i]), -i))
            diff = None
            for i, (g, x) in enumerate(ns):
                if keys[i] != keys[ref_i]:
                    pth, a, b = SB.first_diff(ns[ref_i][1], x)
                    diff = (ns[ref_i][0], g, a, b)
                    break
            chk.obligation(rule, construct, diff is None, evaluations=len(grp))
            if diff:
                rg, g, a, b = diff
                chk.violation(rule, construct, "width-siblings-disagree", "%s: %s computes `%s` where %s (line %s) computes `%s`; the two differ "
                              "only in the width of their result" % (astx.loc(g), g["n"], SB.show(b), rg["n"], rg["line"], SB.show(a)),
                              {"where": astx.loc(g)})
    return n


# ---- COPYMOD: an operator that returns a modified copy reads the object it copies ------------------------------------------
def copymod_area(chk, db, prefixes, rule="COPYMOD"):
    """A const member operator that returns its own class by value (`operator~`, unary `operator-`, `operator<<`, `operator+`
    with one operand ...) builds that value from `*this`: the body mentions `*this`, `this` or a data member. A result that
    never reads the object (`bitset().flip()` for `bitset(*this).flip()`) is the same for every operand."""
    n = 0
    for f in db.funcs:
        if f.get("body") is None or f.get("kind") != "method" or not f["n"].startswith("operator") or f.get("static"):
            continue
        if not any(f["file"].startswith(p) for p in prefixes) or not f.get("record"):
            continue
        ret = (f.get("ret") or "").replace("const ", "").strip()
        rec_base = f["record"].split("::")[-1].split("<")[0]
        if not ret or "&" in ret or ret.split("<")[0].split("::")[-1] != rec_base:
            continue
        rec = db.record(f["record"])
        fields = set(fd["n"] for fd in (rec or {}).get("fields", []))
        n += 1
        construct = astx.sig(f)
        chk.instance(rule)
        reads = False
        for x in astx.all_exprs(f, into_lambdas=True):
            if x.get("k") == "this":
                reads = True
            if x.get("k") == "mem" and x.get("n") in fields:
                reads = True
            if x.get("k") == "call" and astx.callee(x)[3] == "member" and (astx.callee(x)[2] is None or astx.is_this(astx.strip_casts(astx.callee(x)[2]))):
                reads = True
        chk.obligation(rule, construct, reads)
        if not reads:
            chk.violation(rule, construct, "operand-ignored", "%s: %s returns a %s that is built without reading the object it is applied to" % (
                astx.loc(f), f["n"], rec_base), {"where": astx.loc(f)})
    return n


# ---- IDXLOOP: an index loop over the object's own elements stops before size() ---------------------------------------------
def index_loop_area(chk, db, prefixes, rule="IDXLOOP"):
    """`for (i = start; i < size(); ++i) ... unsafe_at(i) / (*this)[i] / data()[i]`: a loop that steps an index upwards by one
    and reads the object's own element at that index has the strict bound `i < size()` (or `i != size()`); `i <= size()` reads
    the element one past the last. Loops with another bound expression are not instances."""
    n = 0
    for f in db.funcs:
        if f.get("body") is None or f.get("kind") != "method" or not any(f["file"].startswith(p) for p in prefixes):
            continue
        for lp in [st for st in astx.walk_stmts(f["body"]) if st.get("k") == "for" and st.get("c") is not None]:
            name = None
            if lp.get("init") is not None and lp["init"].get("k") == "decl":
                for v in lp["init"]["vars"]:
                    name = v["n"]
            if name is None:
                continue
            inc = lp.get("inc")
            if inc is None or not any(x.get("k") == "un" and x["op"] == "++" and ref_name(x["e"]) == name for x in astx.walk_expr(inc)):
                continue
            reads = False
            for x in astx.walk_stmt_exprs(lp.get("body"), into_lambdas=True):
                if x.get("k") == "call" and astx.callee(x)[0] in ("unsafe_at", "at") and len(x["a"]) == 1 and ref_name(x["a"][0]) == name and \
                        (astx.callee(x)[2] is None or astx.is_this(astx.strip_casts(astx.callee(x)[2]))):
                    reads = True
                if x.get("k") == "idx" and ref_name(x["i"]) == name:
                    b = astx.strip_casts(x["b"])
                    if b is not None and ((b.get("k") == "mem" and astx.is_this(b.get("b"))) or
                                          (b.get("k") == "un" and b["op"] == "*" and astx.is_this(astx.strip_casts(b["e"]))) or
                                          (b.get("k") == "call" and astx.callee(b)[0] in ("data", "begin") and not b["a"])):
                        reads = True
            if not reads:
                continue
            strict = loose = False
            todo = [lp["c"]]
            while todo:
                y = astx.strip_casts(todo.pop())
                if y is None:
                    continue
                if y.get("k") == "bin" and y["op"] == "&&":
                    todo += [y["l"], y["r"]]
                    continue
                if y.get("k") == "bin" and y["op"] in ("<", "<=", "!=", ">", ">="):
                    l, r, op = y["l"], y["r"], y["op"]
                    if ref_name(r) == name:
                        l, r, op = r, l, {"<": ">", "<=": ">=", ">": "<", ">=": "<=", "!=": "!="}[op]
                    r0 = astx.strip_casts(r)
                    own_size = r0 is not None and r0.get("k") == "call" and astx.callee(r0)[0] in ("size", "length") and not r0["a"] and \
                        (astx.callee(r0)[2] is None or astx.is_this(astx.strip_casts(astx.callee(r0)[2])))
                    if ref_name(l) == name and own_size:
                        if op in ("<", "!="):
                            strict = True
                        elif op == "<=":
                            loose = True
            if not (strict or loose):
                continue
            n += 1
            label = "%s :: index loop over `%s` at line %s" % (astx.sig(f), name, lp.get("line"))
            chk.instance(rule)
            ok = strict or not loose
            chk.obligation(rule, label, ok)
            if not ok:
                chk.violation(rule, label, "index-reaches-size", "%s: the loop runs while `%s <= size()` and reads the element at `%s`: the element one "
                              "past the last is read" % (astx.loc(f, lp), name, name), {"where": astx.loc(f)})
    return n


# ---- RSTEP: a cursor that is stepped downwards inside a loop bounded by `cursor != low` is compared before every step -------
def _cmp_other(c, name):
    """texts of the expressions `name` is compared with inside condition c"""
    out = []
    for x in astx.walk_expr(c):
        if x.get("k") == "bin" and x["op"] in ("!=", "==", "<", ">", "<=", ">="):
            for a, b in ((x["l"], x["r"]), (x["r"], x["l"])):
                if ref_name(a) == name:
                    out.append(astx.show(astx.strip_casts(b), 80))
    return out


def check_rstep(chk, f, rule="RSTEP"):
    """For every loop whose condition compares a local cursor/index `p` with a lower bound b and that steps p down by one
    (`--p` / `p--` in the body or the increment): on every structural path each such step is preceded, since p's previous
    step, by a fact that excludes p == b (`p != b` true, `p == b` false, `p > b` true, `b < p` true). A do-while that steps
    first and compares afterwards walks below b when it is entered with p == b.
    returns None (no subject) | list of (cursor, bound text, node) violations"""
    if f.get("body") is None:
        return None
    subjects = {}        # id(dec node) -> (name, bound texts)
    for lp in [st for st in astx.walk_stmts(f["body"]) if st.get("k") in ("for", "while", "do") and st.get("c") is not None]:
        in_cond = set(id(x) for x in astx.walk_expr(lp["c"]))
        decs = []
        for x in list(astx.walk_stmt_exprs(lp.get("body"))) + (list(astx.walk_expr(lp["inc"])) if lp.get("inc") is not None else []):
            if x.get("k") == "un" and x["op"] == "--" and ref_name(x["e"]):
                decs.append(x)
        for x in decs:
            if id(x) in in_cond:
                continue
            n = ref_name(x["e"])
            others = _cmp_other(lp["c"], n)
            if not others:
                continue
            # the cursor must not also be stepped upwards or moved by arithmetic inside the loop (not a plain downward scan)
            moved = False
            for y in list(astx.walk_stmt_exprs(lp.get("body"))) + (list(astx.walk_expr(lp["inc"])) if lp.get("inc") is not None else []):
                if y.get("k") == "un" and y["op"] == "++" and ref_name(y["e"]) == n:
                    moved = True
                if y.get("k") == "bin" and y["op"] in ("=", "+=", "-=") and ref_name(y["l"]) == n:
                    moved = True
            if moved:
                continue
            subjects[id(x)] = (n, set(others))
    if not subjects:
        return None
    bad = []
    for p in SP.paths(f["body"]):
        excl = {}       # name -> set of bound texts currently excluded
        def effects(e):
            for x in astx.walk_expr(e):
                if x.get("k") == "un" and x["op"] in ("--", "++") and ref_name(x["e"]):
                    n = ref_name(x["e"])
                    if id(x) in subjects:
                        nm, bounds = subjects[id(x)]
                        if not (excl.get(nm, set()) & bounds) and not any(b[2] is x for b in bad):
                            bad.append((nm, sorted(bounds)[0], x))
                    excl.pop(n, None)
                if x.get("k") == "bin" and x["op"] in ("=", "+=", "-=") and ref_name(x["l"]):
                    excl.pop(ref_name(x["l"]), None)
        for ev in p:
            if ev[0] in ("cond", "backedge-cond"):
                effects(ev[1])
                if ev[0] == "cond":
                    from .arith import atoms as _atoms, FLIP as _FLIP
                    for op, l, r in _atoms(ev[1], ev[2]):
                        for a, b, o in ((l, r, op), (r, l, _FLIP[op])):
                            n = ref_name(a)
                            if n and o in ("!=", ">"):
                                excl.setdefault(n, set()).add(astx.show(astx.strip_casts(b), 80))
            elif ev[0] == "decl":
                if ev[1].get("init") is not None:
                    effects(ev[1]["init"])
                excl.pop(ev[1].get("n"), None)
            elif ev[0] in ("expr", "ret") and ev[1] is not None:
                effects(ev[1])
    return bad


def rstep_area(chk, db, prefixes, rule="RSTEP"):
    n = 0
    for f in db.funcs:
        if f.get("body") is None or not any(f["file"].startswith(p) for p in prefixes):
            continue
        r = check_rstep(chk, f, rule)
        if r is None:
            continue
        n += 1
        construct = astx.sig(f)
        chk.instance(rule)
        chk.obligation(rule, construct, not r)
        for nm, bound, node in r[:2]:
            chk.violation(rule, construct, "steps-below-bound",
                          "%s: `%s` is executed on a path on which `%s` has not been compared with `%s` since its previous step: "
                          "when the loop is entered with %s == %s the cursor leaves the range downwards"
                          % (astx.loc(f, node), astx.show(node, 30), nm, bound, nm, bound), {"where": astx.loc(f)})
    return n


# ---- FUNCPASS: a functor-taking overload hands its functor to every ordering / matching algorithm it calls --------------------
def check_functor_passed(chk, f, rule="FUNCPASS"):
    """returns None (no functor parameter / no such call) | list of (call, functor name) that drop the functor"""
    fps = functor_params(f)
    if not fps or f.get("body") is None:
        return None
    out = []
    seen = False
    for x in astx.all_exprs(f, into_lambdas=True):
        if x.get("k") != "call":
            continue
        nm = astx.callee(x)[0]
        if nm is None or default_of(nm) is None or astx.callee(x)[2] is not None:
            continue
        fn0 = astx.strip_casts(x["f"])
        if fn0 is not None and fn0.get("k") == "ref" and fn0.get("d") in ("param", "local"):
            continue        # the functor parameter itself happens to be named like an algorithm
        seen = True
        mentions = False
        for a in x["a"]:
            for y in astx.walk_expr(a, into_lambdas=True):
                if y.get("k") == "ref" and y.get("n") in fps:
                    mentions = True
        # a functor object built on the spot (etl::less{}, a lambda) is a deliberate choice, not a dropped parameter
        explicit = any(astx.strip_casts(a) is not None and astx.strip_casts(a).get("k") in ("lambda", "construct") for a in x["a"])
        if not mentions and not explicit:
            out.append((x, fps[0]))
    return out if seen else None


def functor_passed_area(chk, db, prefixes, rule="FUNCPASS"):
    n = 0
    for f in db.funcs:
        if f.get("body") is None or not any(f["file"].startswith(p) for p in prefixes):
            continue
        r = check_functor_passed(chk, f, rule)
        if r is None:
            continue
        n += 1
        construct = astx.sig(f)
        chk.instance(rule)
        chk.obligation(rule, construct, not r)
        for call, fp in r[:2]:
            chk.violation(rule, construct, "functor-dropped",
                          "%s: `%s` is called without the functor `%s` this overload was given: that step uses the default "
                          "ordering / equality instead of the caller's" % (astx.loc(f, call), astx.show(call, 70), fp), {"where": astx.loc(f)})
    return n


# ---- TIEMOVE: stable algorithms reorder two elements only where the functor says strictly-less -------------------------------
STABLE_ALGOS = {"inplace_merge", "merge", "stable_sort", "insertion_sort", "merge_sort", "bubble_sort", "gnome_sort", "stable_partition",
                "set_union", "set_intersection", "set_difference", "set_symmetric_difference"}
REORDER_CALLS = {"rotate", "iter_swap", "swap", "swap_ranges", "reverse", "move_backward", "exchange"}


def _comp_facts(c, taken, fps):
    """[(call node, truth)] of functor calls whose value is known when condition c evaluates to `taken`"""
    c = astx.strip_casts(c)
    if c is None:
        return []
    if c.get("k") == "un" and c.get("op") == "!":
        return _comp_facts(c["e"], not taken, fps)
    if c.get("k") == "bin" and c["op"] == "&&":
        return _comp_facts(c["l"], True, fps) + _comp_facts(c["r"], True, fps) if taken else []
    if c.get("k") == "bin" and c["op"] == "||":
        return _comp_facts(c["l"], False, fps) + _comp_facts(c["r"], False, fps) if not taken else []
    if c.get("k") == "call":
        fn = astx.strip_casts(c["f"])
        if fn is not None and fn.get("k") == "ref" and fn.get("n") in fps:
            return [(c, taken)]
        if astx.callee(c)[0] == "invoke" and c["a"] and ref_name(c["a"][0]) in fps:
            return [(c, taken)]
    return []


def check_tie_move(chk, f, rule="TIEMOVE", names=STABLE_ALGOS):
    """returns None (not a stable algorithm with a functor-guarded reordering) | list of (reorder call, functor call)"""
    if f.get("body") is None or f["n"] not in names:
        return None
    fps = functor_params(f)
    if not fps:
        return None
    bad = []
    subject = False
    for p in SP.paths(f["body"]):
        facts = []          # functor facts in force (reset at a back edge: a new pair of elements is compared)
        for ev in p:
            if ev[0] == "cond":
                fs = _comp_facts(ev[1], ev[2], fps)
                if fs:
                    facts = fs
            elif ev[0] == "backedge-cond":
                facts = []
            exprs = []
            if ev[0] in ("expr", "ret") and len(ev) > 1 and ev[1] is not None:
                exprs.append(ev[1])
            if ev[0] == "decl" and ev[1].get("init") is not None:
                exprs.append(ev[1]["init"])
            for e in exprs:
                for x in astx.walk_expr(e):
                    if x.get("k") == "call" and astx.callee(x)[0] in REORDER_CALLS and facts:
                        subject = True
                        if all(t is False for _c, t in facts) and not any(b[0] is x for b in bad):
                            bad.append((x, facts[0][0]))
    return bad if subject else None


def tie_move_area(chk, db, prefixes, rule="TIEMOVE"):
    n = 0
    for f in db.funcs:
        if f.get("body") is None or not any(f["file"].startswith(p) for p in prefixes):
            continue
        r = check_tie_move(chk, f, rule)
        if r is None:
            continue
        n += 1
        construct = astx.sig(f)
        chk.instance(rule)
        chk.obligation(rule, construct, not r)
        for call, cmpc in r[:2]:
            chk.violation(rule, construct, "reorders-equivalent-elements",
                          "%s: `%s` reorders elements on a path on which `%s` is false, which includes equivalent elements: a stable "
                          "algorithm moves an element in front of another only where the functor orders it strictly before"
                          % (astx.loc(f, call), astx.show(call, 50), astx.show(cmpc, 50)), {"where": astx.loc(f)})
    return n


# ---- TYPEDFUN: a comparison functor fixed to one template parameter is not applied to an operand of another ------------------
TYPED_FUNCTOR = re.compile(r"\b(equal_to|not_equal_to|less|greater|less_equal|greater_equal)\s*<\s*([A-Za-z_]\w*)\s*>")


def check_typed_functor(chk, f, rule="TYPEDFUN"):
    """`equal_to<T>{}(a, b)` converts both operands to T before comparing. Inside a template whose operands are declared with
    different type parameters (optional<T> x optional<U>, T x optional<U>) that conversion changes the answer where U -> T is
    lossy; the heterogeneous comparison is `a == b` itself or a transparent functor (equal_to<>).
    returns None (function has fewer than two type parameters) | list of (call, functor type, operand, its parameter type)"""
    tps = [tp["n"] for tp in (f.get("tparams") or []) if tp.get("k") == "type"]
    if len(tps) < 2 or f.get("body") is None:
        return None
    ptypes = dict((p["n"], p["ty"]) for p in f["params"])
    out = []
    for x in astx.all_exprs(f, into_lambdas=True):
        if x.get("k") != "call":
            continue
        fn = astx.strip_casts(x["f"])
        if fn is None or fn.get("k") != "construct":
            continue
        m = TYPED_FUNCTOR.search(fn.get("ty", ""))
        if not m or m.group(2) not in tps:
            continue
        fixed = m.group(2)
        for a in x["a"]:
            roots = [y for y in astx.walk_expr(a) if y.get("k") == "ref" and y.get("d") == "param" and y["n"] in ptypes]
            for r in roots:
                mentioned = set(t for t in tps if re.search(r"\b%s\b" % re.escape(t), ptypes[r["n"]]))
                if mentioned and fixed not in mentioned:
                    out.append((x, fn.get("ty", ""), a, ptypes[r["n"]]))
                    break
    # the same conversion spelled as a cast: an operand of a comparison is cast to a type built from the *other* operand's
    # template parameter (`get<I>(lhs) == static_cast<Ts const&>(get<I>(rhs))`)
    for x in astx.all_exprs(f, into_lambdas=True):
        if x.get("k") != "bin" or x["op"] not in ("==", "!=", "<", ">", "<=", ">="):
            continue
        for side in (x["l"], x["r"]):
            c = side
            if c is None or c.get("k") != "cast" or c.get("ck") not in ("static", "functional", "cstyle"):
                continue
            named = set(t for t in tps if re.search(r"\b%s\b" % re.escape(t), c.get("ty", "")))
            roots = [y for y in astx.walk_expr(c["e"]) if y.get("k") == "ref" and y.get("d") == "param" and y["n"] in ptypes]
            for r in roots:
                mentioned = set(t for t in tps if re.search(r"\b%s\b" % re.escape(t), ptypes[r["n"]]))
                if named and mentioned and not (named & mentioned):
                    out.append((x, c.get("ty", ""), c["e"], ptypes[r["n"]]))
                    break
    return out


def typed_functor_area(chk, db, prefixes, rule="TYPEDFUN"):
    n = 0
    for f in db.funcs:
        if f.get("body") is None or not any(f["file"].startswith(p) for p in prefixes):
            continue
        r = check_typed_functor(chk, f, rule)
        if r is None:
            continue
        n += 1
        construct = astx.sig(f)
        chk.instance(rule)
        chk.obligation(rule, construct, not r)
        if not r:
            continue
        call, fty, arg, pty = r[0]
        chk.violation(rule, construct, "operand-converted",
                      "%s: `%s` converts `%s` (declared `%s`) to the functor's fixed argument type before comparing; the "
                      "standard compares the two values as they are (`a == b`), so a lossy conversion changes the result"
                      % (astx.loc(f, call), astx.show(call, 60), astx.show(arg, 30), pty), {"where": astx.loc(f)})
    return n


def typed_functor_control(chk, D):
    import os
    fx_path = os.path.join(D.VERIF, "fixtures", "arith_pos.hpp")
    fx = D.load_source('#include "%s"\n' % fx_path, root=os.path.dirname(fx_path) + "/", tag="fixture-arith")
    fxf = dict((g["n"], g) for g in fx.funcs)
    if not ("same_value" in fxf and check_typed_functor(chk, fxf["same_value"])):
        chk.analysis_broken("TYPEDFUN: the positive control fixture::same_value was not reported")
    if "same_value_plain" not in fxf or check_typed_functor(chk, fxf["same_value_plain"]):
        chk.analysis_broken("TYPEDFUN: the negative control fixture::same_value_plain was reported")


def count_subscript_control(chk, D):
    import os
    fx_path = os.path.join(D.VERIF, "fixtures", "arith_pos.hpp")
    fx = D.load_source('#include "%s"\n' % fx_path, root=os.path.dirname(fx_path) + "/", tag="fixture-arith")
    fxf = dict((g["n"], g) for g in fx.funcs)
    if not ("terminate_at_count" in fxf and count_subscripts(fxf["terminate_at_count"])):
        chk.analysis_broken("PTRCOUNT: the positive control fixture::terminate_at_count was not reported")
    if "terminate_behind_copy" not in fxf or count_subscripts(fxf["terminate_behind_copy"]):
        chk.analysis_broken("PTRCOUNT: the negative control fixture::terminate_behind_copy was reported")
