"""Rule family SLOTS: a raw store to the size of a contiguous container agrees with what happened to the slots.

Positions are linear forms over symbols (B = first slot, size = size() at function entry, parameters, opaque call
results). Along every structural path of a member function that stores the size directly (`unsafe_set_size(E)`):

  SLOTS-D  (C03)  when the store shrinks the container of a non-trivial element type, the destroyed range is exactly the
                  removed tail [B + E, B + size)
  SLOTS-C  (C03)  a placement construction that is followed by `size + 1` happens at the slot B + size
  SLOTS-W  (C01/C04)  when the store may grow the container, the slots [B + size, B + E) are written on that path

The forms are compared symbolically (identity of linear forms, `<=` through non-negative symbols and min/max), so the
verdict does not depend on sizes or element values. What cannot be normalised is UNKNOWN.
"""
from .. import astx
from . import sets as SP

SIZE_STORES = ("unsafe_set_size",)
BEGIN = ("begin", "cbegin", "data")
END = ("end", "cend")
BASE_FIELDS = ("_data", "_begin", "_buffer")


class Lin:
    __slots__ = ("c", "k")

    def __init__(self, c=None, k=0):
        self.c = dict((s, v) for s, v in (c or {}).items() if v != 0)
        self.k = k

    def __add__(self, o):
        c = dict(self.c)
        for s, v in o.c.items():
            c[s] = c.get(s, 0) + v
        return Lin(c, self.k + o.k)

    def __neg__(self):
        return Lin(dict((s, -v) for s, v in self.c.items()), -self.k)

    def __sub__(self, o):
        return self + (-o)

    def __eq__(self, o):
        return isinstance(o, Lin) and self.c == o.c and self.k == o.k

    def __hash__(self):
        return hash((tuple(sorted(self.c.items())), self.k))

    def is_const(self):
        return not self.c

    def __repr__(self):
        parts = []
        for s, v in sorted(self.c.items()):
            parts.append(("%s" % s) if v == 1 else ("-%s" % s if v == -1 else "%d*%s" % (v, s)))
        if self.k or not parts:
            parts.append(str(self.k))
        return " + ".join(parts).replace("+ -", "- ")


def sym(name):
    return Lin({name: 1})


def const(v):
    return Lin({}, v)


class Env:
    def __init__(self, func, is_ctor):
        self.func = func
        self.locals = {}
        self.size = const(0) if is_ctor else sym("size")
        self.minmax = {}       # symbol -> (kind, [Lin args])
        self.bounded = {"size"}   # symbols known to lie in [0, cap]
        self.pre = []             # known inequalities (a, b): a <= b
        self.signed = set(p["n"] for p in func["params"] if any(t in p["ty"] for t in ("ptrdiff_t", "difference_type", "int ", "long"))
                          and "unsigned" not in p["ty"] and "size" not in p["ty"])


def recv_is_this(call):
    nm, q, recv, kind = astx.callee(call)
    return kind == "member" and astx.is_this(recv)


def lin(e, env):
    """linear form of an integer or position expression, or None"""
    e = astx.strip_casts(e)
    if e is None:
        return None
    k = e.get("k")
    v = astx.int_value(e)
    if v is not None:
        return const(v)
    if k == "paren":
        return lin(e.get("e"), env)
    if k == "ref":
        if e.get("d") in ("local", "param") and e["n"] in env.locals:
            return env.locals[e["n"]]
        if e.get("d") in ("param", "local"):
            return sym(e["n"])
        return None
    if k == "mem" and astx.is_this(e.get("b")) and e.get("n") in BASE_FIELDS:
        return sym("B")
    if k == "bin" and e["op"] in ("+", "-"):
        a, b = lin(e["l"], env), lin(e["r"], env)
        if a is None or b is None:
            return None
        return a + b if e["op"] == "+" else a - b
    if k == "bin" and e["op"] == "*":
        a, b = lin(e["l"], env), lin(e["r"], env)
        if a is not None and b is not None and (a.is_const() or b.is_const()):
            cst, other = (a, b) if a.is_const() else (b, a)
            return Lin(dict((s, v * cst.k) for s, v in other.c.items()), other.k * cst.k)
        return None
    if k == "cond":
        # x < y ? x : y  is min(x, y);  x > y ? x : y  is max(x, y)  (either operand order)
        c = astx.strip_casts(e["c"])
        if c is not None and c.get("k") == "bin" and c["op"] in ("<", ">", "<=", ">="):
            a, b = lin(c["l"], env), lin(c["r"], env)
            t, f_ = lin(e["t"], env), lin(e["f"], env)
            if None not in (a, b, t, f_) and {repr(t), repr(f_)} == {repr(a), repr(b)}:
                picks_left = repr(t) == repr(a)
                less = c["op"] in ("<", "<=")
                kind = "min" if (picks_left == less) else "max"
                name = "%s(%s)" % (kind, "|".join(sorted(repr(x) for x in (a, b))))
                env.minmax[name] = (kind, [a, b])
                return sym(name)
        return None
    if k == "un" and e["op"] == "&":
        inner = astx.strip_casts(e["e"])
        if inner is not None and inner.get("k") == "ref" and inner.get("d") in ("param", "local"):
            return sym("&" + inner["n"])          # address of a named object: an opaque position
        return loc(e["e"], env)
    if k == "call":
        nm, q, recv, kind = astx.callee(e)
        a = e["a"]
        if kind == "member" and astx.is_this(recv):
            if nm in BEGIN and not a:
                return sym("B")
            if nm in END and not a:
                return sym("B") + env.size
            if nm in ("size", "length") and not a:
                return env.size
            if nm in ("capacity", "max_size") and not a:
                return sym("cap")
        if kind == "member" and nm in ("size", "length") and not a and not astx.is_this(recv):
            b = astx.strip_casts(recv)
            if b is not None and b.get("k") == "ref" and b.get("d") == "param":
                env.bounded.add("size(%s)" % b["n"])
                return sym("size(%s)" % b["n"])
        if kind == "member" and nm == "data" and not a:
            b = astx.strip_casts(recv)
            if b is not None and b.get("k") == "mem" and astx.is_this(b.get("b")):
                return sym("B")
        if nm == "addressof" and len(a) == 1:
            return loc(a[0], env)
        if nm in ("next", "prev") and a:
            p = lin(a[0], env)
            n = lin(a[1], env) if len(a) > 1 else const(1)
            if p is None or n is None:
                return None
            return p + n if nm == "next" else p - n
        if nm in ("copy", "move", "uninitialized_copy", "uninitialized_move") and len(a) == 3 and "raits" not in callee_qual(e):
            s1, s2, d = (lin(x, env) for x in a)
            if None in (s1, s2, d):
                return None
            return d + (s2 - s1)
        if nm in ("copy_backward", "move_backward") and len(a) == 3:
            s1, s2, d = (lin(x, env) for x in a)
            if None in (s1, s2, d):
                return None
            return d - (s2 - s1)
        if nm in ("copy_n", "fill_n", "uninitialized_fill_n") and len(a) == 3:
            idx = (2, 1) if nm == "copy_n" else (0, 1)
            d, n = lin(a[idx[0]], env), lin(a[idx[1]], env)
            if d is None or n is None:
                return None
            return d + n
        if nm in ("min", "max") and len(a) == 2:
            xs = [lin(x, env) for x in a]
            if None not in xs:
                name = "%s(%s)" % (nm, "|".join(sorted(repr(x) for x in xs)))
                env.minmax[name] = (nm, xs)
            else:
                name = "%s(%s)" % (nm, astx.show(e, 80))
            return sym(name)
        if nm == "distance" and len(a) == 2:
            x, y = lin(a[0], env), lin(a[1], env)
            if x is not None and y is not None:
                return y - x
        h = _inline_helper(e, env)
        if h is not None:
            return h
        # opaque value
        return sym("{%s}" % astx.show(e, 60))
    return None


def _inline_helper(call, env, depth=0):
    """value of a call of a small own member (declarations followed by one return) with linear arguments"""
    db = getattr(env, "db", None)
    rec = env.func.get("record")
    if db is None or not rec or getattr(env, "_depth", 0) > 2:
        return None
    nm, q, recv, kind = astx.callee(call)
    own = (kind == "member" and astx.is_this(recv)) or (kind == "free" and not (call["f"].get("qual") or "") and call["f"].get("d") in ("unresolved", "CXXMethod", "func"))
    if not own or not nm:
        return None
    cands = [g for g in db.methods(rec, nm) if len(g["params"]) == len(call["a"]) and g.get("body") is not None]
    if len(cands) != 1:
        return None
    g = cands[0]
    body = g["body"]["s"] if g["body"].get("k") == "seq" else [g["body"]]
    body = [st for st in body if st.get("k") != "null"]
    if not body or body[-1].get("k") != "return" or any(st.get("k") not in ("decl", "return") for st in body):
        return None
    args = [lin(a, env) for a in call["a"]]
    if None in args:
        return None
    sub = Env(g, False)
    sub.size, sub.minmax, sub.bounded, sub.pre = env.size, env.minmax, env.bounded, env.pre
    sub.db = db
    sub._depth = getattr(env, "_depth", 0) + 1
    for p_, a_ in zip(g["params"], args):
        sub.locals[p_["n"]] = a_
    for st in body[:-1]:
        for v in st["vars"]:
            if "other" in v or v.get("init") is None:
                continue
            t = lin(v["init"], sub)
            if t is None:
                return None
            sub.locals[v["n"]] = t
    return lin(body[-1].get("e"), sub)


def callee_qual(call):
    f = call["f"]
    return (f.get("qual") or "") + (f.get("q") or "")


def loc(e, env):
    """position of the element designated by an lvalue expression"""
    e = astx.strip_casts(e)
    if e is None:
        return None
    k = e.get("k")
    if k == "paren":
        return loc(e.get("e"), env)
    if k == "idx":
        b, i = lin(e["b"], env), lin(e["i"], env)
        return None if b is None or i is None else b + i
    if k == "un" and e["op"] == "*":
        return lin(e["e"], env)
    if k == "call":
        nm, q, recv, kind = astx.callee(e)
        a = e["a"]
        if kind == "member" and astx.is_this(recv):
            if nm == "back" and not a:
                return sym("B") + env.size - const(1)
            if nm == "front" and not a:
                return sym("B")
            if nm in ("unsafe_at", "operator[]", "at") and len(a) == 1:
                i = lin(a[0], env)
                return None if i is None else sym("B") + i
        if nm == "index" and len(a) == 2:
            b, i = lin(a[0], env), lin(a[1], env)
            return None if b is None or i is None else b + i
    return None


def le(a, b, env):
    """True when a <= b follows from non-negativity of symbols and min/max, None when unknown"""
    d = b - a
    return nonneg(d, env, 0)


def nonneg(d, env, depth):
    if all(v >= 0 or s in ("B",) and v == 0 for s, v in d.c.items()) and d.k >= 0 and not any(s in env.signed for s in d.c):
        return True
    if depth > 3:
        return None
    # known inequalities a <= b (preconditions, path facts): d >= 0 follows from d - (b - a) >= 0
    if depth < 2:
        for a_, b_ in getattr(env, "pre", []):
            if nonneg(d - (b_ - a_), env, depth + 2):
                return True
    # a bounded symbol s <= cap: a negative occurrence of s is at least as large as the same occurrence of cap
    neg_b = [t for t, w in d.c.items() if w < 0 and t in env.bounded]
    if neg_b:
        c2 = dict(d.c)
        for t in neg_b:
            c2["cap"] = c2.get("cap", 0) + c2.pop(t)
        if nonneg(Lin(c2, d.k), env, depth + 1):
            return True
    # max(x, y) with a negative coefficient: every argument must satisfy the bound
    for s_, v in d.c.items():
        mm = env.minmax.get(s_)
        if mm is not None and ((mm[0] == "max" and v < 0) or (mm[0] == "min" and v > 0)):
            rest = Lin(dict((t, w) for t, w in d.c.items() if t != s_), d.k)
            if all(nonneg(rest + Lin(dict((t, w * v) for t, w in x.c.items()), x.k * v), env, depth + 1) for x in mm[1]):
                return True
    # max(x, y) >= x, y (positive coefficient)  /  min(x, y) <= x, y (negative coefficient)
    for s, v in d.c.items():
        mm = env.minmax.get(s)
        if mm is None:
            continue
        kind, xs = mm
        if (kind == "max" and v > 0) or (kind == "min" and v < 0):
            for x in xs:
                d2 = Lin(dict((t, w) for t, w in d.c.items() if t != s), d.k) + Lin(dict((t, w * v) for t, w in x.c.items()), x.k * v)
                if nonneg(d2, env, depth + 1):
                    return True
    return None


def concrete(L, env, asg):
    """value of a linear form under an assignment of the bounded symbols (B = 0); None if another symbol occurs"""
    tot = L.k
    for sname, v in L.c.items():
        if sname == "B":
            continue
        if sname in asg:
            tot += v * asg[sname]
        elif sname in env.minmax:
            kind, xs = env.minmax[sname]
            vals = [concrete(x, env, asg) for x in xs]
            if None in vals:
                return None
            tot += v * (max(vals) if kind == "max" else min(vals))
        else:
            return None
    return tot


def refute_upper(hi, env, cap=7, free=(), facts=()):
    """an assignment of the bounded symbols and of the free integral parameters (0, 1 or cap) that satisfies every test on
    the path and under which hi > B + cap, or None"""
    import itertools
    names = sorted(set(env.bounded) | set(free))
    for vals in itertools.product((0, 1, cap), repeat=len(names)):
        asg = dict(zip(names, vals))
        asg["cap"] = cap
        ok = True
        for op, l, r in facts:
            lv, rv = concrete(l, env, asg), concrete(r, env, asg)
            if lv is None or rv is None:
                ok = False
                break
            if not {"<": lv < rv, ">": lv > rv, "<=": lv <= rv, ">=": lv >= rv, "==": lv == rv, "!=": lv != rv}[op]:
                ok = False
                break
        if not ok:
            continue
        v = concrete(hi, env, asg)
        if v is None:
            return None
        if v > cap:
            return dict((n, ("cap" if x == cap else x)) for n, x in asg.items() if n != "cap")
    return None


def events_of(e, env, out):
    """append (kind, lo, hi | value, node) for the slot effects of one expression, roughly in evaluation order"""
    for x in astx.walk_expr(e, into_lambdas=False):
        k = x.get("k")
        if k == "new" and x.get("placement"):
            p = lin(x["placement"][0], env)
            out.append(("C", p, None if p is None else p + const(1), x))
        elif k == "bin" and x["op"] == "=":
            p = loc(x["l"], env)
            if p is not None:
                out.append(("W", p, p + const(1), x))
        elif k == "call":
            nm, q, recv, kind = astx.callee(x)
            a = x["a"]
            f = x["f"]
            if f.get("k") == "mem" and (f.get("pseudo") or str(f.get("n", "")).startswith("~")):
                p = lin(f.get("b"), env)
                out.append(("D", p, None if p is None else p + const(1), x))
            elif nm in SIZE_STORES and kind == "member" and astx.is_this(recv) and len(a) == 1:
                out.append(("S", lin(a[0], env), None, x))
            elif nm == "construct_at" and a:
                p = lin(a[0], env)
                out.append(("C", p, None if p is None else p + const(1), x))
            elif nm == "destroy_at" and a:
                p = lin(a[0], env)
                out.append(("D", p, None if p is None else p + const(1), x))
            elif nm in ("destroy", "unsafe_destroy") and len(a) == 2:
                out.append(("D", lin(a[0], env), lin(a[1], env), x))
            elif nm == "destroy" and len(a) == 1 and astx.is_this(astx.strip_casts(a[0])):
                out.append(("D", sym("B"), sym("B") + env.size, x))
            elif nm == "unsafe_destroy_all" and not a:
                out.append(("D", sym("B"), sym("B") + env.size, x))
            elif nm in ("copy", "move", "assign") and len(a) == 3 and "raits" in callee_qual(x):
                d = lin(a[0], env)
                n = lin(a[2] if nm != "assign" else a[1], env)
                out.append(("W", d, None if d is None or n is None else d + n, x))
            elif nm in ("fill", "swap_ranges", "rotate", "generate", "iota", "uninitialized_fill", "uninitialized_value_construct") and len(a) >= 2:
                lo, hi = lin(a[0], env), lin(a[-1] if nm == "rotate" else a[1], env)
                out.append(("W", lo, hi, x))
            elif nm in ("fill_n", "uninitialized_fill_n") and len(a) >= 2:
                d, n = lin(a[0], env), lin(a[1], env)
                out.append(("W", d, None if d is None or n is None else d + n, x))
            elif nm in ("copy", "move", "uninitialized_copy", "uninitialized_move", "transform") and len(a) >= 3:
                s1, s2, d = lin(a[0], env), lin(a[1], env), lin(a[2], env)
                out.append(("W", d, None if None in (s1, s2, d) else d + (s2 - s1), x))
            elif nm in ("copy_backward", "move_backward") and len(a) == 3:
                s1, s2, d = lin(a[0], env), lin(a[1], env), lin(a[2], env)
                out.append(("W", None if None in (s1, s2, d) else d - (s2 - s1), d, x))
            elif nm == "copy_n" and len(a) == 3:
                n, d = lin(a[1], env), lin(a[2], env)
                out.append(("W", d, None if d is None or n is None else d + n, x))


def shrink_fact(path_facts, new, env):
    """a dominating test says new < size / new <= size"""
    for cond, taken in path_facts:
        c = astx.strip_casts(cond)
        if c is None or c.get("k") != "bin" or c["op"] not in ("<", ">", "<=", ">="):
            continue
        l, r = lin(c["l"], env), lin(c["r"], env)
        if l is None or r is None:
            continue
        op = c["op"]
        if not taken:
            op = {"<": ">=", ">": "<=", "<=": ">", ">=": "<"}[op]
        if op in ("<", "<="):
            small, big = l, r
        else:
            small, big = r, l
        if small == new and big == env.size:
            return True
    return False


def check_function(chk, f, want_destroy, rules, only=("W", "D", "C"), db=None):
    """returns number of size stores judged"""
    construct = astx.sig(f)
    is_ctor = f.get("kind") == "ctor" or f["n"] == "<ctor>"
    n_sites = 0
    reported = set()
    for p in SP.paths(f["body"]):
        env = Env(f, is_ctor)
        env.db = db
        evs = []
        facts = []
        lin_facts = []
        facts_ok = True
        for ev in p:
            if ev[0] == "cond":
                facts.append((ev[1], ev[2]))
                c_ = astx.strip_casts(ev[1])
                neg_ = False
                while c_ is not None and c_.get("k") == "un" and c_.get("op") == "!":
                    neg_ = not neg_
                    c_ = astx.strip_casts(c_["e"])
                if c_ is not None and c_.get("k") == "bin" and c_["op"] in ("<", ">", "<=", ">=", "==", "!="):
                    l_, r_ = lin(c_["l"], env), lin(c_["r"], env)
                    tk_ = ev[2] != neg_
                    if l_ is not None and r_ is not None:
                        lin_facts.append((c_["op"] if tk_ else {"<": ">=", ">": "<=", "<=": ">", ">=": "<", "==": "!=", "!=": "=="}[c_["op"]], l_, r_))
                    else:
                        facts_ok = False
                else:
                    facts_ok = False
            for e in SP.event_exprs(ev):
                before = len(evs)
                events_of(e, env, evs)
                # the size observed by later expressions
                for j in range(before, len(evs)):
                    kind, lo, hi, node = evs[j]
                    if kind == "S":
                        evs[j] = (kind, lo, (env.size, list(facts)), node)
                        if lo is not None:
                            env.size = lo
            if ev[0] == "decl":
                v = ev[1]
                if v.get("init") is not None and not v.get("ref"):
                    t = lin(v["init"], env)
                    if t is not None:
                        env.locals[v["n"]] = t
                    else:
                        env.locals.pop(v["n"], None)
        if "U" in only:
            for kind, lo, hi, node in evs:
                if kind != "W" or hi is None or lo is None:
                    continue
                if "B" not in hi.c or hi.c.get("B") != 1 or lo.c.get("B") != 1:
                    continue            # not a range of this object's storage
                n_sites += 1
                chk.instance("SLOTS-U")
                key = id(node)
                okk = le(hi, sym("B") + sym("cap"), env)
                wit_ = None
                if not okk:
                    free_ = [q["n"] for q in f["params"] if kind_of(q["ty"]) == "n"] if facts_ok else []
                    wit_ = refute_upper(hi, env, free=free_, facts=lin_facts if facts_ok else ())
                chk.obligation("SLOTS-U", construct, True if okk else (False if wit_ else None))
                if wit_ and (key, "uu") not in reported:
                    reported.add((key, "uu"))
                    chk.violation("SLOTS-U", construct, "writes-size-slot", "%s: `%s` writes [%s, %s); with %s the range includes index capacity(), "
                                  "where the small layout keeps the size" % (astx.loc(f, node), astx.show(node, 70), lo, hi,
                                                                              ", ".join("%s = %s" % kv for kv in sorted(wit_.items()))), {"where": astx.loc(f)})
                elif not okk and not wit_ and (key, "un") not in reported:
                    reported.add((key, "un"))
                    chk.unknown_instance("SLOTS-U", construct, "%s: upper end `%s` of a range write not bounded by capacity()" % (astx.loc(f, node), hi))
        stores = [(i, x) for i, x in enumerate(evs) if x[0] == "S"]
        for i, (kind, new, extra, node) in stores:
            old, pf = extra
            n_sites += 1
            where = astx.loc(f, node)
            key = id(node)
            if new is None:
                if (key, "u") not in reported:
                    reported.add((key, "u"))
                    chk.unknown_instance(rules[0], construct, "%s: size expression `%s` is not a linear form" % (where, astx.show(node, 60)))
                continue
            B = sym("B")
            d = new - old
            # an iterator pair (first, last) denotes a valid range: first - last <= 0
            names = [pp["n"] for pp in f["params"]]
            for bn, en in (("first", "last"), ("f", "l"), ("begin", "end")):
                if bn in names and en in names and d.c.get(bn, 0) > 0 and d.c.get(en, 0) == -d.c.get(bn, 0):
                    ds_ = Lin(dict((t, w) for t, w in d.c.items() if t not in (bn, en)), d.k)
                    break
            else:
                ds_ = d
            # the dominating tests were made against the size the object had *before* this store
            saved_size = env.size
            env.size = old
            try:
                by_fact = shrink_fact(pf, new, env)
            finally:
                env.size = saved_size
            shrinking = (ds_.is_const() and ds_.k <= 0) or (all(v <= 0 for v in ds_.c.values()) and ds_.k <= 0 and not (set(ds_.c) & env.signed)) \
                or by_fact
            before = [x for x in evs[:i]]
            # ---- shrink: destroyed range is the removed tail
            if shrinking:
                if d.is_const() and d.k == 0:
                    continue
                if not want_destroy or "D" not in only:
                    continue
                ds = [x for x in before if x[0] == "D"]
                chk.instance("SLOTS-D")
                ok = None
                msg = ""
                if not ds:
                    ok, msg = False, "the size shrinks from `%s` to `%s` but nothing is destroyed on this path" % (old, new)
                elif len(ds) == 1:
                    lo, hi = ds[0][1], ds[0][2]
                    if lo is None or hi is None:
                        ok = None
                    elif lo == B + new and hi == B + old:
                        ok = True
                    else:
                        ok, msg = False, "destroys [%s, %s) but the removed tail is [%s, %s)" % (lo, hi, B + new, B + old)
                chk.obligation("SLOTS-D", construct, ok)
                if ok is False and (key, "d") not in reported:
                    reported.add((key, "d"))
                    chk.violation("SLOTS-D", construct, "destroyed-range", "%s: %s" % (where, msg), {"where": where})
                elif ok is None and (key, "du") not in reported:
                    reported.add((key, "du"))
                    chk.unknown_instance("SLOTS-D", construct, "%s: destroyed range not normalisable" % where)
                continue
            # ---- grow / unknown direction: new slots are written on this path
            ws = [x for x in evs if x[0] in ("W", "C")]
            cs = [x for x in before if x[0] == "C"]
            if cs and want_destroy and "C" in only:
                chk.instance("SLOTS-C")
                okc = None
                if len(cs) == 1 and cs[0][1] is not None:
                    okc = (cs[0][1] == B + old) and (new == old + const(1))
                chk.obligation("SLOTS-C", construct, okc)
                if okc is False and (key, "c") not in reported:
                    reported.add((key, "c"))
                    chk.violation("SLOTS-C", construct, "construct-position",
                                  "%s: constructs at %s and stores size %s; the first free slot is %s" % (where, cs[0][1], new, B + old),
                                  {"where": where})
            if "G" in only and want_destroy:
                # SLOTS-G: slots gained by a raw size store hold no object until something is *constructed* there; writing them
                # through `=` runs an assignment operator on storage without a live object
                CONSTRUCTING = ("construct_at", "emplace_back", "push_back", "unchecked_emplace_back", "unchecked_push_back", "try_emplace_back",
                                "try_push_back", "emplace", "insert")
                any_c = [x for x in evs if x[0] == "C"] + [
                    y for y in astx.all_exprs(f, into_lambdas=False) if (y.get("k") == "new" and y.get("placement")) or (
                        y.get("k") == "call" and ((astx.callee(y)[0] or "").startswith("uninitialized_") or astx.callee(y)[0] in CONSTRUCTING))]
                plain_w = []
                for y in astx.all_exprs(f, into_lambdas=False):
                    if y.get("k") == "bin" and y.get("op") == "=":
                        l0 = astx.strip_casts(y["l"])
                        while l0 is not None and l0.get("k") == "paren":
                            l0 = astx.strip_casts(l0.get("e"))
                        if l0 is not None and ((l0.get("k") == "un" and l0.get("op") == "*") or l0.get("k") == "idx"):
                            plain_w.append(("W", None, None, y))
                    elif y.get("k") == "call" and astx.callee(y)[0] in ("fill", "fill_n", "copy", "copy_n", "move_backward", "copy_backward", "generate") \
                            and len(y["a"]) >= 2:
                        plain_w.append(("W", None, None, y))
                    elif y.get("k") == "call" and astx.callee(y)[0] == "move" and len(y["a"]) == 3:
                        plain_w.append(("W", None, None, y))
                growing = (ds_.is_const() and ds_.k > 0) or (not ds_.is_const() and all(v >= 0 for v in ds_.c.values()) and ds_.k >= 0 and not (set(ds_.c) & env.signed))
                if growing:
                    chk.instance("SLOTS-G")
                    okg = True if any_c else (False if plain_w else None)
                    chk.obligation("SLOTS-G", construct, okg)
                    if okg is False and (key, "g") not in reported:
                        reported.add((key, "g"))
                        chk.violation("SLOTS-G", construct, "assigned-not-constructed",
                                      "%s: the size grows from `%s` to `%s` and the new slots are only assigned to (`%s`): no object is "
                                      "constructed there, so the assignment operator (and later the destructor) runs on raw storage"
                                      % (where, old, new, astx.show(plain_w[0][3], 50) if len(plain_w[0]) > 3 and isinstance(plain_w[0][3], dict) else "="),
                                      {"where": where})
            if "W" not in only:
                continue
            chk.instance("SLOTS-W")
            need_lo, need_hi = B + old, B + new
            ok = None
            for w in ws:
                lo, hi = w[1], w[2]
                if lo is None or hi is None:
                    continue
                a = le(lo, need_lo, env)
                b = le(need_hi, hi, env)
                if a and b:
                    ok = True
                    break
            if ok is None:
                if not ws:
                    ok = False
                    msg = "the size may grow from `%s` to `%s` but no slot is written on this path" % (old, new)
                elif all(w[1] is not None and w[2] is not None for w in ws):
                    ok = False
                    msg = "the size may grow from `%s` to `%s`; the writes on this path cover %s, not [%s, %s)" % (
                        old, new, ", ".join("[%s, %s)" % (w[1], w[2]) for w in ws), need_lo, need_hi)
            chk.obligation("SLOTS-W", construct, ok)
            if ok is False and (key, "w") not in reported:
                reported.add((key, "w"))
                chk.violation("SLOTS-W", construct, "unwritten-slots", "%s: %s" % (where, msg), {"where": where})
            elif ok is None and (key, "wu") not in reported:
                reported.add((key, "wu"))
                chk.unknown_instance("SLOTS-W", construct, "%s: written range not normalisable" % where)
    return n_sites


def check(chk, db, records, want_destroy, skip=("unsafe_set_size", "set_size"), only=("W", "D", "C")):
    """records: record-name substrings; want_destroy(record name) -> bool"""
    n = 0
    for f in db.funcs:
        r = f.get("record") or ""
        if not any(x in r for x in records) or f.get("body") is None or f["n"] in skip:
            continue
        if "U" not in only and not any(x.get("k") == "call" and astx.callee(x)[0] in SIZE_STORES for x in astx.all_exprs(f, into_lambdas=False)):
            continue
        n += check_function(chk, f, want_destroy(r), ("SLOTS-W",), only, db)
    return n


# ---- POST: the size a mutator leaves behind ----------------------------------------------------------------------
def kind_of(ty):
    t = ty.replace("const ", "").replace(" const", "").replace("&", "").replace("etl::basic_inplace_string::", "").replace(
        "etl::static_vector::", "").replace("etl::inplace_vector::", "").strip()
    if t.endswith("..."):
        return "pack"
    if t in ("size_type", "size_t", "etl::size_t", "difference_type", "ptrdiff_t"):
        return "n"
    if t in ("const_pointer", "pointer", "Char *", "const_pointer"):
        return "p"
    if t.endswith("*"):
        return "p"
    if "iterator" in t or t in ("InputIt", "InputIter", "ForwardIt", "It", "InIt", "Iter", "BidiIt", "RandomIt"):
        return "it"
    if "basic_inplace_string" in t or t in ("StringView",) or "string_view" in t or "static_vector" in t or "inplace_vector" in t:
        return "s"
    return "c"


def _mn(env, a, b):
    name = "min(%s)" % "|".join(sorted(repr(x) for x in (a, b)))
    env.minmax[name] = ("min", [a, b])
    return sym(name)


def arg_kind(e, env_kinds, f):
    """'n' | 'c' | 'p' | 'it' | 's' | None (unknown) for an argument expression"""
    e = astx.strip_casts(e)
    if e is None:
        return None
    k = e.get("k")
    if k == "paren":
        return arg_kind(e.get("e"), env_kinds, f)
    if k == "int":
        return "n"
    if k == "char":
        return "c"
    if k == "ref":
        if e["n"] in env_kinds:
            return env_kinds[e["n"]]
        return None
    if k == "call":
        nm = astx.callee(e)[0]
        if nm in ("begin", "end", "cbegin", "cend", "next", "prev"):
            return "it"
        if nm in ("size", "length", "capacity", "max_size", "distance", "min", "max"):
            return "n"
        if nm in ("data", "c_str"):
            return "p"
        if nm in ("move", "forward") and len(e["a"]) == 1:
            return arg_kind(e["a"][0], env_kinds, f)
        return None
    if k == "bin" and e["op"] in ("+", "-"):
        a, b = arg_kind(e["l"], env_kinds, f), arg_kind(e["r"], env_kinds, f)
        if e["op"] == "-" and a == "it" and b == "it":
            return "n"
        if "it" in (a, b):
            return "it"
        if "p" in (a, b):
            return "p"
        if a == "n" or b == "n":
            return "n"
        return None
    if k in ("construct",):
        ty = e.get("ty") or ""
        if ty in ("Char", "T", "value_type"):
            return "c"
        return kind_of(ty) if ty else None
    if k == "un" and e["op"] == "&":
        return "p"
    return None


# (name, parameter kinds) -> (new size as a function of (env, old size, argument forms), parameters bounded by capacity)
POST_SPECS = {
    ("clear", ()): (lambda env, sz, a: const(0), ()),
    ("push_back", ("c",)): (lambda env, sz, a: sz + const(1), (), lambda sz, a: [(sz + const(1), sym("cap"))]),
    ("emplace_back", ("pack",)): (lambda env, sz, a: sz + const(1), ()),
    ("unchecked_push_back", ("c",)): (lambda env, sz, a: sz + const(1), ()),
    ("unchecked_emplace_back", ("pack",)): (lambda env, sz, a: sz + const(1), ()),
    ("pop_back", ()): (lambda env, sz, a: sz - const(1), ()),
    ("resize", ("n",)): (lambda env, sz, a: a[0], (0,)),
    ("resize", ("n", "c")): (lambda env, sz, a: a[0], (0,)),
    ("append", ("n", "c")): (lambda env, sz, a: sz + _mn(env, a[0], sym("cap") - sz), ()),
    ("append", ("p", "n")): (lambda env, sz, a: sz + _mn(env, a[1], sym("cap") - sz), ()),
    ("erase", ("it", "it")): (lambda env, sz, a: sz - (a[1] - a[0]), ()),
    ("erase", ("it",)): (lambda env, sz, a: sz - const(1), ()),
    ("erase", ("n", "n")): (lambda env, sz, a: sz - _mn(env, a[1], sz - a[0]), ()),
    ("assign", ("n", "c")): (lambda env, sz, a: a[0], (0,)),
    ("assign", ("p", "n")): (lambda env, sz, a: a[1], (1,)),
    ("assign", ("it", "it")): (lambda env, sz, a: a[1] - a[0], ()),
    ("insert", ("it", "c")): (lambda env, sz, a: sz + const(1), ()),
    ("insert", ("it", "n", "c")): (lambda env, sz, a: sz + a[1], ()),
    ("insert", ("it", "it", "it")): (lambda env, sz, a: sz + (a[2] - a[1]), ()),
    ("move_insert", ("it", "it", "it")): (lambda env, sz, a: sz + (a[2] - a[1]), ()),
    ("emplace_n", ("n",)): (lambda env, sz, a: a[0], (0,)),
}
CTOR_SIZE = {("n", "c"): lambda a: a[0], ("p", "n"): lambda a: a[1], ("it", "it"): lambda a: a[1] - a[0]}


def resolve_minmax(L, env, depth=0):
    """replace min/max symbols whose argument order is decided by the <= test"""
    if depth > 3:
        return L
    for s_, v in list(L.c.items()):
        mm = env.minmax.get(s_)
        if mm is None:
            continue
        kind, (x, y) = mm[0], mm[1]
        pick = None
        if le(x, y, env):
            pick = x if kind == "min" else y
        elif le(y, x, env):
            pick = y if kind == "min" else x
        if pick is not None:
            rest = Lin(dict((t, w) for t, w in L.c.items() if t != s_), L.k)
            return resolve_minmax(rest + Lin(dict((t, w * v) for t, w in pick.c.items()), pick.k * v), env, depth + 1)
    return L


def spec_for(db, rec, name, params):
    kinds = tuple(kind_of(p["ty"]) if not p.get("pack") else "pack" for p in params)
    return POST_SPECS.get((name, kinds)), kinds


def _ref(n):
    return {"k": "ref", "n": n, "d": "param"}


def _synthetic(name, arg):
    return {"k": "expr", "e": {"k": "call", "f": {"k": "ref", "n": name, "d": "synthetic"}, "a": [arg]}}


def summarise_loops(st, plus_one):
    """Replace counting loops whose body changes the size by exactly +1 per iteration through one specified member call by a
    synthetic statement: `while (n != 0) { push_back(x); --n; }` -> __size_add(n); `for (; first != last; ++first) push(...)`
    -> __size_add(last - first); `while (n != size()) emplace_back(...)` -> __size_set(n). Anything else is left alone."""
    if st is None or not isinstance(st, dict):
        return st
    k = st.get("k")
    if k == "seq":
        return dict(st, s=[summarise_loops(c, plus_one) for c in st["s"]])
    if k == "if":
        return dict(st, then=summarise_loops(st.get("then"), plus_one), **({"else": summarise_loops(st.get("else"), plus_one)} if st.get("else") else {}))
    if k in ("for", "while") and st.get("c") is not None:
        body = st.get("body")
        stmts = body["s"] if body and body.get("k") == "seq" else ([body] if body else [])
        exprs = [x["e"] for x in stmts if x.get("k") == "expr"]
        if len(exprs) != len(stmts):
            return st
        inc = [st["inc"]] if st.get("inc") is not None else []
        calls = []
        steps = {}
        for e in exprs + inc:
            for y in (astx.walk_expr(e) if e.get("k") == "bin" and e.get("op") == "," else [e]):
                y0 = astx.strip_casts(y)
                if y0 is None:
                    continue
                if y0.get("k") == "call" and astx.callee(y0)[0] in plus_one:
                    calls.append(y0)
                elif y0.get("k") == "un" and y0["op"] in ("++", "--") and astx.strip_casts(y0["e"]).get("k") == "ref":
                    steps[astx.strip_casts(y0["e"])["n"]] = y0["op"]
                elif y0.get("k") == "call" or (y0.get("k") == "bin" and y0["op"] in ("=", "+=", "-=")):
                    if not (e.get("k") == "bin" and e.get("op") == ","):
                        return st
        if len(calls) != 1:
            return st
        c = astx.strip_casts(st["c"])
        if c is None or c.get("k") != "bin" or c["op"] not in ("!=", ">", "<"):
            return st
        l, r = astx.strip_casts(c["l"]), astx.strip_casts(c["r"])
        # while (n != 0) { ...; --n; }
        for a, b in ((l, r), (r, l)):
            if a is not None and a.get("k") == "ref" and astx.int_value(b) == 0 and steps.get(a["n"]) == "--" and len(steps) == 1:
                return _synthetic("__size_add", a)
        # for (; first != last; ++first)
        if c["op"] == "!=" and l is not None and r is not None and l.get("k") == "ref" and r.get("k") == "ref":
            if steps.get(l["n"]) == "++" and len(steps) == 1:
                return _synthetic("__size_add", {"k": "bin", "op": "-", "l": r, "r": l})
        # while (n != size()) emplace_back(...)
        for a, b in ((l, r), (r, l)):
            if a is not None and a.get("k") == "ref" and b is not None and b.get("k") == "call" and astx.callee(b)[0] == "size" and not steps \
                    and c["op"] == "!=":
                return _synthetic("__size_set", a)
        return st
    return st


def size_changers(db, records):
    """names of member functions (of the given record family) that may change the size: they store it directly or call one
    that does (least fixed point over the own-object call relation)"""
    fam = [f for f in db.funcs if any(x in (f.get("record") or "") for x in records) and f.get("body") is not None]
    names = set()
    for f in fam:
        for x in astx.all_exprs(f, into_lambdas=True):
            if x.get("k") == "call" and astx.callee(x)[0] in SIZE_STORES + ("set_size",):
                names.add(f["n"])
            if x.get("k") == "bin" and x["op"] in ("=", "+=", "-=") and astx.strip_casts(x["l"]) is not None and \
                    astx.strip_casts(x["l"]).get("k") == "mem" and astx.strip_casts(x["l"]).get("n") in ("_size",):
                names.add(f["n"])
            if x.get("k") == "un" and x["op"] in ("++", "--") and astx.strip_casts(x["e"]) is not None and \
                    astx.strip_casts(x["e"]).get("k") == "mem" and astx.strip_casts(x["e"]).get("n") in ("_size",):
                names.add(f["n"])
    changed = True
    while changed:
        changed = False
        for f in fam:
            if f["n"] in names:
                continue
            for x in astx.all_exprs(f, into_lambdas=True):
                if x.get("k") == "call" and astx.callee(x)[0] in names:
                    nm, q, recv, kind = astx.callee(x)
                    own = (kind == "member" and astx.is_this(recv)) or (kind == "free" and not (x["f"].get("qual") or ""))
                    if own:
                        names.add(f["n"])
                        changed = True
                        break
                if x.get("k") == "bin" and x["op"] == "=" and astx.strip_casts(x["l"]) is not None and \
                        astx.strip_casts(x["l"]).get("k") == "un" and astx.strip_casts(astx.strip_casts(x["l"])["e"]).get("k") == "this":
                    names.add(f["n"])
                    changed = True
                    break
    return names


def check_post(chk, db, records, rule="POST"):
    """POST: along every structural path of a mutating member the size it leaves equals the specified one; calls of other
    mutators of the same object use *their* specification (assume/guarantee). Paths with a size change inside a loop or
    through an unspecified member are UNKNOWN."""
    n = 0
    changers = size_changers(db, records)
    for f in db.funcs:
        rec = f.get("record") or ""
        if not any(x in rec for x in records) or f.get("body") is None or f.get("kind") not in ("method",):
            continue
        sp, kinds = spec_for(db, rec, f["n"], f["params"])
        if sp is None or "zero_storage" in rec or rec.replace(" ", "").endswith(",0>"):
            continue
        fn, bounded_idx = sp[0], sp[1]
        pre_fn = sp[2] if len(sp) > 2 else None
        construct = astx.sig(f)
        n += 1
        chk.instance(rule)
        verdict = True
        why = None
        bad = None
        plus_one = set(k0[0] for k0, v0 in POST_SPECS.items() if k0[0] in ("push_back", "emplace_back", "unchecked_push_back", "unchecked_emplace_back"))
        body = summarise_loops(f["body"], plus_one)
        for p in SP.paths(body):
            env = Env(f, False)
            env.db = db
            names = [q["n"] for q in f["params"]]
            for i in bounded_idx:
                env.bounded.add(names[i])
            args0 = [sym(q["n"]) for q in f["params"]]
            want = fn(env, sym("size"), args0)
            if pre_fn:
                env.pre += pre_fn(sym("size"), args0)
            in_loop = 0
            facts = []
            unknown = None
            infeasible = False
            env_kinds = dict((q["n"], kind_of(q["ty"])) for q in f["params"] if not q.get("pack"))
            for ev in p:
                if ev[0] == "cond":
                    c = astx.strip_casts(ev[1])
                    if c is not None and c.get("k") == "bin" and c["op"] in ("<", ">", "<=", ">=", "==", "!="):
                        l, r = lin(c["l"], env), lin(c["r"], env)
                        if l is not None and r is not None:
                            d = (l - r)
                            if d.is_const():
                                val = {"<": d.k < 0, ">": d.k > 0, "<=": d.k <= 0, ">=": d.k >= 0, "==": d.k == 0, "!=": d.k != 0}[c["op"]]
                                if val != ev[2]:
                                    infeasible = True
                                    break
                            op_ = c["op"] if ev[2] else {"<": ">=", ">": "<=", "<=": ">", ">=": "<", "==": "!=", "!=": "=="}[c["op"]]
                            facts.append((op_, l, r))
                            if op_ == "<=":
                                env.pre.append((l, r))
                            elif op_ == ">=":
                                env.pre.append((r, l))
                            elif op_ == "<":
                                env.pre.append((l + const(1), r))
                            elif op_ == ">":
                                env.pre.append((r + const(1), l))
                            elif op_ == "==":
                                env.pre += [(l, r), (r, l)]
                if ev[0] == "backedge-cond":
                    in_loop += 1
                if ev[0] == "decl":
                    v = ev[1]
                    if v.get("init") is not None and not v.get("ref"):
                        t = lin(v["init"], env)
                        if t is not None:
                            env.locals[v["n"]] = t
                        else:
                            env.locals.pop(v["n"], None)
                        env_kinds[v["n"]] = arg_kind(v["init"], env_kinds, f)
                for e in SP.event_exprs(ev):
                    for x in astx.walk_expr(e, into_lambdas=False):
                        if x.get("k") == "call":
                            nm, q, recv, kind = astx.callee(x)
                            own = (kind == "member" and astx.is_this(recv)) or (kind == "free" and x["f"].get("d") in ("unresolved", "CXXMethod") and not (x["f"].get("qual") or ""))
                            if nm in ("__size_add", "__size_set") and x["f"].get("d") == "synthetic":
                                t = lin(x["a"][0], env)
                                if t is None:
                                    unknown = "loop trip count not linear"
                                else:
                                    env.size = env.size + t if nm == "__size_add" else t
                            elif nm in SIZE_STORES and own and len(x["a"]) == 1:
                                t = lin(x["a"][0], env)
                                if t is None:
                                    unknown = "size expression not linear"
                                else:
                                    env.size = t
                            elif own and nm in set(k[0] for k in POST_SPECS):
                                cands = [g for g in db.methods(rec, nm) if len(g["params"]) == len(x["a"]) or any(q.get("pack") for q in g["params"])]
                                aks = [arg_kind(a, env_kinds, f) for a in x["a"]]

                                def fits(g):
                                    ks = spec_for(db, rec, nm, g["params"])[1]
                                    if "pack" in ks:
                                        return True
                                    return all(ak is None or ak == gk or (ak == "p" and gk == "it") for ak, gk in zip(aks, ks))
                                cands = [g for g in cands if fits(g)]
                                chosen = [g for g in cands if spec_for(db, rec, nm, g["params"])[0] is not None]
                                if len(set(spec_for(db, rec, nm, g["params"])[1] for g in cands)) != 1 or not chosen:
                                    unknown = "call of `%s` is not resolved to one specified overload" % nm
                                else:
                                    fn2 = spec_for(db, rec, nm, chosen[0]["params"])[0][0]
                                    args = [lin(a, env) for a in x["a"]]
                                    if any(a is None for a in args) and not any(q.get("pack") for q in chosen[0]["params"]):
                                        unknown = "argument of `%s` not linear" % nm
                                    else:
                                        env.size = fn2(env, env.size, args)
                            elif own and nm not in SIZE_STORES and nm in changers:
                                unknown = "call of the unspecified size-changing member `%s`" % nm
                        if x.get("k") == "bin" and x["op"] == "=":
                            l = astx.strip_casts(x["l"])
                            if l is not None and l.get("k") == "un" and l["op"] == "*" and astx.strip_casts(l["e"]).get("k") == "this":
                                r = astx.strip_casts(x["r"])
                                if r is not None and r.get("k") in ("construct", "initlist"):
                                    args = r.get("a", [])
                                    if len(args) == 1 and args[0] is not None and args[0].get("k") == "initlist":
                                        args = args[0]["a"]
                                    ctors = [g for g in db.by_q.get(rec + "::<ctor>", []) if len(g["params"]) == len(args)]
                                    aks = [arg_kind(a, env_kinds, f) for a in args]
                                    kk = set(tuple(kind_of(q["ty"]) for q in g["params"]) for g in ctors)
                                    kk = [k0 for k0 in kk if all(ak is None or ak == gk for ak, gk in zip(aks, k0))]
                                    if not all(k0 in CTOR_SIZE for k0 in kk):
                                        kk = []
                                    if len(kk) == 1:
                                        la = [lin(a, env) for a in args]
                                        env.size = CTOR_SIZE[kk[0]](la) if None not in la else env.size
                                        if None in la:
                                            unknown = "constructor argument not linear"
                                    else:
                                        unknown = "assignment from a temporary whose size is not specified"
                                else:
                                    unknown = "assignment of another object"
            if infeasible:
                continue
            if in_loop:
                unknown = unknown or "the size changes inside a loop"
                # only if a size-changing call occurred at all; a loop that does not touch the size is harmless
                if env.size == sym("size"):
                    unknown = None if want == sym("size") else unknown
            if unknown:
                if verdict is True:
                    verdict, why = None, unknown
                continue
            got = resolve_minmax(env.size, env)
            wnt = resolve_minmax(want, env)
            # path facts of the form a < b / a >= b decide remaining min/max
            if got == wnt:
                continue
            # an equality fact l == r on the path: forms that differ by a multiple of (l - r) are equal
            diff = got - wnt
            eq_ok = False
            for op, l, r in facts:
                if op == "==":
                    dd = l - r
                    if dd.c and not dd.is_const():
                        s0 = next(iter(dd.c))
                        if diff.c.get(s0, 0) % dd.c[s0] == 0:
                            m_ = diff.c.get(s0, 0) // dd.c[s0]
                            if diff == Lin(dict((t, w * m_) for t, w in dd.c.items()), dd.k * m_):
                                eq_ok = True
            if not eq_ok and le(got, wnt, env) and le(wnt, got, env):
                eq_ok = True
            if eq_ok:
                continue
            # try to refute concretely over the bounded symbols and the parameters (0, 1, cap-1, cap), respecting the facts
            import itertools
            symbols = sorted((set(got.c) | set(wnt.c) | set(s0 for _o, l, r in facts for s0 in list(l.c) + list(r.c))) - {"B", "cap"})
            flat = []
            for s0 in symbols:
                if s0 in env.minmax:
                    for x0 in env.minmax[s0][1]:
                        flat += [t for t in x0.c if t not in ("B", "cap")]
                else:
                    flat.append(s0)
            flat = sorted(set(t for t in flat if t not in env.minmax))
            found = None
            opaque = any(t.startswith("{") or t.startswith("&") for t in flat)
            if len(flat) <= 4 and not opaque:
                cap = 7
                for vals in itertools.product((0, 1, 2, cap - 1, cap), repeat=len(flat)):
                    asg = dict(zip(flat, vals))
                    asg["cap"] = cap
                    if asg.get("size", 0) > cap or any(asg.get(b0, 0) > cap for b0 in env.bounded):
                        continue
                    ok_f = True
                    for op, l, r in facts:
                        lv, rv = concrete(l, env, asg), concrete(r, env, asg)
                        if lv is None or rv is None:
                            ok_f = None
                            break
                        if not {"<": lv < rv, ">": lv > rv, "<=": lv <= rv, ">=": lv >= rv, "==": lv == rv, "!=": lv != rv}[op]:
                            ok_f = False
                            break
                    if not ok_f:
                        continue
                    gv, wv = concrete(got, env, asg), concrete(wnt, env, asg)
                    if gv is None or wv is None:
                        continue
                    if gv != wv and wv >= 0 and wv <= cap:
                        found = (asg, gv, wv)
                        break
            if found and bad is None:
                bad = (got, wnt, found)
            elif not found and verdict is True:
                verdict, why = None, "size `%s` not shown equal to the specified `%s`" % (got, wnt)
        chk.obligation(rule, construct, False if bad else verdict)
        if bad:
            got, wnt, (asg, gv, wv) = bad
            chk.violation(rule, construct, "size-after", "%s: a path leaves size `%s` where `%s` is specified: with %s the size becomes %d instead of %d" % (
                astx.loc(f), got, wnt, ", ".join("%s = %s" % kv for kv in sorted(asg.items())), gv, wv), {"where": astx.loc(f)})
        elif verdict is None:
            chk.unknown_instance(rule, construct, why or "")
    return n
