"""Rule family EXIT: the early exits of the search functions are exactly the cases the standard's specification excludes.

A search returns `npos` without looking at any character only when no position can satisfy the specification, and returns
`pos` without looking only for the empty needle. The function's program is lowered without inlining; every path that reaches
a `return` before any loop or delegating call is an early exit. Its path condition (machine arithmetic, 64-bit wrap-around)
is compared with the specification's feasibility predicate (unbounded integers) in every finite model of
(pos, size(needle), size(haystack)).
"""
from .. import astx
from .. import prog as P
from .. import terms as T
from . import guard as G


def early_exits(prog):
    """[(path condition terms, ret info)] for returns reached before a loop / inlined call"""
    out = []

    def walk(nodes, conds):
        """returns False when the walk must stop (a loop or call was reached on this path)"""
        for i, nd in enumerate(nodes):
            k = nd[0]
            if k == "ret":
                out.append((list(conds), nd[1]))
                return False
            if k in ("loop", "inline", "unreachable"):
                return False
            if k == "effect":
                info = nd[2]
                if info.get("opaque") or info.get("token") or nd[1] in ("maybe", "outside", "own"):
                    return False
            if k == "guard":
                conds = conds + [nd[1]]
            if k == "branch":
                c = nd[1]
                t_cont = walk(nd[2], conds + [c])
                e_cont = walk(nd[3], conds + [("not", c)])
                rest = nodes[i + 1:]
                if t_cont:
                    walk(rest, conds + [c])
                if e_cont:
                    walk(rest, conds + [("not", c)])
                return False
        return True

    walk(prog, [])
    return out


def classify_value(e, pos_name):
    e = astx.strip_casts(e)
    if e is None:
        return "void"
    if e.get("k") in ("ref", "mem") and e.get("n") == "npos":
        return "npos"
    if e.get("k") == "ref" and e.get("n") == pos_name:
        return "pos"
    if e.get("k") == "call":
        return "call"
    return "other"


# feasibility of a result, over unbounded integers: P = pos, N = size(needle), S = size(haystack)
FAMILIES = {
    "find": "P <= S and N <= S - P",
    "rfind": "N <= S",
    "find_first_of": "P < S and N > 0",
    "find_first_not_of": "P < S",
    "find_last_of": "S > 0 and N > 0",
    "find_last_not_of": "S > 0",
}


def feasible(family, p, n, s):
    if family == "find":
        return p <= s and n <= s - p
    if family == "rfind":
        return n <= s
    if family == "find_first_of":
        return p < s and n > 0
    if family == "find_first_not_of":
        return p < s
    if family == "find_last_of":
        return s > 0 and n > 0
    if family == "find_last_not_of":
        return s > 0
    return None


def check_function(chk, db, f, family, pos_name, needle_atom, hay_atom, rule="EXIT"):
    """returns number of early exits judged"""
    construct = astx.sig(f)
    b = P.Builder(db, max_depth=0)
    try:
        prog, ctx = b.build(f)
    except Exception as ex:     # pragma: no cover
        chk.unknown_instance(rule, construct, "not lowered: %s" % ex)
        return 0
    exits = early_exits(prog)
    n = 0
    for conds, info in exits:
        val = classify_value(info.get("value"), pos_name)
        if val not in ("npos", "pos"):
            continue
        n += 1
        chk.instance(rule)
        atom_sorts = {}
        for c in conds:
            T.atoms(c, atom_sorts)
        for need in (pos_name, needle_atom, hay_atom):
            atom_sorts.setdefault(need, "u")
        unknown = any(T.has_unknown(c) for c in conds)
        bad = None
        nm = 0
        if not unknown:
            for sc in G.sort_choices(dict((a, s) for a, s in atom_sorts.items())):
                inst = [T.instantiate_sorts(c, sc) for c in conds]
                consts = set()
                for c in inst:
                    T.constants_in(c, consts)
                for m in T.models(dict((a, sc.get(a, s)) for a, s in atom_sorts.items()), [], constants=consts):
                    nm += 1
                    if not all(T.truth(c, m) is True for c in inst):
                        continue
                    p_, n_, s_ = m.get(pos_name, 0), m.get(needle_atom, 0), m.get(hay_atom, 0)
                    if val == "npos" and feasible(family, p_, n_, s_):
                        bad = ("returns npos although a result is possible", m)
                        break
                    if val == "pos" and not (n_ == 0 and p_ <= s_) and family in ("find", "rfind"):
                        bad = ("returns pos although the needle is not empty or pos is past the end", m)
                        break
                if bad:
                    break
        label = "%s :: early `return %s` at line %s" % (construct, "npos" if val == "npos" else pos_name, info.get("line"))
        chk.obligation(rule, label, None if unknown else (bad is None), evaluations=max(1, nm))
        if unknown:
            chk.unknown_instance(rule, label, "the path condition contains an unmodelled term")
        elif bad:
            chk.violation(rule, label, "spurious-early-exit", "%s:%s: %s %s: %s (specification: a result exists iff %s)" % (
                "include/etl/" + f["file"], info.get("line"), f["n"], bad[0], T.show_model(bad[1]), FAMILIES[family]),
                {"where": astx.loc(f), "model": T.show_model(bad[1])})
    return n
