"""Rule family EXIT: the early exits of the search functions are exactly the cases the standard's specification excludes.

A search returns `npos` without looking at any character only when no position can satisfy the specification, and returns
`pos` without looking only for the empty needle. The function's program is lowered without inlining; every path that reaches
a `return` before any loop or delegating call is an early exit. Its path condition (machine arithmetic, 64-bit wrap-around)
is compared with the specification's feasibility predicate (unbounded integers) in every finite model of
(pos, size(needle), size(haystack)).
"""
import re
from . import sets as SP
from .. import astx
from .. import prog as P
from .. import terms as T
from . import guard as G


def early_exits(prog):
    """[(path condition terms, ret info)] for returns reached before a loop / inlined call"""
    out = []

    def walk(nodes, conds):
        """returns False when the walk must stop (a loop or call was reached on this path)"""
        for i, nd in enumerate(nodes):
            k = nd[0]
            if k == "ret":
                out.append((list(conds), nd[1]))
                return False
            if k in ("loop", "inline", "unreachable"):
                return False
            if k == "effect":
                info = nd[2]
                if info.get("opaque") or info.get("token") or nd[1] in ("maybe", "outside", "own"):
                    return False
            if k == "guard":
                conds = conds + [nd[1]]
            if k == "branch":
                c = nd[1]
                t_cont = walk(nd[2], conds + [c])
                e_cont = walk(nd[3], conds + [("not", c)])
                rest = nodes[i + 1:]
                if t_cont:
                    walk(rest, conds + [c])
                if e_cont:
                    walk(rest, conds + [("not", c)])
                return False
        return True

    walk(prog, [])
    return out


def classify_value(e, pos_name):
    e = astx.strip_casts(e)
    if e is None:
        return "void"
    if e.get("k") in ("ref", "mem") and e.get("n") == "npos":
        return "npos"
    if e.get("k") == "ref" and e.get("n") == pos_name:
        return "pos"
    if e.get("k") == "call":
        return "call"
    return "other"


# feasibility of a result, over unbounded integers: P = pos, N = size(needle), S = size(haystack)
FAMILIES = {
    "find": "P <= S and N <= S - P",
    "rfind": "N <= S",
    "find_first_of": "P < S and N > 0",
    "find_first_not_of": "P < S",
    "find_last_of": "S > 0 and N > 0",
    "find_last_not_of": "S > 0",
}


def feasible(family, p, n, s):
    if family == "find":
        return p <= s and n <= s - p
    if family == "rfind":
        return n <= s
    if family == "find_first_of":
        return p < s and n > 0
    if family == "find_first_not_of":
        return p < s
    if family == "find_last_of":
        return s > 0 and n > 0
    if family == "find_last_not_of":
        return s > 0
    return None


def check_function(chk, db, f, family, pos_name, needle_atom, hay_atom, rule="EXIT"):
    """returns number of early exits judged"""
    construct = astx.sig(f)
    b = P.Builder(db, max_depth=0)
    try:
        prog, ctx = b.build(f)
    except Exception as ex:     # pragma: no cover
        chk.unknown_instance(rule, construct, "not lowered: %s" % ex)
        return 0
    exits = early_exits(prog)
    n = 0
    for conds, info in exits:
        val = classify_value(info.get("value"), pos_name)
        rterm = None
        if val in ("other", "call") and info.get("value") is not None:
            # a computed position (`return min(pos, size() - 1);`): it must be npos or lie inside the view
            try:
                rterm = P.simplify(T.to_term(info["value"], ctx))
            except Exception:
                rterm = None
            if rterm is None or T.has_unknown(rterm):
                continue
            val = "computed"
        if val not in ("npos", "pos", "computed"):
            continue
        n += 1
        chk.instance(rule)
        atom_sorts = {}
        for c in conds:
            T.atoms(c, atom_sorts)
        if rterm is not None:
            T.atoms(rterm, atom_sorts)
        for need in (pos_name, needle_atom, hay_atom):
            if need is not None:
                atom_sorts.setdefault(need, "u")
        unknown = any(T.has_unknown(c) for c in conds)
        bad = None
        nm = 0
        if not unknown:
            for sc in G.sort_choices(dict((a, s) for a, s in atom_sorts.items())):
                inst = [T.instantiate_sorts(c, sc) for c in conds]
                consts = set()
                for c in inst:
                    T.constants_in(c, consts)
                for m in T.models(dict((a, sc.get(a, s)) for a, s in atom_sorts.items()), [], constants=consts):
                    nm += 1
                    if not all(T.truth(c, m) is True for c in inst):
                        continue
                    # a single character is a needle of length 1
                    p_, n_, s_ = m.get(pos_name, 0), (1 if needle_atom is None else m.get(needle_atom, 0)), m.get(hay_atom, 0)
                    if val == "npos" and feasible(family, p_, n_, s_):
                        bad = ("returns npos although a result is possible", m)
                        break
                    if val == "pos" and not (n_ == 0 and p_ <= s_) and family in ("find", "rfind"):
                        bad = ("returns pos although the needle is not empty or pos is past the end", m)
                        break
                    if val == "computed":
                        rv = T.evaluate(T.instantiate_sorts(rterm, sc), m)
                        if rv is not None and rv.v != T.NPOS and not (0 <= rv.v < s_ or (family == "find" and rv.v == s_ and n_ == 0)):
                            bad = ("returns the position %s although the view has %s character(s)" % (rv.v, s_), m)
                            break
                    if val == "pos" and family not in ("find", "rfind") and not p_ < s_:
                        # the character searches answer with the position of a character of the view
                        bad = ("returns pos although pos is not the position of a character of the view", m)
                        break
                if bad:
                    break
        label = "%s :: early `return %s` at line %s" % (construct, "npos" if val == "npos" else (pos_name if val == "pos" else astx.show(info.get("value"), 30)), info.get("line"))
        chk.obligation(rule, label, None if unknown else (bad is None), evaluations=max(1, nm))
        if unknown:
            chk.unknown_instance(rule, label, "the path condition contains an unmodelled term")
        elif bad:
            chk.violation(rule, label, "spurious-early-exit", "%s:%s: %s %s: %s (specification: a result exists iff %s)" % (
                "include/etl/" + f["file"], info.get("line"), f["n"], bad[0], T.show_model(bad[1]), FAMILIES[family]),
                {"where": astx.loc(f), "model": T.show_model(bad[1])})
    return n


# ---- RWINDOW: the part of the haystack a backward search looks at ------------------------------------------------------
M64 = 1 << 64


class _NM(Exception):
    pass


class _Ret(Exception):
    pass


def _ival(e, env, this_size, sizes):
    """value of an integer expression in a concrete model (64-bit unsigned wrap-around)"""
    e = astx.strip_casts(e)
    while e is not None and (e.get("k") == "paren" or (e.get("k") in ("construct", "initlist") and len(e.get("a", [])) == 1)):
        e = astx.strip_casts(e.get("e") if e.get("k") == "paren" else e["a"][0])
    if e is None:
        raise _NM("empty")
    iv = astx.int_value(e)
    if iv is not None:
        return iv % M64
    k = e.get("k")
    if k in ("ref", "mem") and e.get("n") == "npos":
        return M64 - 1
    if k == "ref":
        if e["n"] in env:
            return env[e["n"]]
        raise _NM("name " + e["n"])
    if k == "bool":
        return 1 if e["v"] else 0
    if k == "un" and e["op"] == "!":
        return 0 if _ival(e["e"], env, this_size, sizes) else 1
    if k == "un" and e["op"] in ("++", "--"):
        t = astx.strip_casts(e["e"])
        if t is None or t.get("k") != "ref" or t["n"] not in env:
            raise _NM("step of a non-local")
        old = env[t["n"]]
        env[t["n"]] = (old + (1 if e["op"] == "++" else -1)) % M64
        return old if e.get("postfix") else env[t["n"]]
    if k == "bin":
        op = e["op"]
        if op in ("=", "+=", "-="):
            t = astx.strip_casts(e["l"])
            if t is None or t.get("k") != "ref":
                raise _NM("assignment target")
            v = _ival(e["r"], env, this_size, sizes)
            if op != "=":
                cur = _ival(e["l"], env, this_size, sizes)
                v = (cur + v) % M64 if op == "+=" else (cur - v) % M64
            env[t["n"]] = v
            return v
        if op == "&&":
            return 1 if (_ival(e["l"], env, this_size, sizes) and _ival(e["r"], env, this_size, sizes)) else 0
        if op == "||":
            return 1 if (_ival(e["l"], env, this_size, sizes) or _ival(e["r"], env, this_size, sizes)) else 0
        a, b = _ival(e["l"], env, this_size, sizes), _ival(e["r"], env, this_size, sizes)
        if op in ("+", "-", "*"):
            return {"+": a + b, "-": a - b, "*": a * b}[op] % M64
        if op in ("<", "<=", ">", ">=", "==", "!="):
            return 1 if {"<": a < b, "<=": a <= b, ">": a > b, ">=": a >= b, "==": a == b, "!=": a != b}[op] else 0
        raise _NM("operator " + op)
    if k == "cond":
        return _ival(e["t"] if _ival(e["c"], env, this_size, sizes) else e["f"], env, this_size, sizes)
    if k == "call":
        nm, q, recv, kind = astx.callee(e)
        if nm in ("size", "length") and not e["a"]:
            r = astx.strip_casts(recv) if recv is not None else None
            if kind != "member" or r is None or astx.is_this(r):
                return this_size
            if r.get("k") == "ref" and r["n"] in sizes:
                return sizes[r["n"]]
            raise _NM("size of " + astx.show(r, 20))
        if nm == "empty" and not e["a"]:
            r = astx.strip_casts(recv) if recv is not None else None
            if kind != "member" or r is None or astx.is_this(r):
                return 1 if this_size == 0 else 0
            if r.get("k") == "ref" and r["n"] in sizes:
                return 1 if sizes[r["n"]] == 0 else 0
        if nm in ("min", "max") and len(e["a"]) == 2:
            a, b = _ival(e["a"][0], env, this_size, sizes), _ival(e["a"][1], env, this_size, sizes)
            return min(a, b) if nm == "min" else max(a, b)
        if nm == "clamp" and len(e["a"]) == 3:
            v, lo, hi = (_ival(x, env, this_size, sizes) for x in e["a"])
            return lo if v < lo else (hi if hi < v else v)
        if nm == "data" and not e["a"]:
            return 0        # positions are measured from data()
    raise _NM(astx.show(e, 30))


def _run_until(stmts, env, this_size, sizes, is_site):
    """execute statements until the first one for which is_site(stmt) holds; returns that statement (or None)"""
    for st in stmts:
        if st is None:
            continue
        if is_site(st):
            return st
        k = st.get("k")
        if k == "seq":
            r = _run_until(st["s"], env, this_size, sizes, is_site)
            if r is not None:
                return r
        elif k == "decl":
            for v in st["vars"]:
                if "other" not in v and v.get("init") is not None:
                    env[v["n"]] = _ival(v["init"], env, this_size, sizes)
        elif k == "expr":
            _ival(st["e"], env, this_size, sizes)
        elif k == "if":
            br = st.get("then") if _ival(st["c"], env, this_size, sizes) else st.get("else")
            if br is not None:
                r = _run_until([br], env, this_size, sizes, is_site)
                if r is not None:
                    return r
        elif k == "return":
            raise _Ret()
        elif k == "null":
            continue
        else:
            raise _NM("statement " + str(k))
    return None


def check_rwindow(chk, db, rule="RWINDOW"):
    """rfind(needle, pos) looks at the haystack prefix [0, min(pos, size - n) + n) where n is the needle's length ([string.
    view.find]: the highest xpos <= pos with xpos + n <= size). The member's straight-line prologue is executed in every
    model (pos, n, size) with small values and npos; at the point where the backward scan or the delegated find_end starts,
    the end of the window it is given must be that bound. Models in which no position can match (n > size) are not judged."""
    n_inst = 0
    for f in db.by_q.get("etl::basic_string_view::rfind", []):
        if f.get("body") is None or len(f["params"]) != 2:
            continue
        p0, p1 = f["params"]
        needle_is_view = "string_view" in p0["ty"]
        if not needle_is_view and "Char" not in p0["ty"]:
            continue
        body = f["body"]
        stmts = body.get("s") or []
        # does the prologue do anything but delegate?
        if len(stmts) == 1 and stmts[0].get("k") == "return":
            continue

        def is_site(st):
            if st.get("k") in ("for", "while", "do"):
                return True
            for e in astx.stmt_exprs(st):
                for x in astx.walk_expr(e, into_lambdas=False):
                    if x.get("k") == "call" and astx.callee(x)[0] in ("find_end", "search", "find_if", "find"):
                        return True
            return False
        n_inst += 1
        construct = astx.sig(f)
        chk.instance(rule)
        bad = unknown = None
        judged = 0
        for S in range(0, 4):
            for N in (range(0, 5) if needle_is_view else (1,)):
                for P in (0, 1, 2, 3, 4, M64 - 1):
                    if N > S:
                        continue
                    env = {p1["n"]: P}
                    sizes = {p0["n"]: N} if needle_is_view else {}
                    try:
                        site = _run_until(stmts, env, S, sizes, is_site)
                    except _Ret:
                        continue        # early exit: judged by EXIT
                    except _NM as ex:
                        unknown = str(ex)
                        break
                    if site is None:
                        unknown = "no scan or delegated search found"
                        break
                    # the window end: `data() + X` in the call, or the initial value of the loop's cursor
                    end_expr = None
                    for e in astx.stmt_exprs(site) if site.get("k") not in ("for", "while", "do") else []:
                        for x in astx.walk_expr(e, into_lambdas=False):
                            if x.get("k") == "call" and astx.callee(x)[0] in ("find_end", "search", "find_if", "find") and len(x["a"]) >= 2:
                                end_expr = x["a"][1]
                    if site.get("k") == "for" and site.get("init") is not None and site["init"].get("k") == "decl":
                        for v in site["init"]["vars"]:
                            if v.get("init") is not None:
                                end_expr = v["init"]
                    if end_expr is None:
                        unknown = "the window end handed to the scan is not recognised"
                        break
                    try:
                        got = _ival(end_expr, env, S, sizes)
                    except _NM as ex:
                        unknown = str(ex)
                        break
                    judged += 1
                    want = min(P, S - N) + N
                    if got != want and bad is None:
                        bad = (P, N, S, got, want)
                if unknown:
                    break
            if unknown:
                break
        if unknown:
            chk.obligation(rule, construct, None)
            chk.unknown_instance(rule, construct, "not evaluated: %s" % unknown)
            continue
        chk.obligation(rule, construct, bad is None, evaluations=judged)
        if bad:
            P, N, S, got, want = bad
            chk.violation(rule, construct, "search-window", "%s: with pos = %s, needle length %d and size() = %d the backward search is given the prefix "
                          "[0, %d); matches may start at positions <= min(pos, size - n), so the prefix to look at is [0, %d)" % (
                              astx.loc(f), "npos" if P == M64 - 1 else P, N, S, got, want), {"where": astx.loc(f)})
    return n_inst


# ---- FWINDOW: a forward pointer scan of the view ends at data() + size() -------------------------------------------------
def check_fwindow(chk, db, rule="FWINDOW"):
    """The forward searches (find, find_first_of, find_first_not_of) that scan with a pointer `for (s = data() + pos; s != last;
    ++s)` look at every character up to the end of the view: the end pointer is `data() + size()` as a linear form (const
    locals substituted). `data() + size() - 1` never looks at the last character."""
    n = 0
    for nm in ("find", "find_first_of", "find_first_not_of"):
        for f in db.by_q.get("etl::basic_string_view::" + nm, []):
            if f.get("body") is None:
                continue
            inits = {}
            for st in astx.walk_stmts(f["body"]):
                if st.get("k") == "decl":
                    for v in st["vars"]:
                        if "other" not in v and v.get("init") is not None:
                            inits[v["n"]] = v["init"]

            start_only = [False]

            def lin(e, depth=0):
                """(data coefficient, size coefficient, constant) or None"""
                e = astx.strip_casts(e)
                while e is not None and e.get("k") == "paren":
                    e = astx.strip_casts(e.get("e"))
                if e is None or depth > 5:
                    return None
                iv = astx.int_value(e)
                if iv is not None:
                    return (0, 0, iv)
                if e.get("k") == "ref" and e.get("d") == "local" and e["n"] in inits:
                    return lin(inits[e["n"]], depth + 1)
                if e.get("k") == "ref" and e.get("d") == "param" and start_only[0]:
                    return (0, 0, 0)        # the start offset (pos) is irrelevant for recognising a pointer into the view
                if e.get("k") == "call" and not e["a"] and astx.callee(e)[0] in ("data", "begin", "cbegin"):
                    return (1, 0, 0)
                if e.get("k") == "call" and not e["a"] and astx.callee(e)[0] in ("end", "cend"):
                    return (1, 1, 0)
                if e.get("k") == "call" and not e["a"] and astx.callee(e)[0] in ("size", "length"):
                    return (0, 1, 0)
                if e.get("k") == "mem" and astx.is_this(e.get("b")) and e.get("n") == "_begin":
                    return (1, 0, 0)
                if e.get("k") == "bin" and e["op"] in ("+", "-"):
                    a, b = lin(e["l"], depth + 1), lin(e["r"], depth + 1)
                    if a is None or b is None:
                        return None
                    sg = 1 if e["op"] == "+" else -1
                    return (a[0] + sg * b[0], a[1] + sg * b[1], a[2] + sg * b[2])
                return None
            for lp in [st for st in astx.walk_stmts(f["body"]) if st.get("k") in ("for", "while") and st.get("c") is not None]:
                c = astx.strip_casts(lp["c"])
                if c is None or c.get("k") != "bin" or c["op"] not in ("!=", "<"):
                    continue
                # the cursor is a pointer local stepped upwards
                cur = None
                if lp.get("inc") is not None:
                    for x in astx.walk_expr(lp["inc"]):
                        if x.get("k") == "un" and x["op"] == "++":
                            t = astx.strip_casts(x["e"])
                            if t is not None and t.get("k") == "ref":
                                cur = t["n"]
                l0, r0 = astx.strip_casts(c["l"]), astx.strip_casts(c["r"])
                if cur is None or l0 is None or l0.get("k") != "ref" or l0.get("n") != cur:
                    continue
                start = None
                if lp.get("init") is not None and lp["init"].get("k") == "decl":
                    for v in lp["init"]["vars"]:
                        if v["n"] == cur and v.get("init") is not None:
                            start_only[0] = True
                            start = lin(v["init"])
                            start_only[0] = False
                if start is None or start[0] != 1:
                    continue            # not a pointer into the view
                n += 1
                label = "%s :: scan with `%s` at line %s" % (astx.sig(f), cur, lp.get("line"))
                chk.instance(rule)
                end = lin(r0)
                verdict = None if end is None else end == (1, 1, 0)
                chk.obligation(rule, label, verdict)
                if verdict is False:
                    chk.violation(rule, label, "scan-end", "%s: the scan stops at `%s` = data() %+d*size() %+d; the last character of the view is at "
                                  "data() + size() - 1, so the end is data() + size()" % (astx.loc(f, lp), astx.show(r0, 30), end[1], end[2]),
                                  {"where": astx.loc(f)})
                elif verdict is None:
                    chk.unknown_instance(rule, label, "the end of the scan is not a linear form of data() and size()")
    return n


# ---- FIRSTREAD: the first character a positional search looks at -----------------------------------------------------------
class _Read(Exception):
    def __init__(self, index, node):
        Exception.__init__(self, "read")
        self.index = index
        self.node = node


def _first_read(f, env, S, sizes, max_steps=400):
    """Execute the member concretely (positions measured from data() = 0, 64-bit wrap-around) up to the first statement that
    reads a character of the view itself: unsafe_at(i) / at(i) / (*this)[i] / data()[i] / *p / p[i] for a pointer p formed from
    data(). Lambdas are not executed; a statement that mentions a lambda containing such a read counts as performing it.
    returns the index read, or None when the member returns without reading; raises _NM when it leaves the fragment"""
    lambdas = {}
    steps = [0]

    def candidates(e):
        """index expressions of view reads syntactically inside e (execution order approximated by pre-order)"""
        out = []
        for x in astx.walk_expr(e, into_lambdas=True):
            k = x.get("k")
            if k == "ref" and x.get("n") in lambdas:
                out += candidates(lambdas[x["n"]])
            if k == "lambda" and x is not e:
                continue
            if k == "call":
                nm, q, recv, kind = astx.callee(x)
                r = astx.strip_casts(recv) if recv is not None else None
                if nm in ("unsafe_at", "at", "operator[]") and len(x["a"]) == 1 and (r is None or astx.is_this(r)):
                    out.append(x["a"][0])
            if k == "idx":
                b = astx.strip_casts(x["b"])
                if b is not None and b.get("k") == "un" and b.get("op") == "*" and astx.is_this(astx.strip_casts(b["e"])):
                    out.append(x["i"])
                else:
                    out.append({"k": "bin", "op": "+", "l": x["b"], "r": x["i"]})
            if k == "un" and x.get("op") == "*" and not x.get("postfix"):
                t = astx.strip_casts(x["e"])
                if t is not None and not astx.is_this(t):
                    out.append(x["e"])
        return out

    def lam_body_exprs(lam):
        return lam

    def probe(e):
        for idx in candidates(e):
            try:
                v = _ival(idx, dict(env), S, sizes)       # on a copy: only the chosen read's side effects count
            except _NM:
                continue
            v = _ival(idx, env, S, sizes)
            raise _Read(v, idx)

    def run(stmts):
        for st in stmts:
            steps[0] += 1
            if steps[0] > max_steps:
                raise _NM("step limit")
            if st is None:
                continue
            k = st.get("k")
            if k == "seq":
                run(st["s"])
            elif k == "decl":
                for v in st["vars"]:
                    if "other" in v or v.get("init") is None:
                        continue
                    i0 = astx.strip_casts(v["init"])
                    if i0 is not None and i0.get("k") == "lambda":
                        lambdas[v["n"]] = i0
                        continue
                    probe(v["init"])
                    env[v["n"]] = _ival(v["init"], env, S, sizes)
            elif k == "expr":
                probe(st["e"])
                _ival(st["e"], env, S, sizes)
            elif k == "if":
                probe(st["c"])
                br = st.get("then") if _ival(st["c"], env, S, sizes) else st.get("else")
                if br is not None:
                    run([br])
            elif k == "return":
                if st.get("e") is not None:
                    probe(st["e"])
                raise _Ret()
            elif k == "null":
                continue
            elif k in ("for", "while", "do"):
                if k == "for" and st.get("init") is not None:
                    run([st["init"]])
                first = True
                while True:
                    steps[0] += 1
                    if steps[0] > max_steps:
                        raise _NM("step limit")
                    if not (k == "do" and first) and st.get("c") is not None:
                        probe(st["c"])
                        if not _ival(st["c"], env, S, sizes):
                            break
                    first = False
                    try:
                        run([st.get("body")])
                    except _Brk:
                        break
                    except _Cont:
                        pass
                    if k == "for" and st.get("inc") is not None:
                        probe(st["inc"])
                        _ival(st["inc"], env, S, sizes)
            elif k == "rangefor":
                # a loop over the (non-empty) needle: its first pass decides which character of the view is read first
                run([st.get("body")])
                raise _NM("range-for without a read of the view")
            elif k == "break":
                raise _Brk()
            elif k == "continue":
                raise _Cont()
            else:
                raise _NM("statement " + str(k))
    try:
        run(f["body"].get("s") or [])
    except _Read as r:
        return r.index
    except _Ret:
        return None
    return None


class _Brk(Exception):
    pass


class _Cont(Exception):
    pass


FIRSTREAD_TARGETS = {"rfind": "last", "find_last_of": "last", "find_last_not_of": "last",
                     "find": "first", "find_first_of": "first", "find_first_not_of": "first"}


def check_first_read(chk, db, record="etl::basic_string_view", rule="FIRSTREAD"):
    """[string.view.find]: a backward search looks at position min(pos, size() - 1) first (single characters; rfind of a
    character, find_last_of, find_last_not_of), a forward search at pos when pos < size() and at nothing otherwise. Every
    overload that scans by itself is executed in the models size() in 0..3, pos in 0..4 and npos, needle length 1..2 (an empty
    view is never read)."""
    n = 0
    for nm, direction in sorted(FIRSTREAD_TARGETS.items()):
        for f in db.by_q.get(record + "::" + nm, []):
            if f.get("body") is None or len(f["params"]) != 2:
                continue
            stmts = f["body"].get("s") or []
            if len(stmts) == 1 and stmts[0].get("k") == "return":
                continue        # delegation
            p0, p1 = f["params"]
            needle_is_view = "string_view" in p0["ty"]
            if nm in ("rfind", "find") and needle_is_view:
                continue        # windows of substring searches: RWINDOW / BOUND
            if not needle_is_view and "Char" not in p0["ty"].replace("const", "").strip().split(" ")[0] and p0["ty"].strip() not in ("Char", "const Char"):
                continue
            n += 1
            construct = astx.sig(f)
            chk.instance(rule)
            bad = unknown = None
            judged = 0
            for S in (0, 1, 2, 3):
                for N in ((1, 2) if needle_is_view else (1,)):
                    for P in (0, 1, 2, 3, 4, M64 - 1):
                        env = {p1["n"]: P}
                        if not needle_is_view:
                            env[p0["n"]] = 97
                        sizes = {p0["n"]: N} if needle_is_view else {}
                        try:
                            got = _first_read(f, env, S, sizes)
                        except _NM as ex:
                            unknown = str(ex)
                            break
                        judged += 1
                        want = (min(P, S - 1) if S > 0 else None) if direction == "last" else (P if P < S else None)
                        if got != want and bad is None:
                            bad = (P, N, S, got, want)
                    if unknown:
                        break
                if unknown:
                    break
            if unknown:
                chk.obligation(rule, construct, None)
                chk.unknown_instance(rule, construct, "not evaluated: %s" % unknown)
                continue
            chk.obligation(rule, construct, bad is None, evaluations=judged)
            if bad:
                P, N, S, got, want = bad
                sh = lambda v: "no character" if v is None else ("npos" if v == M64 - 1 else "position %d" % v)      # noqa: E731
                chk.violation(rule, construct, "first-position", "%s: with pos = %s and size() = %d the search first looks at %s; "
                              "[string.view.find] makes %s the first candidate" % (
                                  astx.loc(f), "npos" if P == M64 - 1 else P, S, sh(got), sh(want)), {"where": astx.loc(f)})
    return n


# ---- WRAP: a position argument that may be npos is not incremented before it has been bounded ---------------------------------
POINTERISH = ("data", "begin", "cbegin", "end", "cend", "c_str")


def check_pos_wrap(chk, f, rule="WRAP"):
    """Search members accept any position, including npos = size_type(-1). `pos + k`, `++pos`, `pos += k` on the raw parameter
    wraps around to a small number when pos is npos (or close to it). On every path the first arithmetic on such a parameter
    is preceded by a bound (`pos < x` / `pos <= x` true, `pos >= x` / `pos > x` false, `pos != npos`) or by re-assigning it
    from min / clamp. returns None (no position parameter that is added to) | list of (param, node)"""
    if f.get("body") is None:
        return None
    params = [p["n"] for p in f["params"] if p.get("n") in ("pos", "position", "index", "idx") and
              re.search(r"size_type|size_t|unsigned", p.get("ty", ""))]
    if not params:
        return None

    def is_ptr(e):
        e = astx.strip_casts(e)
        if e is None:
            return False
        if e.get("k") == "call" and astx.callee(e)[0] in POINTERISH:
            return True
        if e.get("k") == "ref" and ("*" in (e.get("ty") or "") or "iterator" in (e.get("ty") or "") or "pointer" in (e.get("ty") or "")):
            return True
        if e.get("k") == "mem" and e.get("n", "").startswith("_") and e.get("dk") == "field" and "begin" in e.get("n", ""):
            return True
        if e.get("k") == "bin" and e["op"] in ("+", "-"):
            return is_ptr(e["l"]) or is_ptr(e["r"])
        return False

    def arith_on(x):
        """parameter name if node x adds to a raw position parameter"""
        if x.get("k") == "bin" and x["op"] == "+":
            for a, b in ((x["l"], x["r"]), (x["r"], x["l"])):
                a0 = astx.strip_casts(a)
                if a0 is not None and a0.get("k") == "ref" and a0.get("d") == "param" and a0["n"] in params and not is_ptr(b):
                    return a0["n"]
        if x.get("k") == "bin" and x["op"] == "+=":
            a0 = astx.strip_casts(x["l"])
            if a0 is not None and a0.get("k") == "ref" and a0.get("d") == "param" and a0["n"] in params:
                return a0["n"]
        if x.get("k") == "un" and x["op"] == "++":
            a0 = astx.strip_casts(x["e"])
            if a0 is not None and a0.get("k") == "ref" and a0.get("d") == "param" and a0["n"] in params:
                return a0["n"]
        return None
    if not any(arith_on(x) for x in astx.all_exprs(f, into_lambdas=False)):
        return None
    from .arith import atoms as _atoms, FLIP as _FLIP
    bad = []
    for p in SP.paths(f["body"]):
        bounded = set()

        def facts_of(c, taken):
            """position parameters bounded when condition c evaluates to `taken`"""
            out = set()
            for op, l, r in _atoms(c, taken):
                for a, b, o in ((l, r, op), (r, l, _FLIP[op])):
                    a0 = astx.strip_casts(a)
                    if a0 is not None and a0.get("k") == "ref" and a0.get("n") in params:
                        btxt = astx.show(astx.strip_casts(b), 40)
                        if o in ("<", "<=") or (o == "!=" and "npos" in btxt) or (o == "==" and "npos" not in btxt):
                            out.add(a0["n"])
            return out

        def effects(e, local=frozenset()):
            """walk e in evaluation order; `local` holds parameters bounded by an enclosing ?: / && / || of the same expression"""
            if e is None or not isinstance(e, dict) or e.get("k") == "lambda":
                return
            k = e.get("k")
            if k == "cond":
                effects(e["c"], local)
                effects(e["t"], local | facts_of(e["c"], True))
                effects(e["f"], local | facts_of(e["c"], False))
                return
            if k == "bin" and e["op"] in ("&&", "||"):
                effects(e["l"], local)
                effects(e["r"], local | facts_of(e["l"], e["op"] == "&&"))
                return
            n = arith_on(e)
            if n and n not in bounded and n not in local and not any(b[1] is e for b in bad):
                bad.append((n, e))
            if k == "bin" and e["op"] == "=":
                a0 = astx.strip_casts(e["l"])
                if a0 is not None and a0.get("k") == "ref" and a0.get("n") in params:
                    effects(e["r"], local)
                    r0 = astx.strip_casts(e["r"])
                    if r0 is not None and r0.get("k") == "call" and astx.callee(r0)[0] in ("min", "clamp"):
                        bounded.add(a0["n"])
                    elif r0 is not None and not any(y.get("k") == "ref" and y.get("n") == a0["n"] for y in astx.walk_expr(r0)):
                        bounded.add(a0["n"])      # replaced by a value that does not depend on the raw argument
                    return
            for c in astx.children(e):
                effects(c, local)
        for ev in p:
            if ev[0] in ("cond", "backedge-cond"):
                effects(ev[1])
                if ev[0] == "cond":
                    for op, l, r in _atoms(ev[1], ev[2]):
                        for a, b, o in ((l, r, op), (r, l, _FLIP[op])):
                            a0 = astx.strip_casts(a)
                            if a0 is not None and a0.get("k") == "ref" and a0.get("n") in params:
                                btxt = astx.show(astx.strip_casts(b), 40)
                                if o in ("<", "<=") or (o == "!=" and "npos" in btxt) or (o == "==" and "npos" not in btxt):
                                    bounded.add(a0["n"])
            elif ev[0] == "decl" and ev[1].get("init") is not None:
                effects(ev[1]["init"])
            elif ev[0] in ("expr", "ret") and ev[1] is not None:
                effects(ev[1])
    return bad


def pos_wrap_area(chk, db, prefixes, rule="WRAP"):
    n = 0
    for f in db.funcs:
        if f.get("body") is None or not any(f["file"].startswith(p) for p in prefixes):
            continue
        r = check_pos_wrap(chk, f, rule)
        if r is None:
            continue
        n += 1
        construct = astx.sig(f)
        chk.instance(rule)
        chk.obligation(rule, construct, not r)
        for pn, node in r[:2]:
            chk.violation(rule, construct, "position-wraps",
                          "%s: `%s` adds to the position argument `%s` on a path on which it has not been bounded: for %s == npos "
                          "(a valid argument of every search) the sum wraps around to a small position"
                          % (astx.loc(f, node), astx.show(node, 50), pn, pn), {"where": astx.loc(f)})
    return n
