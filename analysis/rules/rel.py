"""Rule family REL (DESIGN.md 4.5): relational operators evaluated over their finite ordering domain.

A relational operator observes its operands only through comparisons of sub-objects, so its behaviour is a function of
a finite "world": the ordering of every compared subject (path) plus, for optional-like types, the engaged flags, and
for sequences the pair (lexicographic order, size order). The operator's body is evaluated in every world and compared
with the std-mandated table of its family. Anything outside the modelled expression language -> UNKNOWN (not modelled).
"""
import itertools

from .. import astx

OPS = ("==", "!=", "<", "<=", ">", ">=")
TABLE = {"==": "=", "!=": "<>", "<": "<", "<=": "<=", ">": ">", ">=": ">="}
INV = {"<": ">", "=": "=", ">": "<", "u": "u"}
# families whose operators are specified element-wise (`*lhs op *rhs`, `get<i>(v) op get<i>(w)`): the element type need not be
# totally ordered (float NaN, sets under inclusion), so a fourth outcome 'u' (unordered: only != holds) is part of the domain
PARTIAL_FAMILIES = ("optional", "optional-value", "variant")
FUNCTOR_OP = {"equal_to": "==", "not_equal_to": "!=", "less": "<", "less_equal": "<=", "greater": ">", "greater_equal": ">="}


def op_on(op, o):
    """truth of `a op b` given ord(a,b) = o in '<','=','>' or 'u' (unordered: every operator but != is false)"""
    if o == "u":
        return op == "!="
    return o in TABLE[op]


class NotModelled(Exception):
    pass


class World:
    def __init__(self, ords, eng, lex=None, size=None):
        self.ords = ords        # path -> '<' '=' '>'
        self.eng = eng          # 'L'/'R' -> bool
        self.lex = lex
        self.size = size

    def swapped(self):
        eng = dict((k, v) for k, v in self.eng.items() if k not in ("L", "R"))
        eng.update({"L": self.eng.get("R"), "R": self.eng.get("L")})
        return World(dict((p, INV[o]) for p, o in self.ords.items()), eng,
                     INV[self.lex] if self.lex else None, INV[self.size] if self.size else None)

    def show(self):
        parts = []
        for p, o in sorted(self.ords.items()):
            parts.append("lhs%s %s rhs%s" % (p, o, p))
        if self.lex:
            parts.append("lexicographic %s, size %s" % (self.lex, self.size))
        for s in ("L", "R"):
            if self.eng.get(s) is not None:
                parts.append("%s %s" % ("lhs" if s == "L" else "rhs", "engaged" if self.eng[s] else "disengaged"))
        if self.eng.get("same-type") is not None and self.ords.get(".index()", "=") != "=":
            parts.append("the two alternatives have %s type" % ("the same" if self.eng["same-type"] else "a different"))
        return ", ".join(parts)


class Probe:
    """first pass: discover which subjects/flags a body observes."""

    def __init__(self):
        self.paths = set()
        self.eng = set()
        self.seq = False
        self.pack = False


class Evaluator:
    def __init__(self, func, siblings, world, probe=None, depth=0, swapped=False):
        self.func = func
        self.siblings = siblings      # op -> function record (same operand types)
        self.world = world
        self.probe = probe
        self.depth = depth
        self.sides = {}
        ps = func["params"]
        if func.get("kind") == "method" and len(ps) == 1:
            self.sides["<this>"] = "L"
            self.sides[ps[0]["n"]] = "R"
            self.member = True
        else:
            if len(ps) != 2:
                raise NotModelled("operator with %d parameters" % len(ps))
            self.sides[ps[0]["n"]] = "L"
            self.sides[ps[1]["n"]] = "R"
            self.member = False
        self.param_ty = dict((p["n"], p["ty"]) for p in ps)

    # ---- values: ('bool', b) ('sign', s) ('opnd', side) ('subj', side, path) ('iter', side, 'begin'|'end') ('int', n)
    def ev(self, e):
        k = e.get("k")
        if k == "bool":
            return ("bool", e["v"])
        if k == "int":
            return ("int", int(e["v"]))
        if k == "ref":
            n = e["n"]
            if n in self.sides:
                return ("opnd", self.sides[n])
            if n in getattr(self, "visit_bind", {}):
                return self.visit_bind[n]
            if n in getattr(self, "locals", {}):
                return self.ev(self.locals[n])          # a const local stands for its initialiser
            if e.get("q", "").endswith("strong_ordering::equal") or n == "equal":
                return ("ordering", "=")
            raise NotModelled("reference to " + n)
        if k == "this":
            return ("opnd", "L")
        if k == "mem":
            b = e.get("b")
            if e.get("dk") == "method":
                raise NotModelled("bound member function")
            if astx.is_this(b):
                if self.member:
                    return ("subj", "L", "." + e["n"])
                raise NotModelled("implicit this in a free operator")
            v = self.ev(b)
            if v[0] == "opnd":
                return ("subj", v[1], "." + e["n"])
            if v[0] == "subj":
                return ("subj", v[1], v[2] + "." + e["n"])
            raise NotModelled("member of " + v[0])
        if k == "un":
            op = e["op"]
            if op == "!":
                v = self.ev(e["e"])
                return ("bool", not self.truth(v))
            if op == "*":
                v = self.ev(e["e"])
                if v[0] == "opnd":
                    if v[1] == "L" and astx.strip_casts(e["e"]).get("k") == "this":
                        return ("opnd", "L")
                    return ("subj", v[1], ".operator*()")
                raise NotModelled("deref of " + v[0])
            raise NotModelled("unary " + op)
        if k == "cast":
            v = self.ev(e["e"])
            ty = e["ty"]
            if ty == "bool":
                return ("bool", self.truth(v))
            if v[0] == "opnd":
                # conversion of the whole operand to a scalar / common type: the converted value is the subject
                if any(x in ty for x in ("unsigned", "int", "long", "short", "char", "double", "float", "size_t")):
                    return ("subj", v[1], "")
                return v
            return v
        if k == "construct":
            if len(e["a"]) == 1:
                v = self.ev(e["a"][0])
                return v
            raise NotModelled("construction with %d arguments" % len(e["a"]))
        if k == "cond":
            c = self.truth(self.ev(e["c"]))
            return self.ev(e["t"] if c else e["f"])
        if k == "bin":
            op = e["op"]
            if op in ("&&", "||"):
                a = self.truth(self.ev(e["l"]))
                if op == "&&":
                    return ("bool", a and self.truth(self.ev(e["r"])))
                return ("bool", a or self.truth(self.ev(e["r"])))
            if op in OPS:
                return ("bool", self.compare(op, self.ev(e["l"]), self.ev(e["r"])))
            raise NotModelled("binary " + op)
        if k == "sizeofpack":
            if self.probe is not None:
                self.probe.pack = True
                return ("int", 1)
            return ("int", 0 if self.world.eng.get("empty-pack") else 1)
        if k == "fold":
            pat = e.get("l") or e.get("r")
            v = self.ev(pat)
            return v
        if k == "pack":
            return self.ev(e["e"])
        if k == "call":
            return self.call(e)
        if k == "lambda":
            raise NotModelled("lambda")
        raise NotModelled("expression " + str(k))

    def truth(self, v):
        if v[0] == "bool":
            return v[1]
        if v[0] == "opnd":
            # contextual conversion to bool of an optional-like operand
            return self.engaged(v[1])
        raise NotModelled("truth value of " + v[0])

    def engaged(self, side):
        if self.probe is not None:
            self.probe.eng.add(side)
        val = self.world.eng.get(side)
        if val is None:
            if self.probe is not None:
                return True
            raise NotModelled("engaged flag not in the world")
        return val

    def ord_of(self, path):
        if self.probe is not None:
            self.probe.paths.add(path)
            return "="
        if path not in self.world.ords:
            raise NotModelled("subject %s not in the world" % path)
        return self.world.ords[path]

    def lex(self):
        if self.probe is not None:
            self.probe.seq = True
            return "="
        if self.world.lex is None:
            raise NotModelled("sequence comparison outside a sequence family")
        return self.world.lex

    def compare(self, op, a, b):
        if a[0] == "subj" and b[0] == "subj" and a[1] != b[1] and a[2] == b[2]:
            if a[2] == ".size()":
                o = self.size_ord()
            else:
                o = self.ord_of(a[2])
            if a[1] == "R":
                o = INV[o]
            return op_on(op, o)
        if a[0] == "opnd" and b[0] == "opnd" and a[1] != b[1]:
            return self.sibling(op, a[1] == "R")
        if a[0] == "sign" and b[0] == "int" and b[1] == 0:
            return op_on(op, "<" if a[1] < 0 else ("=" if a[1] == 0 else ">"))
        if a[0] == "int" and b[0] == "sign" and a[1] == 0:
            return op_on(op, ">" if b[1] < 0 else ("=" if b[1] == 0 else "<"))
        if a[0] == "bool" and b[0] == "bool" and op in ("==", "!="):
            return (a[1] == b[1]) == (op == "==")
        if a[0] == "int" and b[0] == "int":
            return op_on(op, "<" if a[1] < b[1] else ("=" if a[1] == b[1] else ">"))
        # optional vs value: *opt OP value
        if a[0] == "subj" and b[0] == "opnd" and a[1] != b[1] and a[2] == ".operator*()":
            o = self.ord_of(".operator*()")
            return op_on(op, o if a[1] == "L" else INV[o])
        if a[0] == "opnd" and b[0] == "subj" and a[1] != b[1] and b[2] == ".operator*()":
            o = self.ord_of(".operator*()")
            return op_on(op, o if a[1] == "L" else INV[o])
        # complex vs scalar: lhs.real() == rhs
        if a[0] == "subj" and b[0] == "opnd" and a[1] != b[1]:
            o = self.ord_of(a[2])
            return op_on(op, o if a[1] == "L" else INV[o])
        if a[0] == "subj" and b[0] in ("int", "other") and op in ("==", "!="):
            o = self.ord_of(a[2] + "~const")
            return op_on(op, o)
        raise NotModelled("comparison of %s with %s" % (a[0], b[0]))

    def size_ord(self):
        if self.probe is not None:
            self.probe.seq = True
            self.probe.paths.discard(".size()")
            return "="
        if self.world.size is None:
            return self.ord_of(".size()")
        return self.world.size

    def sibling(self, op, swapped):
        if self.depth > 4:
            raise NotModelled("delegation depth")
        f = self.siblings.get(op)
        if f is None and op == "!=":
            f = self.siblings.get("==")
            if f is None:
                raise NotModelled("no sibling ==")
            w = self.world.swapped() if swapped else self.world
            return not run(f, self.siblings, w, self.probe, self.depth + 1)
        if f is None:
            raise NotModelled("no sibling operator" + op)
        w = self.world.swapped() if swapped else self.world
        return run(f, self.siblings, w, self.probe, self.depth + 1)

    def call(self, e):
        if e["f"].get("k") == "lambda":
            body = e["f"]["body"]
            sub = Evaluator(self.func, self.siblings, self.world, self.probe, self.depth)
            r = sub.run_stmt(body)
            if r is None:
                raise NotModelled("lambda falls off the end")
            return r
        n, q, recv, kind = astx.callee(e)
        args = e["a"]
        if kind == "member":
            v = self.ev(recv) if recv is not None and not astx.is_this(recv) else ("opnd", "L")
            if n in ("begin", "cbegin", "end", "cend") and not args and v[0] == "opnd":
                return ("iter", v[1], "begin" if "begin" in n else "end")
            if n == "compare" and len(args) == 1:
                w = self.ev(args[0])
                if v[0] == "opnd" and w[0] == "opnd" and v[1] != w[1]:
                    o = self.lex_or_total()
                    if v[1] == "R":
                        o = INV[o]
                    return ("sign", -1 if o == "<" else (0 if o == "=" else 1))
                raise NotModelled("compare() of " + v[0] + " with " + w[0])
            if n == "has_value" and not args and v[0] == "opnd":
                return ("bool", self.engaged(v[1]))
            if n.startswith("operator ") and not args and v[0] == "opnd":
                if n == "operator bool":
                    return ("bool", self.engaged(v[1]))
                return ("subj", v[1], "")
            if not args:
                if v[0] == "opnd":
                    return ("subj", v[1], "." + n + "()")
                if v[0] == "subj":
                    return ("subj", v[1], v[2] + "." + n + "()")
            if len(args) == 1 and n in ("extent",):
                if v[0] == "opnd":
                    return ("subj", v[1], "." + n + "(i)")
            raise NotModelled("member call " + n)
        # free functions
        if n in ("begin", "cbegin", "end", "cend") and len(args) == 1:
            v = self.ev(args[0])
            if v[0] == "opnd":
                return ("iter", v[1], "begin" if "begin" in n else "end")
        if n in ("size",) and len(args) == 1:
            v = self.ev(args[0])
            if v[0] == "opnd":
                return ("subj", v[1], ".size()")
        if n == "get" and len(args) == 1:
            v = self.ev(args[0])
            if v[0] == "opnd":
                return ("subj", v[1], ".get<I>")
        if n in ("equal", "lexicographical_compare"):
            its = [self.ev(a) for a in args[:4] if a.get("k") not in ("construct",)]
            its = [v for v in its if v[0] == "iter"]
            if len(its) >= 3 and its[0][2] == "begin" and its[1][2] == "end" and its[0][1] == its[1][1] and its[2][1] != its[0][1]:
                first = its[0][1]
                o = self.lex()
                if first == "R":
                    o = INV[o]
                if n == "equal":
                    if len(its) == 3:
                        # three-iterator form: only meaningful when the sizes are equal (std precondition)
                        so = self.size_ord()
                        if so != "=" and self.probe is None:
                            raise NotModelled("3-iterator equal with different sizes (precondition of std::equal)")
                    return ("bool", o == "=")
                return ("bool", o == "<")
            raise NotModelled(n + " with unrecognised ranges")
        if n == "visit" and len(args) == 3 and astx.strip_casts(args[0]) is not None and astx.strip_casts(args[0]).get("k") == "lambda" \
                and len(astx.strip_casts(args[0]).get("params", [])) == 2:
            lam = astx.strip_casts(args[0])
            a, b = self.ev(args[1]), self.ev(args[2])
            if a[0] == "opnd" and b[0] == "opnd" and a[1] != b[1]:
                sub = Evaluator(self.func, self.siblings, self.world, self.probe, self.depth)
                sub.visit_bind = {lam["params"][0]["n"]: ("subj", a[1], ".value"), lam["params"][1]["n"]: ("subj", b[1], ".value")}
                r = sub.run_stmt(lam["body"])
                if r is None:
                    raise NotModelled("visitor lambda falls off the end")
                return r
            raise NotModelled("visit of something else than the two operands")
        if n == "visit" and len(args) == 3:
            fn = args[0]
            opn = None
            for x in astx.walk_expr(fn):
                if x.get("k") in ("construct", "cast") and any(k in x.get("ty", "") for k in FUNCTOR_OP):
                    for name in sorted(FUNCTOR_OP, key=len, reverse=True):
                        if name in x["ty"].replace("etl::", ""):
                            opn = FUNCTOR_OP[name]
                            break
                if x.get("k") == "call" and astx.callee(x)[0] in FUNCTOR_OP:
                    opn = FUNCTOR_OP[astx.callee(x)[0]]
            a, b = self.ev(args[1]), self.ev(args[2])
            if opn and a[0] == "opnd" and b[0] == "opnd" and a[1] != b[1]:
                o = self.ord_of(".value")
                if a[1] == "R":
                    o = INV[o]
                return ("bool", op_on(opn, o))
            raise NotModelled("visit with unrecognised comparison functor")
        if n in ("cmp_not_equal", "cmp_equal", "cmp_less", "cmp_greater", "cmp_less_equal", "cmp_greater_equal") and len(args) == 2:
            op = {"cmp_not_equal": "!=", "cmp_equal": "==", "cmp_less": "<", "cmp_greater": ">", "cmp_less_equal": "<=",
                  "cmp_greater_equal": ">="}[n]
            return ("bool", self.compare(op, self.ev(args[0]), self.ev(args[1])))
        raise NotModelled("call of " + str(n))

    def _is_same_type_test(self, c):
        txt = astx.show(c, 300)
        vb = getattr(self, "visit_bind", {})
        return "is_same" in txt and all(("decltype(%s)" % n) in txt.replace(" ", "") for n in vb)

    def lex_or_total(self):
        if self.probe is not None:
            self.probe.seq = True
            return "="
        if self.world.lex is not None:
            return self.world.lex
        return self.ord_of(".compare")

    # ---- statements
    def run_stmt(self, s):
        """returns value or None (fell through)"""
        k = s.get("k")
        if k == "seq":
            for c in s["s"]:
                r = self.run_stmt(c)
                if r is not None:
                    return r
            return None
        if k == "return":
            if s.get("e") is None:
                raise NotModelled("return without value")
            v = self.ev(s["e"])
            if v[0] == "ordering":
                return v
            return ("bool", self.truth(v))
        if k == "if":
            vb = getattr(self, "visit_bind", None)
            if s.get("constexpr") and vb and self._is_same_type_test(s.get("c")):
                # `if constexpr (is_same_v<decltype(l), decltype(r)>)` inside a two-variant visitor: true for equal indices; for
                # different indices it is true exactly when the two alternatives have the same type (variant<int, int>)
                neg = astx.show(s["c"], 200).strip().startswith("!")
                io = self.ord_of(".index()")
                if self.probe is not None:
                    self.probe.eng.add("same-type")
                if io == "=":
                    c = True
                else:
                    c = bool(self.world.eng.get("same-type"))
                br = s.get("then") if (c != neg) else s.get("else")
                if br is None:
                    return None
                return self.run_stmt(br)
            if s.get("constexpr") and not any(x.get("k") == "sizeofpack" for x in astx.walk_expr(s.get("c"))):
                raise NotModelled("if constexpr")
            c = self.truth(self.ev(s["c"]))
            br = s.get("then") if c else s.get("else")
            if br is None:
                return None
            return self.run_stmt(br)
        if k == "decl":
            for v in s["vars"]:
                if "other" in v:
                    continue
                if v.get("const") and v.get("init") is not None and not v.get("ref") and not v.get("bindings"):
                    if not hasattr(self, "locals"):
                        self.locals = {}
                    self.locals[v["n"]] = v["init"]
                    continue
                raise NotModelled("local variable")
            return None
        if k == "expr" and s["e"].get("k") == "other":
            return None
        if k in ("null",):
            return None
        raise NotModelled("statement " + str(k))


def run(func, siblings, world, probe=None, depth=0):
    ev = Evaluator(func, siblings, world, probe, depth)
    r = ev.run_stmt(func["body"])
    if r is None:
        raise NotModelled("falls off the end")
    if r[0] == "ordering":
        return r
    return r[1]


# ------------------------------------------------------------------------------------------------- expectations
def lexi(paths, ords, op):
    o = "="
    for p in paths:
        if ords[p] != "=":
            o = ords[p]
            break
    return op_on(op, o)


def expected(family, op, w, paths, opt_side=None):
    """std-mandated result of `lhs op rhs` in world w (Appendix C)."""
    if family in ("total", "lexi"):
        return lexi(paths, w.ords, op)
    if family == "reversed":
        return lexi(paths, dict((p, INV[o]) for p, o in w.ords.items()), op)
    if family == "product":
        alleq = all(o == "=" for o in w.ords.values()) or bool(w.eng.get("empty-pack"))
        if op == "==":
            return alleq
        if op == "!=":
            return not alleq
        return None
    if family in ("seq", "seq-fixed"):
        return op_on(op, w.lex)
    if family == "optional":
        le, re = w.eng["L"], w.eng["R"]
        o = w.ords.get(".operator*()", "=")
        if op == "==":
            return (le == re) and (not le or o == "=")
        if op == "!=":
            return not ((le == re) and (not le or o == "="))
        if op == "<":
            return False if not re else (True if not le else o == "<")
        if op == ">":
            return False if not le else (True if not re else o == ">")
        if op == "<=":
            return True if not le else (False if not re else o in "<=")
        if op == ">=":
            return True if not re else (False if not le else o in ">=")
    if family == "optional-nullopt":
        # the optional is on side opt_side, nullopt (never engaged) on the other
        e = w.eng[opt_side]
        le, re = (e, False) if opt_side == "L" else (False, e)
        return expected("optional", op, World({".operator*()": "="}, {"L": le, "R": re}), paths)
    if family == "optional-value":
        e = w.eng[opt_side]
        le, re = (e, True) if opt_side == "L" else (True, e)
        return expected("optional", op, World(dict(w.ords), {"L": le, "R": re}), paths)
    if family == "variant":
        io, vo = w.ords[".index()"], w.ords.get(".value", "=")
        o = io if io != "=" else vo
        return op_on(op, o)
    if family == "null-function":
        e = w.eng[opt_side]
        return (not e) if op == "==" else e
    return None


def worlds(family, paths, eng_sides):
    ps = sorted(paths)
    if family == "seq-fixed":
        for lex in "<=>":
            yield World({}, {}, lex, "=")
        return
    if family == "seq":
        for lex in "<=>":
            for size in "<=>":
                if (lex == "=") != (size == "=") and lex == "=":
                    continue
                if lex == "=" and size != "=":
                    continue
                yield World({}, {}, lex, size)
        return
    alphabets = [("<=>u" if family in PARTIAL_FAMILIES and p != ".index()" else "<=>") for p in ps]
    for combo in itertools.product(*alphabets):
        ords = dict(zip(ps, combo))
        if eng_sides:
            for flags in itertools.product([False, True], repeat=len(eng_sides)):
                yield World(ords, dict(zip(sorted(eng_sides), flags)))
        else:
            yield World(ords, {})


# ------------------------------------------------------------------------------------------------- driver
# family assignment: (file substring, regex on "param0 | param1") -> (family, ordered paths or None, opt side)
import re

SPEC = [
    ("_utility/pair.hpp", r".", ("lexi", [".first", ".second"], None)),
    ("_iterator/reverse_iterator.hpp", r".", ("reversed", [".base()"], None)),
    ("_array/array.hpp", r".", ("seq-fixed", None, None)),
    ("_vector/static_vector.hpp", r".", ("seq", None, None)),
    ("_set/static_set.hpp", r".", ("seq", None, None)),
    ("_flat_set/flat_set.hpp", r".", ("seq", None, None)),
    ("_string_view/basic_string_view.hpp", r".", ("seq", None, None)),
    ("_string/basic_inplace_string.hpp", r".", ("seq", None, None)),
    ("_stack/stack.hpp", r".", ("total", [".c"], None)),
    ("_chrono/duration.hpp", r".", ("total", [".count()"], None)),
    ("_chrono/time_point.hpp", r".", ("total", [".time_since_epoch()"], None)),
    ("_chrono/day.hpp", r".", ("total", [""], None)),
    ("_chrono/month.hpp", r".", ("total", [""], None)),
    ("_chrono/year.hpp", r".", ("total", [""], None)),
    ("_chrono/", r".", ("product", None, None)),
    ("_bitset/bitset.hpp", r".", ("product", None, None)),
    ("_complex/complex.hpp", r"complex<T> & \| const complex<T> &", ("product", None, None)),
    ("_expected/unexpected.hpp", r".", ("total", [".error()"], None)),
    ("_tuple/tuple.hpp", r".", ("product", None, None)),
    ("_variant/variant.hpp", r".", ("variant", None, None)),
    ("_optional/optional.hpp", r"optional<T> & \| const optional<U> &", ("optional", None, None)),
    ("_optional/optional.hpp", r"optional<T> & \| etl::nullopt_t", ("optional-nullopt", None, "L")),
    ("_optional/optional.hpp", r"etl::nullopt_t \| const optional<T> &", ("optional-nullopt", None, "R")),
    ("_optional/optional.hpp", r"optional<T> & \| const U &", ("optional-value", None, "L")),
    ("_optional/optional.hpp", r"const T & \| const optional<U> &", ("optional-value", None, "R")),
    ("_functional/inplace_function.hpp", r"inplace_function.* \| etl::nullptr_t", ("null-function", None, "L")),
    ("_functional/inplace_function.hpp", r"etl::nullptr_t \| .*inplace_function", ("null-function", None, "R")),
    ("_memory/pointer_int_pair.hpp", r".", ("total", ["._value"], None)),
    ("_mdspan/layout_left.hpp", r".", ("total", [".extents()"], None)),
    ("_mdspan/layout_right.hpp", r".", ("total", [".extents()"], None)),
    ("_linalg/layout_transpose.hpp", r".", ("total", ["._nestedMapping"], None)),
]
# operators deliberately outside the model, one line of reason each
NOT_MODELLED = {
    "_compare/": "ordering category types compare against the literal 0 (unspecified parameter type), not two operands",
    "_random/": "distribution / engine parameter equality: state comparison, no std ordering table",
    "_version/language_standard.hpp": "enum comparison through to_underlying",
    "_type_traits/integral_constant.hpp": "compile-time constants: value is a template argument",
    "_string/string_constant.hpp": "type-level equality of character packs",
    "_variant/monostate.hpp": "unit type: constant result",
    "_mdspan/extents.hpp": "loop over the rank with cmp_not_equal (values of run-time extents)",
    "_complex/complex.hpp#scalar": "complex == scalar compares imag() with a value-initialised T",
}


def param_key(f):
    k = _param_key(f)
    return re.sub(r"type_identity_t<(.*?)>(?= \||$)", r"\1", k)


def _param_key(f):
    ps = f["params"]
    if f.get("kind") == "method" and len(ps) == 1:
        return (f.get("record", "") + " | " + ps[0]["ty"])
    return " | ".join(p["ty"] for p in ps)


def family_of(f):
    key = param_key(f)
    for sub, rx, fam in SPEC:
        if sub in f["file"] and re.search(rx, key):
            return fam
    return None


def relational_operators(db):
    return [f for f in db.funcs if f.get("operator") in OPS]


def field_coverage(db, f, paths):
    """EQ-FIELDS: fields of the operand record reached by the compared subjects; (covered, all, unresolved)"""
    rec_q = f.get("record")
    if not rec_q:
        ty = f["params"][0]["ty"].replace("const", "").replace("&", "").strip()
        simple = ty.split("<")[0].split("::")[-1].strip()
        cands = [q for q in db.simple_rec.get(simple, []) if "<" not in q]
        rec_q = cands[0] if len(cands) == 1 else None
    rec = db.record(rec_q) if rec_q else None
    if rec is None:
        return None
    allf = [fd["n"] for fd in rec["fields"]]
    covered, unresolved = set(), []
    from .. import terms as T
    for p in paths:
        name = p.lstrip(".")
        if name.endswith("()"):
            g = [m for m in db.methods(rec_q, name[:-2]) if not m["params"]]
            e = T.one_line_return(g[0]) if g else None
            hit = False
            if e is not None:
                for x in astx.walk_expr(e):
                    if x.get("k") == "mem" and astx.is_this(x.get("b")) and x.get("dk") == "field":
                        covered.add(x["n"])
                        hit = True
            if not hit:
                unresolved.append(p)
        elif name == "get<I>":
            return None
        else:
            covered.add(name.split(".")[0])
    return covered, allf, unresolved


def check(chk, db, file_filter, rule="REL"):
    """Decide every relational operator defined in files matching file_filter (list of substrings)."""
    ops = [f for f in relational_operators(db) if any(s in f["file"] for s in file_filter)]
    groups = {}
    members = {}
    for f in ops:
        groups.setdefault((f["file"], param_key(f)), {}).setdefault(f["operator"], f)
        members.setdefault((f["file"], param_key(f)), []).append(f)
    n_modelled = 0
    for (file, key), sib in sorted(groups.items()):
        for f in sorted(members[(file, key)], key=lambda x: (x["operator"], x["line"])):
            op = f["operator"]
            construct = "%s operator%s(%s)" % (file, op, _param_key(f))
            fam = family_of(f)
            reason = None
            for sub, why in NOT_MODELLED.items():
                if sub.split("#")[0] in file and (fam is None):
                    reason = why
            if fam is None:
                chk.extra.setdefault("not_modelled", []).append({"operator": construct, "reason": reason or "no family assigned"})
                continue
            family, order, opt_side = fam
            chk.instance(rule)
            try:
                probe = Probe()
                run(f, sib, World({}, {"L": True, "R": True}), probe)
                # engaged-dependent branches hide subjects: probe again with flags cleared
                for fl in ((False, True), (True, False), (False, False)):
                    try:
                        run(f, sib, World({}, {"L": fl[0], "R": fl[1]}), probe)
                    except NotModelled:
                        pass
                paths = set(probe.paths)
                if family in ("seq", "seq-fixed"):
                    paths = set()
                if order:
                    extra = paths - set(order)
                    if extra:
                        raise NotModelled("compares unexpected subject(s) %s" % sorted(extra))
                    paths = set(order)
                n_w = 0
                bad = None
                eng_sides = set(probe.eng)
                if family in ("optional",):
                    eng_sides = {"L", "R"}
                elif family in ("optional-nullopt", "optional-value", "null-function"):
                    eng_sides = {opt_side}
                ws = list(worlds(family, paths, eng_sides))
                if probe.pack:
                    ws = ws + [World(dict((p, "<") for p in paths), {"empty-pack": True})]
                for w in ws:
                    n_w += 1
                    got = run(f, sib, w)
                    exp = expected(family, op, w, order or sorted(paths), opt_side)
                    if exp is None:
                        raise NotModelled("no expectation for %s in family %s" % (op, family))
                    if got != exp and bad is None:
                        bad = (w.show(), got, exp)
                ok = bad is None
                chk.obligation(rule, construct, ok, nontrivial=True, evaluations=n_w)
                n_modelled += 1
                if not ok:
                    chk.violation(rule, construct, "wrong-result",
                                  "%s: operator%s returns %s where the standard requires %s for %s" % (
                                      astx.loc(f), op, bad[1], bad[2], bad[0] or "the only world"),
                                  {"where": astx.loc(f), "world": bad[0], "family": family})
                if family == "product" and op == "==":
                    cov = field_coverage(db, f, paths)
                    if cov is not None:
                        covered, allf, unresolved = cov
                        missing = [x for x in allf if x not in covered]
                        if unresolved:
                            chk.unknown_instance("EQ-FIELDS", construct, "getter(s) not resolved: %s" % unresolved)
                        else:
                            chk.obligation("EQ-FIELDS", construct, not missing, nontrivial=True)
                            if missing:
                                chk.violation("EQ-FIELDS", construct, "field-ignored",
                                              "%s: operator== does not compare data member(s) %s" % (astx.loc(f), missing),
                                              {"where": astx.loc(f), "fields": allf, "compared": sorted(covered)})
                chk.sample({"operator": construct, "family": family, "worlds": n_w, "subjects": sorted(paths), "verdict": "PROVED" if ok else "REFUTED"})
            except NotModelled as ex:
                chk.unknown_instance(rule, construct, str(ex))
    return n_modelled
