"""DEPNAME: a member named on an object of a library class template exists in that template.

Inside a template a member access on an object of dependent type (`t.time_since_epch()` with `t` a `time_point<Clock, Dur2>
const&`) is not looked up until the template is instantiated: a misspelt or removed member compiles as long as no test
instantiates the function, and is a hard error for the first user who does. The rule resolves the access by hand: the declared
type of the receiver names a class template of the library; the member must be declared by one of the records of that name
(primary template or a specialisation) or by one of their bases."""
import re
from .. import astx

TY_HEAD = re.compile(r"^(?:const\s+|volatile\s+)*(?:typename\s+)?(?:etl::)?(?:\w+::)*(\w+)\s*<")


def _member_table(db):
    members, bases = {}, {}
    for r in db.records:
        simple = re.sub(r"<.*", "", (r.get("q") or "")).split("::")[-1]
        s = members.setdefault(simple, set())
        for fd in r.get("fields", []) or []:
            s.add(fd["n"])
        for sm in r.get("statics", []) or []:
            s.add(sm["n"])
        for t in r.get("types", []) or []:
            s.add(t if isinstance(t, str) else t.get("n", ""))
        bl = bases.setdefault(simple, [])
        for b in r.get("bases", []) or []:
            bl.append(b if isinstance(b, str) else (b.get("ty") or b.get("n") or ""))
    for f in db.funcs:
        if f.get("record"):
            members.setdefault(re.sub(r"<.*", "", f["record"]).split("::")[-1], set()).add(f["n"])
    return members, bases


def _all_members(simple, members, bases, depth=0):
    out = set(members.get(simple, ()))
    if depth < 4:
        for b in bases.get(simple, []):
            out |= _all_members(re.sub(r"<.*", "", b).split("::")[-1].strip(), members, bases, depth + 1)
    return out


def dependent_names(f, members, bases):
    """[(node, class name, member name, receiver type, known)] for member accesses on parameters of library template type"""
    out = []
    if f.get("body") is None and not f.get("inits"):
        return out
    ptypes = dict((p["n"], p.get("ty") or "") for p in f["params"] if p.get("n"))
    exprs = list(astx.all_exprs(f, into_lambdas=True)) if f.get("body") is not None else []
    for it in f.get("inits") or []:
        if it.get("e") is not None:
            exprs += list(astx.walk_expr(it["e"]))
    for x in exprs:
        if x.get("k") != "mem" or not x.get("dep"):
            continue
        b = astx.strip_casts(x.get("b"))
        if b is None or b.get("k") != "ref" or b.get("d") != "param":
            continue
        ty = ptypes.get(b["n"], "")
        m = TY_HEAD.match(ty)
        if not m or m.group(1) not in members:
            continue
        nm = x.get("n") or ""
        if nm.startswith("operator") or nm.startswith("~") or nm == "template":
            continue
        out.append((x, m.group(1), nm, ty, nm in _all_members(m.group(1), members, bases)))
    return out


def check(chk, db, prefixes, rule="DEPNAME"):
    members, bases = _member_table(db)
    n = 0
    for f in db.funcs:
        if not any(f["file"].startswith(p) for p in prefixes):
            continue
        rs = dependent_names(f, members, bases)
        if not rs:
            continue
        n += len(rs)
        construct = astx.sig(f)
        chk.instance(rule, len(rs))
        bad = [r for r in rs if not r[4]]
        chk.obligation(rule, construct, not bad, evaluations=len(rs))
        for x, cls, nm, ty, _k in bad[:2]:
            chk.violation(rule, construct, "no-such-member", "%s: `%s` names `%s` on an object of type `%s`; the class template `%s` declares no "
                          "such member, so this function fails to compile as soon as it is instantiated" % (astx.loc(f, x), astx.show(x, 40), nm, ty, cls),
                          {"where": astx.loc(f)})
    return n
