"""Specification mini-language: requirement predicates of the contract table (specs/contracts.json).

Python expression syntax over:
  size, cap, engaged, index          state of the receiver
  p0, p1, ...                        the operation's parameters by position (positions/iterators relative to begin())
  size_p0, cap_p0                    size/capacity of the object passed as parameter 0
  npos                               all-ones
  Uppercase identifiers              non-type template parameters of the operation or its class (I, Count, Extent...)
  min(a,b) max(a,b)                  as usual
  and / or / not, comparisons, + - * // %
Specifications are evaluated over unbounded integers (math mode).
"""
import ast

from . import terms as T


_CTX = {}


class SpecError(Exception):
    pass




def parse(text, func, this_name="this", ctx=None):
    try:
        tree = ast.parse(text.strip(), mode="eval")
    except SyntaxError as e:
        raise SpecError("bad requirement %r: %s" % (text, e))
    _CTX["ctx"] = ctx
    return _conv(tree.body, func, this_name)


def _state(role_getter, role, o):
    ctx = _CTX.get("ctx")
    if ctx is not None:
        if role_getter == "capacity" and ctx.db is not None:
            # adaptors without capacity() (static_set): max_size() forwards to the storage
            try:
                rec_q = ctx.record_of(o)[0]
            except Exception:
                rec_q = None
            if rec_q and not ctx.db.methods(rec_q, "capacity") and ctx.db.methods(rec_q, "max_size"):
                role_getter = "max_size"
        r = T.getter(o, role_getter, ctx)
        if r is not None:
            return r
    return T.canonical(role, o)


def param_atom(func, i):
    ps = func["params"]
    if i >= len(ps):
        raise SpecError("operation %s has no parameter %d" % (func["q"], i))
    p = ps[i]
    so = T.sort_of_type(p["ty"])
    ctx = _CTX.get("ctx")
    if ctx is not None and ctx.sorts.get(p["n"]):
        so = ctx.sorts[p["n"]]
    return T.var(p["n"] or ("arg%d" % i), so or "?")


def _conv(n, func, this):
    if isinstance(n, ast.BoolOp):
        op = "and" if isinstance(n.op, ast.And) else "or"
        t = _conv(n.values[0], func, this)
        for v in n.values[1:]:
            t = (op, t, _conv(v, func, this))
        return t
    if isinstance(n, ast.UnaryOp):
        if isinstance(n.op, ast.Not):
            return ("not", _conv(n.operand, func, this))
        if isinstance(n.op, ast.USub):
            return ("neg", _conv(n.operand, func, this))
    if isinstance(n, ast.Compare):
        ops = {ast.Lt: "<", ast.LtE: "<=", ast.Eq: "==", ast.NotEq: "!=", ast.GtE: ">=", ast.Gt: ">"}
        left = _conv(n.left, func, this)
        out = None
        for op, comp in zip(n.ops, n.comparators):
            right = _conv(comp, func, this)
            c = ("cmp", ops[type(op)], left, right)
            out = c if out is None else ("and", out, c)
            left = right
        return out
    if isinstance(n, ast.BinOp):
        ops = {ast.Add: "+", ast.Sub: "-", ast.Mult: "*", ast.FloorDiv: "/", ast.Mod: "%"}
        if type(n.op) in ops:
            return (ops[type(n.op)], _conv(n.left, func, this), _conv(n.right, func, this))
    if isinstance(n, ast.Constant):
        if isinstance(n.value, bool):
            return T.c(1 if n.value else 0)
        if isinstance(n.value, int):
            return T.c(n.value)
    if isinstance(n, ast.Call) and isinstance(n.func, ast.Name) and n.func.id in ("min", "max") and len(n.args) == 2:
        return (n.func.id, _conv(n.args[0], func, this), _conv(n.args[1], func, this))
    if isinstance(n, ast.IfExp):
        return ("ite", _conv(n.test, func, this), _conv(n.body, func, this), _conv(n.orelse, func, this))
    if isinstance(n, ast.Name):
        name = n.id
        if name == "size":
            return _state("size", "size", this)
        if name == "cap":
            return _state("capacity", "cap", this)
        if name == "engaged":
            return _state("has_value", "engaged", this)
        if name == "index":
            return _state("index", "index", this)
        if name == "npos":
            return T.c(T.NPOS)
        if name in ("true", "True"):
            return T.c(1)
        if name in ("false", "False"):
            return T.c(0)
        if name[0] == "p" and name[1:].isdigit():
            return param_atom(func, int(name[1:]))
        for pre, kind in (("size_p", "size"), ("cap_p", "cap"), ("engaged_p", "engaged"), ("index_p", "index")):
            if name.startswith(pre) and name[len(pre):].isdigit():
                p = func["params"][int(name[len(pre):])]
                g = {"size": "size", "cap": "capacity", "engaged": "has_value", "index": "index"}[kind]
                return _state(g, kind, p["n"])
        if name.startswith("strlen_p") and name[8:].isdigit():
            p = func["params"][int(name[8:])]
            return T.var("strlen(%s)" % p["n"], "u")
        if name[0].isupper():
            ctx = _CTX.get("ctx")
            if ctx is not None and name in ctx.nttp_map:
                return ctx.nttp_map[name]
            if ctx is not None and name in ctx.cap_names:
                return T.canonical("cap", this)
            return T.var(name, "st")
    raise SpecError("unsupported construct in requirement: " + ast.dump(n))
