"""Program database: runs the tetl-ast extractor on /repo's *current* working tree and indexes the result.

Nothing here decides a property; it only makes the resolved program available to the rules.
"""
import json
import os
import re
import shutil
import subprocess
import tempfile
import atexit

VERIF = os.path.dirname(os.path.dirname(os.path.abspath(__file__)))
REPO = os.environ.get("TETL_REPO", "/repo")
INCLUDE = os.path.join(REPO, "include")
ROOT = os.path.join(INCLUDE, "etl") + "/"
EXTRACTOR = os.path.join(VERIF, "build", "tetl-ast")

CONFIGS = {
    "checks": ["-DTETL_ENABLE_CONTRACT_CHECKS=1"],
    "safe": ["-DTETL_ENABLE_CONTRACT_CHECKS_SAFE=1"],
    "plain": [],
    "suite": ["-DTETL_ENABLE_CONTRACT_CHECKS=1", "-DTETL_ENABLE_USER_CONFIG_HEADER_INCLUDE=1",
              "-I" + os.path.join(REPO, "tests")],
}

# clang 14 does not implement P0634 (typename optional in more contexts); g++ accepts the construct.
TOLERATED_DIAG = re.compile(r"missing 'typename' prior to dependent type name")

_scratch = None


class AnalysisBroken(Exception):
    """The machinery lost its grip (exit 2): not a pass, not a violation."""


def scratch():
    global _scratch
    if _scratch is None:
        _scratch = tempfile.mkdtemp(prefix="tetl-verif-")
        atexit.register(lambda: shutil.rmtree(_scratch, ignore_errors=True))
    return _scratch


def ensure_extractor():
    src = os.path.join(VERIF, "tools", "tetl-ast", "tetl-ast.cc")
    if not os.path.exists(EXTRACTOR) or os.path.getmtime(EXTRACTOR) < os.path.getmtime(src):
        r = subprocess.run([os.path.join(VERIF, "tools", "tetl-ast", "build.sh")], capture_output=True, text=True)
        if r.returncode != 0 or not os.path.exists(EXTRACTOR):
            raise AnalysisBroken("cannot build tetl-ast: " + r.stderr[-2000:])


def public_headers():
    hs = sorted(f for f in os.listdir(ROOT) if f.endswith(".hpp"))
    if len(hs) < 40:
        raise AnalysisBroken("only %d public headers under %s" % (len(hs), ROOT))
    return hs


def umbrella_source(extra_includes=()):
    lines = ["#include <etl/%s>" % h for h in public_headers()]
    if os.path.exists(os.path.join(ROOT, "experimental/net/byte_order.hpp")):
        lines.append("#include <etl/experimental/net/byte_order.hpp>")
    lines += ["#include <%s>" % h for h in extra_includes]
    return "\n".join(lines) + "\n"


def resource_dir():
    r = subprocess.run(["clang++", "-print-resource-dir"], capture_output=True, text=True)
    return r.stdout.strip()


def run_extractor(source_text, flags, root=None, tag="tu"):
    ensure_extractor()
    d = scratch()
    src = os.path.join(d, tag + ".cpp")
    out = os.path.join(d, tag + ".jsonl")
    with open(src, "w") as f:
        f.write(source_text)
    cmd = [EXTRACTOR, root or ROOT, out, src, "--", "-std=c++20", "-I" + INCLUDE, "-UNDEBUG", "-ferror-limit=0",
           "-Wno-everything", "-resource-dir", resource_dir()] + list(flags)
    r = subprocess.run(cmd, capture_output=True, text=True)
    if not os.path.exists(out):
        raise AnalysisBroken("extractor produced no output: " + r.stderr[-2000:])
    recs = []
    with open(out) as f:
        for line in f:
            recs.append(json.loads(line))
    os.unlink(out)
    return recs


class DB:
    def __init__(self, recs, config):
        self.config = config
        self.funcs = [r for r in recs if r["t"] == "func"]
        for f in self.funcs:
            if f.get("kind") == "ctor":
                f["n"] = "<ctor>"
                f["q"] = f["record"] + "::<ctor>"
            elif f.get("kind") == "dtor":
                f["n"] = "<dtor>"
                f["q"] = f["record"] + "::<dtor>"
        self.records = [r for r in recs if r["t"] == "record"]
        self.vars = [r for r in recs if r["t"] == "var"]
        self.aliases = [r for r in recs if r["t"] == "alias"]
        self.enums = dict((r["q"], r) for r in recs if r["t"] == "enum")
        self.skipped = [r for r in recs if r["t"] == "skipped"]
        self.macros = [r for r in recs if r["t"] == "macro"]
        self.diags = [r for r in recs if r["t"] == "diag"]
        self.summary = [r for r in recs if r["t"] == "summary"][-1]
        self.by_q = {}
        for f in self.funcs:
            self.by_q.setdefault(f["q"], []).append(f)
        self.rec_by_q = {}
        for r in self.records:
            self.rec_by_q.setdefault(r["q"], []).append(r)
        self.alias_by_q = {a["q"]: a for a in self.aliases}
        self.var_by_q = {}
        for v in self.vars:
            self.var_by_q.setdefault(v["q"], []).append(v)
        self.simple_rec = {}
        for r in self.records:
            self.simple_rec.setdefault(r["n"], []).append(r["q"])
        self._bases_cache = {}
        self.tolerated = [d for d in self.diags if TOLERATED_DIAG.search(d["msg"])]
        self.unexpected = [d for d in self.diags if not TOLERATED_DIAG.search(d["msg"])]

    # ------------------------------------------------------------------ hierarchy
    def bases_of(self, rec_q):
        """Qualified names of records that may be a base of rec_q (dependent bases resolved through alias templates:
        every etl record named in the alias' type counts as a possible base)."""
        if rec_q in self._bases_cache:
            return self._bases_cache[rec_q]
        out = []
        self._bases_cache[rec_q] = out
        for r in self.rec_by_q.get(rec_q, []):
            for b in r["bases"]:
                for q in self._records_named_in(b["ty"], r):
                    if q != rec_q and q not in out:
                        out.append(q)
        return out

    def _records_named_in(self, ty, ctx_rec, depth=0):
        found = []
        if depth > 3:
            return found
        for ident in re.findall(r"[A-Za-z_][A-Za-z_0-9:]*", ty):
            simple = ident.split("::")[-1]
            if simple in ("typename", "const", "etl", "detail"):
                continue
            # alias template?
            for aq, a in self.alias_by_q.items():
                if aq.split("::")[-1] == simple:
                    for q in self._records_named_in(a["ty"], ctx_rec, depth + 1):
                        if q not in found:
                            found.append(q)
            # class-local alias
            for al in ctx_rec.get("aliases", []):
                if al["n"] == simple and depth < 2:
                    for q in self._records_named_in(al["ty"], ctx_rec, depth + 1):
                        if q not in found:
                            found.append(q)
            for q in self.simple_rec.get(simple, []):
                if q not in found:
                    found.append(q)
        return found

    # ------------------------------------------------------------------ type resolution
    @staticmethod
    def split_scope(ty):
        out, depth, cur, i = [], 0, "", 0
        while i < len(ty):
            ch = ty[i]
            if ch in "<([":
                depth += 1
            elif ch in ">)]":
                depth -= 1
            if depth == 0 and ty.startswith("::", i):
                out.append(cur)
                cur = ""
                i += 2
                continue
            cur += ch
            i += 1
        out.append(cur)
        return [x.strip() for x in out if x.strip()]

    @staticmethod
    def strip_type(ty):
        t = ty.strip()
        changed = True
        while changed:
            changed = False
            for pre in ("const ", "volatile ", "typename ", "struct ", "class "):
                if t.startswith(pre):
                    t = t[len(pre):].strip()
                    changed = True
            for suf in ("&&", "&", "*", " const", " volatile"):
                if t.endswith(suf):
                    t = t[: -len(suf)].strip()
                    changed = True
        return t

    def resolve_type(self, ty, ctx_rec_q=None, depth=0):
        """(record qualified name, template-argument text) the type as written denotes, following member and
        namespace aliases; None when unknown or ambiguous."""
        if depth > 6 or not ty:
            return None
        t = self.strip_type(ty)
        segs = self.split_scope(t)
        if not segs:
            return None
        name = segs[-1]
        base = name.split("<")[0].strip()
        args = name[name.index("<") + 1:name.rindex(">")] if "<" in name and ">" in name else ""
        scope = segs[:-1]
        # alias that is a member of the scope record / the context record
        owners = []
        if scope:
            sb = scope[-1].split("<")[0].strip()
            if sb not in ("etl", "detail", "std", "chrono", "ranges", "strings", "linalg", "meta"):
                owners += [q for q in self.simple_rec.get(sb, [])]
        if ctx_rec_q:
            owners += self.lineage(ctx_rec_q)
        for oq in owners:
            rec = self.record(oq)
            if not rec:
                continue
            for al in rec.get("aliases", []):
                if al["n"] == base:
                    r = self.resolve_type(al["ty"], oq, depth + 1)
                    if r:
                        return r
            for rr in self.records:
                if rr.get("parent") == oq and rr["n"] == base:
                    return (rr["q"], args)
        if not scope or scope[-1] in ("etl", "detail", "chrono", "ranges", "strings") or True:
            als = [a for q, a in self.alias_by_q.items() if q.split("::")[-1] == base]
            if len(als) == 1 and not any(r for r in self.simple_rec.get(base, [])):
                return self.resolve_type(als[0]["ty"], ctx_rec_q, depth + 1)
            if ctx_rec_q:
                cr = self.record(ctx_rec_q)
                if cr and cr["n"] == base and not scope:
                    return (ctx_rec_q, args)   # injected class name
            cands = [q for q in self.simple_rec.get(base, []) if "<" not in q]
            if not cands:
                cands = list(self.simple_rec.get(base, []))
            if len(cands) > 1 and scope:
                pref = [q for q in cands if q.startswith("::".join(x.split("<")[0] for x in scope))]
                cands = pref or cands
            if len(cands) == 1:
                return (cands[0], args)
        return None

    def lineage(self, rec_q):
        """rec_q followed by all (possible) transitive bases."""
        out = [rec_q]
        i = 0
        while i < len(out):
            for b in self.bases_of(out[i]):
                if b not in out:
                    out.append(b)
            i += 1
        return out

    def methods(self, rec_q, name, inherited=True):
        out = []
        recs = self.lineage(rec_q) if inherited else [rec_q]
        for rq in recs:
            for f in self.by_q.get(rq + "::" + name, []):
                if f.get("record") == rq:
                    out.append(f)
            if out and rq == rec_q:
                # own declaration hides the bases' (name hiding); using-declarations re-expose both, keep looking
                pass
        return out

    def record(self, q):
        rs = self.rec_by_q.get(q, [])
        return rs[0] if rs else None

    def funcs_in_file(self, rel):
        return [f for f in self.funcs if f["file"] == rel]

    def funcs_of_record(self, rec_q):
        return [f for f in self.funcs if f.get("record") == rec_q]


_cache = {}


def load(config="checks"):
    if config in _cache:
        return _cache[config]
    recs = run_extractor(umbrella_source(), CONFIGS[config], tag="umbrella-" + config)
    db = DB(recs, config)
    if db.unexpected:
        d = db.unexpected[0]
        raise AnalysisBroken("unexpected clang diagnostic in config %s: %s:%s: %s (+%d more)" % (
            config, d.get("file"), d.get("line"), d["msg"], len(db.unexpected) - 1))
    if len(db.funcs) < 2500:
        raise AnalysisBroken("extractor saw only %d function bodies (floor 2500)" % len(db.funcs))
    _cache[config] = db
    return db


def load_source(source_text, flags=(), root=None, tag="aux"):
    """Parse an arbitrary TU (fixtures / std declarations)."""
    recs = run_extractor(source_text, list(flags), root=root, tag=tag)
    return DB(recs, tag)
