"""C20 - pair, tuple and callable wrappers forward values and calls faithfully (clauses)."""
from .. import astx
from .. import db as D
from ..rules import call1, rel
from ..rules import life as L
from witness import wit, c20 as gen

META = ("CALL1 (every call wrapper invokes its target exactly once on every structural path, expands every parameter pack "
        "exactly once through etl::forward, uses the stored callable with the value category of the ref-qualified overload, "
        "and returns the result unchanged - not_fn negates exactly once), REL (pair lexicographic operators over ord1 x ord2, "
        "tuple equality, inplace_function vs nullptr), W-TYPES (tuple_size/tuple_element/get value categories, make_pair/"
        "make_tuple/forward_as_tuple/tuple_cat/apply/make_from_tuple/invoke/not_fn/bind_front/reference_wrapper result types "
        "vs libstdc++)",
        ["clang 14 parser/sema (tetl-ast)", "g++ 12 type checker, libstdc++ 12 as oracle"])

WRAPPERS = [
    ("etl::detail::not_fn_t", "operator()", True), ("etl::detail::stateless_not_fn", "operator()", True),
    ("etl::detail::bind_front_t", "operator()", False), (None, "etl::detail::bind_front_caller", False),
    (None, "etl::invoke", False), (None, "etl::invoke_r", False), (None, "etl::detail::invoke_memptr", False),
    ("etl::inplace_function<R (Args...), Capacity, Alignment>", "operator()", False),
    ("etl::detail::function_ref<Noexcept, R (Args...)>", "operator()", False),
    ("etl::reference_wrapper", "operator()", False), (None, "etl::apply", False), (None, "etl::make_from_tuple", False),
]


def thunks(db):
    """lambdas initialising function-pointer members that call something: invoke thunks of the type-erased wrappers"""
    out = []
    for f in db.funcs:
        if f.get("kind") != "ctor" or f.get("record") is None:
            continue
        if not any(x in f["record"] for x in ("inplace_func_vtable", "function_ref")):
            continue
        for ini in f.get("inits") or []:
            lam = None
            for x in astx.walk_expr(ini.get("e")):
                if x.get("k") == "lambda":
                    lam = x
            if lam is None or not ini.get("field"):
                continue
            has_call = any(y.get("k") == "call" for y in astx.walk_stmt_exprs(lam["body"]))
            if not has_call or not any(n in ini["field"] for n in ("invoke", "call")):
                continue
            out.append({"q": "%s::%s (thunk)" % (f["record"], ini["field"]), "n": ini["field"], "file": f["file"], "line": lam.get("line"),
                        "params": [dict(p, n=p["n"] or ("p%d" % i)) for i, p in enumerate(lam.get("params", []))],
                        "body": lam["body"], "kind": "function", "record": None, "refq": ""})
    return out


META_EXTRA = "SRC (copying an inplace_function never relocates its const source); VT (vtable value vs storage content); instantiation witnesses for pair's converting members; PARAM."
META = (META[0] + " " + META_EXTRA, META[1])
META = (META[0] + " SIB; INITFORM (make_from_tuple); LIFE / L5 over inplace_function's members.", META[1])

META = (META[0] + ' FWDMOVE (a forwarding-reference parameter is forwarded, never moved; forward_like is the one named exception); TYPEDFUN (the element comparisons of pair / tuple never convert one side to the element type of the other side first).', META[1])

META = (META[0] + ' FIELDSWAP (a member swap of a plain aggregate exchanges every data member with the other object individually).', META[1])


def run(chk, tier):
    db = D.load("checks")
    from ..rules import params as _PR
    _PR.check(chk, db, ['_functional/', '_tuple/', '_utility/pair'], floor=40)
    from ..rules import sibs as _SB
    _SB.check(chk, db, ['_functional/', '_tuple/', '_utility/pair'])      # SIB: cv/ref-qualified overloads of one member agree
    _SB.positive_control(chk)
    from ..rules import extra8 as _X8
    from ..rules import iters as _ITY
    if _ITY.typed_functor_area(chk, db, ['_tuple/', '_utility/pair']) < 10:      # TYPEDFUN
        chk.analysis_broken('TYPEDFUN: fewer than 10 two-type-parameter templates in pair / tuple (floor 10)')
    _ITY.typed_functor_control(chk, D)
    if _X8.field_swap_area(chk, db, ['_utility/pair', '_tuple/', '_functional/']) < 1:      # FIELDSWAP
        chk.analysis_broken('FIELDSWAP: pair::swap no longer found')
    if _X8.forward_move_area(chk, db, ['_functional/', '_tuple/', '_utility/']) < 20:      # FWDMOVE
        chk.analysis_broken('FWDMOVE: fewer than 20 functions with a forwarding-reference parameter (floor 20)')
    from ..rules import initform as _IF
    _IF.check(chk, db, ['_tuple/', '_functional/', '_utility/'])      # INITFORM: forwarded packs direct-non-list-initialise
    if not db.by_q.get('etl::make_from_tuple'):
        chk.analysis_broken('INITFORM: etl::make_from_tuple no longer exists')
    elif not chk.rule_instances.get('INITFORM'):
        chk.unknown_instance('INITFORM', 'etl::make_from_tuple', 'no construction of T from the expanded tuple recognised')
    n = 0
    for rec, name, neg in WRAPPERS:
        if rec:
            fs = [f for f in db.funcs if f.get("record") == rec and f["n"] == name and not f.get("deleted")]
        else:
            fs = [f for f in db.by_q.get(name, [])]
        if not fs:
            chk.analysis_broken("CALL1: wrapper %s%s no longer exists" % ((rec + "::") if rec else "", name))
            continue
        for f in fs:
            call1.check_wrapper(chk, db, f, negated=neg)
            n += 1
    for t in thunks(db):
        # the empty vtable's invoke thunk raises instead of calling
        body_calls = [astx.callee(y)[0] for y in astx.walk_stmt_exprs(t["body"]) if y.get("k") == "call"]
        if "raise" in body_calls:
            chk.instance("CALL1")
            chk.obligation("CALL1", t["q"] + " [empty]", body_calls == ["raise"] or all(c in ("raise",) for c in body_calls))
            continue
        call1.check_wrapper(chk, db, t, negated=False)
        n += 1
    if n < 20:
        chk.analysis_broken("CALL1: only %d wrappers analysed (floor 20)" % n)
    nvt = L.vt_rule(chk, db, L.slot_signatures(db), "VT")
    if nvt < 8:
        chk.analysis_broken("VT: only %d special members of table-dispatching owners analysed (floor 8)" % nvt)
    # SRC: copying an inplace_function leaves the source callable alive (no relocation slot on a const source)
    if L.const_source_rule(chk, db, L.slot_signatures(db), "SRC") < 2:
        chk.analysis_broken("SRC: fewer than 2 copying members of inplace_function found")
    # LIFE / L5: the target of an inplace_function is constructed over dead storage only, destroyed once, and an assignment
    # whose source aliases *this does not read a destroyed target (same analysis as C03, owner inplace_function only)
    from . import c03 as _c03
    owner = next((o for o in _c03.OWNERS if o.startswith("etl::inplace_function")), "etl::inplace_function")
    state = L.state_fields(db, owner)
    nlife = 0
    if not db.rec_by_q.get(owner) or not state:
        chk.analysis_broken("LIFE: owner %s or its liveness state is no longer derivable" % owner)
    else:
        sg = L.slot_signatures(db)
        for f in L.member_functions(db, owner):
            _c03.analyse_function(chk, db, sg, owner, _c03.OWNERS[owner], owner, f, state)
            nlife += 1
        if nlife < 8:
            chk.analysis_broken("LIFE: only %d members of %s analysed (floor 8)" % (nlife, owner))
    nrel = rel.check(chk, db, ["_utility/pair.hpp", "_tuple/tuple.hpp", "_functional/inplace_function.hpp"])
    if chk.rule_instances.get("REL", 0) < 9:      # operators found (an unmodelled body is UNKNOWN, not a lost subject)
        chk.analysis_broken("REL: only %d pair/tuple/function operators modelled" % nrel)
    tus, info = gen.generate(tier == "quick")
    res = wit.compile_many(tus, compiler="g++", jobs=16)
    total = 0
    for tu in tus:
        results, unattributed = res[tu.name]
        wit.judge(chk, "W-TYPES", tu, results, unattributed)
        chk.instance("W-TYPES:" + tu.name, len(tu.obl) or 1)
        total += len(tu.obl)
    if total < 500:
        chk.analysis_broken("W-TYPES: only %d obligations generated" % total)
    chk.assumptions += [
        "element values after construction/assignment/swap are run-time values and are not decided",
        "inplace_function's lifecycle is property C03",
    ]
