"""C15 - type traits, concepts, limits and ratio agree with the language and std (W-TRAITS)."""
from witness import wit, c15 as gen

META = ("W-TRAITS: every etl trait/concept/numeric_limits member/ratio operation/integer alias that has a std "
        "counterpart is compared with it on a type zoo as a compile-time obligation (static_assert, one per line) "
        "type-checked by g++ -fsyntax-only; nothing is executed",
        ["g++ 12.2 type checker", "libstdc++ 12 <type_traits>/<concepts>/<limits>/<ratio> as oracle",
         "pairing table witness/c15.py"])
FLOOR_QUICK = 4000
FLOOR_THOROUGH = 20000


def run(chk, tier):
    quick = tier == "quick"
    tus, info = gen.generate(quick)
    res = wit.compile_many(tus, compiler="g++", jobs=16)
    total = 0
    for tu in tus:
        results, unattributed = res[tu.name]
        wit.judge(chk, "W-TRAITS", tu, results, unattributed)
        chk.instance("W-TRAITS:" + tu.name, len(tu.obl))
        total += len(tu.obl)
        for line, ob in list(tu.obl.items())[:1]:
            chk.sample({"tu": tu.name, "obligation": ob["code"], "errors": results.get(line, [])[:1]})
    if not quick:
        # second opinion from clang on the TUs it can handle (traits/limits/ratio); disagreements are reported
        res2 = wit.compile_many([t for t in tus], compiler="clang++", jobs=16)
        n2 = 0
        for tu in tus:
            results, unattributed = res2[tu.name]
            for line, ob in tu.obl.items():
                if results.get(line):
                    n2 += 1
        chk.extra["clang_second_opinion_failing_obligations"] = n2
    chk.extra.update(info)
    chk.extra["units"] = len(tus)
    floor = FLOOR_QUICK if quick else FLOOR_THOROUGH
    if total < floor:
        chk.analysis_broken("only %d trait obligations generated (floor %d)" % (total, floor))
    if info["missing_expected"]:
        for n in info["missing_expected"]:
            chk.analysis_broken("trait header _type_traits/%s.hpp named in the pairing table no longer exists" % n)
    chk.assumptions += [
        "g++ 12 / libstdc++ 12 are the oracle for the std side; combinations for which the standard leaves the std "
        "trait undefined (incomplete types, etc.) are not generated",
        "etl-only traits without a std counterpart in C++20 are listed under unpaired_traits and carry no obligation",
    ]
