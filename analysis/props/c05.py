"""C05 - contract checks stop every precondition violation before it does damage (rules G1..G5)."""
import json
import os
import re

from .. import astx
from .. import db as D
from .. import prog as P
from .. import terms as T
from ..rules import guard as G

SPEC = os.path.join(D.VERIF, "specs", "contracts.json")
GUARD_FLOOR = {"checks": 156, "safe": 158}   # 90 % of the guard sites confirmed on the tree (174 / 176)


def select(db, ent):
    if "free" in ent:
        fs = list(db.by_q.get(ent["free"], []))
    else:
        fs = [f for f in db.funcs if f.get("record") == ent["record"] and f["n"] == ent["name"]]
    if "nparams" in ent:
        fs = [f for f in fs if len(f["params"]) == ent["nparams"]]
    if "nparams_max" in ent:
        fs = [f for f in fs if len(f["params"]) <= ent["nparams_max"]]
    if "ptypes" in ent:
        pats = ent["ptypes"]
        out = []
        for f in fs:
            ps = f["params"]
            if ent.get("ptypes_prefix"):
                if len(ps) < len(pats):
                    continue
            elif len(ps) != len(pats):
                continue
            if all(re.search(p, ps[i]["ty"]) for i, p in enumerate(pats)):
                out.append(f)
        fs = out
    return fs


def guard_sites(db):
    sites = []
    for f in db.funcs:
        for s in astx.walk_stmts(f["body"]):
            if s.get("k") != "if":
                continue
            g = P.guard_of(s)
            if g is not None:
                sites.append((f, g))
        # guards inside lambdas
    return sites


def site_key(f, g):
    return (astx.sig(f), astx.show(g[0]))


def check_routing(chk, db, f, g):
    """G4: the failing branch reaches etl::assert_handler with an assert_msg carrying __LINE__/__FILE__."""
    cond, call, ifnode = g
    construct = astx.sig(f) + " guard `" + astx.show(cond, 80) + "`"
    ok = True
    why = []
    args = call["a"]
    msg = args[0] if args else None
    inner = msg
    if inner is not None and inner.get("k") in ("cast", "construct"):
        if "assert_msg" not in inner.get("ty", ""):
            ok = False
            why.append("payload type is %s, not etl::assert_msg" % inner.get("ty"))
        inner = inner.get("e") if inner.get("k") == "cast" else (inner["a"][0] if inner["a"] else None)
    fields = {}
    if inner is not None and inner.get("k") == "initlist":
        for d in inner["a"]:
            if d and d.get("k") == "desig":
                fields[d["n"]] = d["e"]
    def from_macro(e, name):
        for x in astx.walk_expr(e):
            if name in (x.get("m") or []):
                return True
        return False
    if "line" not in fields or not from_macro(fields.get("line"), "__LINE__"):
        ok = False
        why.append("assert_msg.line is not __LINE__")
    if "file" not in fields or not from_macro(fields.get("file"), "__FILE__"):
        ok = False
        why.append("assert_msg.file is not __FILE__")
    for n in ("func", "expression"):
        e = fields.get(n)
        if e is None:
            ok = False
            why.append("assert_msg.%s missing" % n)
    chk.obligation("G4", construct, ok)
    if not ok:
        chk.violation("G4", construct, "routing", "%s: %s" % (astx.loc(f, ifnode), "; ".join(why)),
                      {"where": astx.loc(f, ifnode)})


def check_handler(chk, db, config):
    hs = db.by_q.get("etl::assert_handler", [])
    if config == "suite":
        ok = len(hs) == 0
        chk.obligation("G4", "etl::assert_handler user-replaceable under TETL_ENABLE_CUSTOM_ASSERT_HANDLER", ok)
        if not ok:
            chk.violation("G4", "etl::assert_handler", "not-replaceable",
                          "the library defines assert_handler although TETL_ENABLE_CUSTOM_ASSERT_HANDLER is set")
        return
    if not hs:
        chk.analysis_broken("etl::assert_handler has no definition in configuration " + config)
        return
    for h in hs:
        ok = bool(h.get("noreturn"))
        last = None
        body = h["body"]["s"] if h["body"].get("k") == "seq" else []
        for s in body:
            if s.get("k") == "expr" and s["e"].get("k") == "call":
                last = s["e"]
        n = astx.callee(last)[0] if last else None
        if n not in ("exit", "abort", "_Exit", "quick_exit", "terminate", "__builtin_trap"):
            ok = False
        chk.obligation("G4", "etl::assert_handler default definition", ok)
        if not ok:
            chk.violation("G4", "etl::assert_handler", "returns",
                          "default assert_handler is not [[noreturn]] ending in a terminating call (last call: %s)" % n)


META = ("GUARD rules G1-G5 over the clang AST of every contract-checked operation, decided by bounded-model evaluation of the "
        "guard programs against the contract table; DIM (linalg: index variables range over an extent the preconditions equate "
        "with the indexed dimension, union-find over (object, dimension))",
        ["clang 14 parser/sema (tetl-ast)", "specs/contracts.json", "bounded-model evaluator analysis/terms.py"])
META = (META[0] + ' G3 also forbids constructing / destroying the slot a state requirement is about before the handler fires.', META[1])
META = (META[0] + " G4 (the operation's own check can fail in some model).", META[1])


def precall(chk, db, records=("etl::static_vector", "etl::inplace_vector", "etl::basic_inplace_string", "etl::basic_string_view", "etl::span")):
    """PRECALL (used by C02): a call that satisfies the operation's own documented requirement never violates the precondition
    of a member it calls internally. The checks are compiled out in a default build, so such an internal violation is plain
    undefined behaviour there (`resize(n, v)` handing `n` instead of `n - size()` to `insert` writes past the buffer). Decided
    like G2: in every model that satisfies the requirement, no guard of an inlined callee fires."""
    with open(SPEC) as fh:
        table = json.load(fh)["entries"]
    n = 0
    for ent in table:
        if ent.get("record") not in records or ent.get("config") not in (None, "checks"):
            continue
        try:
            fs = select(db, ent)
        except Exception:
            continue
        for f in fs:
            f2 = f
            if ent.get("sorts"):
                f2 = dict(f)
                f2["params"] = [dict(p) for p in f["params"]]
                for i, so in ent["sorts"].items():
                    f2["params"][int(i)]["ty"] = {"p": "const_iterator", "u": "size_t", "s": "ptrdiff_t"}[so]
            n += 1
            construct = astx.sig(f)
            chk.instance("PRECALL")
            try:
                r = G.check_operation(db, f2, ent["req"], kind=ent.get("kind", "A"), static_conds=ent.get("static"), assume=ent.get("assume"), max_depth=3)
            except Exception as ex:
                chk.unknown_instance("PRECALL", construct, "engine: %r" % (ex,))
                continue
            bad = r.g2_callee_witness is not None
            chk.obligation("PRECALL", construct, not bad, evaluations=max(1, r.models))
            if bad:
                chk.violation("PRECALL", construct, "callee-precondition", "%s: with arguments that satisfy `%s` the precondition of a member called "
                              "internally is violated; witness %s" % (astx.loc(f), ent["req"], json.dumps(r.g2_callee_witness)),
                              {"where": astx.loc(f), "witness": r.g2_callee_witness})
    return n


META = (META[0] + ' ENGAGE (shared with C07: the engaged flag the dereference guards test follows the source of every optional assignment).', META[1])


def run(chk, tier):
    from ..rules import dims as _DM
    _DM.check(chk, D.load("checks"), ["_linalg/blas"], floor=6)      # DIM: linalg index loops vs the extents the preconditions equate
    # ENGAGE (shared with C07 / C03): a guard `has_value()` decides whether the handler fires only if the engaged flag is
    # right - an assignment from an empty source that leaves the target engaged makes the later dereference pass the guard
    from . import c07 as _c07e
    _c07e.engage_rule(chk, D.load("checks"))
    with open(SPEC) as f:
        table = json.load(f)["entries"]
    configs = ["checks", "safe"] if tier == "quick" else ["checks", "safe", "plain", "suite"]
    dbs = {}
    for c in configs:
        dbs[c] = D.load(c)
    sites = {}
    for c in configs:
        sites[c] = guard_sites(dbs[c])
        chk.extra.setdefault("guard_sites", {})[c] = len(sites[c])
        chk.instance("guard-sites:" + c, len(sites[c]))
        if c in GUARD_FLOOR and len(sites[c]) < GUARD_FLOOR[c]:
            chk.analysis_broken("configuration %s: only %d guard sites recognised (floor %d)" % (
                c, len(sites[c]), GUARD_FLOOR[c]))
    chk.extra["skipped_pp_regions"] = len(dbs["checks"].skipped)
    chk.extra["tolerated_clang_diagnostics"] = [d["msg"] for d in dbs["checks"].tolerated]
    chk.extra["functions_analysed"] = len(dbs["checks"].funcs)
    chk.extra["units"] = len(configs)

    # ---- G4 routing for every guard site, G5 configuration monotonicity
    for c in ("checks", "safe"):
        for f, g in sites[c]:
            check_routing(chk, dbs[c], f, g)
        check_handler(chk, dbs[c], c)
    if "suite" in dbs:
        check_handler(chk, dbs["suite"], "suite")
    k_checks = set(site_key(f, g) for f, g in sites["checks"])
    k_safe = set(site_key(f, g) for f, g in sites["safe"])
    missing = sorted(k_checks - k_safe)
    chk.obligation("G5", "safe configuration keeps every check of the default configuration", not missing)
    for m in missing:
        chk.violation("G5", m[0], "dropped-in-safe", "guard `%s` exists with TETL_ENABLE_CONTRACT_CHECKS but not with "
                      "TETL_ENABLE_CONTRACT_CHECKS_SAFE" % m[1])

    # ---- G1/G2/G3 per table entry
    covered = set()
    for ent in table:
        cfgs = [ent["config"]] if ent.get("config") else ["checks", "safe"]
        for cfg in cfgs:
            if cfg not in dbs:
                continue
            db = dbs[cfg]
            fs = select(db, ent)
            if len(fs) < ent.get("min", 1):
                chk.analysis_broken("contract table entry %s matches %d definition(s) in configuration %s (needs %d): "
                                    "the public operation it names is gone" % (ent["id"], len(fs), cfg, ent.get("min", 1)))
                continue
            for f in fs:
                covered.add(astx.sig(f))
                f2 = f
                if ent.get("sorts"):
                    f2 = dict(f)
                    f2["params"] = [dict(p) for p in f["params"]]
                    for i, so in ent["sorts"].items():
                        f2["params"][int(i)]["ty"] = {"p": "const_iterator", "u": "size_t", "s": "ptrdiff_t"}[so]
                construct = "%s {%s}" % (astx.sig(f), cfg)
                chk.instance("G1-G3")
                try:
                    r = G.check_operation(db, f2, ent["req"], kind=ent.get("kind", "A"),
                                          static_conds=ent.get("static"), assume=ent.get("assume"),
                                          max_depth=3 if tier == "quick" else 4)
                except Exception as ex:   # spec or engine problem on one instance: unknown, never an alarm
                    chk.unknown_instance("G1", construct, "engine: %r" % (ex,))
                    continue
                where = astx.loc(f)
                for rule, status, wit in (("G1", r.g1, r.g1_witness), ("G2", r.g2, r.g2_witness), ("G3", r.g3, r.g3_witness)):
                    chk.obligation(rule, construct, True if status == "PROVED" else (None if status == "UNKNOWN" else False),
                                   nontrivial=r.guards > 0 or status != "PROVED", evaluations=max(1, r.models))
                    if status == "UNKNOWN":
                        chk.unknown_instance(rule, construct, str(wit))
                    elif status in ("REFUTED", "ABSENT"):
                        wclass = {"G1": "absent" if status == "ABSENT" else "weak", "G2": "spurious", "G3": "order"}[rule]
                        msg = {
                            "G1": "%s: requirement `%s` can be violated without the handler firing; witness %s",
                            "G2": "%s: handler fires although requirement `%s` holds; witness %s",
                            "G3": "%s: an effect precedes the check of `%s`; witness %s",
                        }[rule] % (where, ent["req"], json.dumps(wit))
                        chk.violation(rule, astx.sig(f), wclass, msg,
                                      {"entry": ent["id"], "config": cfg, "where": where, "witness": wit,
                                       "guards": r.guard_sites, "requirement": ent["req"]})
                # G4: the operation's own precondition check must be able to fail (a check that holds in every object state
                # and for every argument checks nothing: `size() <= capacity()` for `size() < capacity()`)
                vac = sorted(g for g, (can_fail, unknown) in r.guard_falsifiable.items() if not can_fail and not unknown)
                if r.guard_falsifiable:
                    chk.obligation("G4", construct, not vac, evaluations=max(1, r.models))
                    for g in vac[:1]:
                        chk.violation("G4", astx.sig(f), "vacuous", "%s: the check %s cannot fail in any state or for any argument (requirement `%s`)" % (
                            where, g, ent["req"]), {"entry": ent["id"], "config": cfg, "where": where, "guard": g, "requirement": ent["req"]})
                chk.sample({"operation": astx.sig(f), "config": cfg, "requirement": ent["req"], "guards": r.guard_sites[:4],
                            "models": r.models, "variants": r.variants, "G1": r.g1, "G2": r.g2, "G3": r.g3})
    # ---- census: guarded functions not covered by any table entry (information only)
    uncovered = sorted(set(astx.sig(f) for f, g in sites["checks"]) - covered)
    chk.extra["guarded_functions_without_table_entry"] = uncovered
    chk.extra["table_entries"] = len(table)
    chk.assumptions += [
        "small-model assumption: guard predicates are comparisons between at most two terms with offsets <= 2, min/max/"
        "clamp, +/- with wrap-around and signedness casts; the domain {0..6, 2^63-1, 2^63, 2^64-2, 2^64-1} (signed: "
        "-2^63,-2,-1,0..6,2^63-1; object sizes 0..6,1000) contains a counter-model whenever one exists",
        "guards after the first state-changing effect of an operation are evaluated only on the first loop iteration",
        "preconditions on iterator ownership (pointer really belongs to this container) are expressed as the range "
        "form begin() <= it <= end() only",
        "the contract table (specs/contracts.json) is hand-written from the documentation/standard and trusted",
    ]
